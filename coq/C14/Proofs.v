(* C14: theorems about the configuration reader model (Config.v).
   All statements are about `expand` as an arbitrary function (Section
   variable), so they hold in particular for the concrete py_expand. *)
From Coq Require Import ZArith List Bool String Ascii Lia Permutation Sorted.
Require Import SV.C14.Strs SV.C14.Gen_defaults SV.C14.Config SV.C14.Dump.
Import ListNotations.
Open Scope string_scope.
Open Scope Z_scope.

(* ------------------------------------------------------------ monad lemmas *)
Lemma bind_ok {A B} (e : result A) (f : A -> result B) b :
  bind e f = Ok b -> exists a, e = Ok a /\ f a = Ok b.
Proof. destruct e; simpl; intro H; [eauto | discriminate]. Qed.

Ltac binv H :=
  let a := fresh "v" in let E := fresh "E" in
  apply bind_ok in H; destruct H as (a & E & H); cbv beta in H.

Lemma mapM_Forall2 {A B} (f : A -> result B) l ys :
  mapM f l = Ok ys -> Forall2 (fun x y => f x = Ok y) l ys.
Proof.
  revert ys; induction l as [|x l IH]; simpl; intros ys H.
  - inversion H; constructor.
  - binv H. binv H. inversion H; subst. constructor; auto.
Qed.

Lemma mapM_length {A B} (f : A -> result B) l ys : mapM f l = Ok ys -> List.length ys = List.length l.
Proof. intro H; apply mapM_Forall2 in H. induction H; simpl; congruence. Qed.

(* ------------------------------------------------------------- string facts *)
Lemma in_strs_In s l : in_strs s l = true <-> In s l.
Proof.
  unfold in_strs. rewrite existsb_exists. split.
  - intros (x & Hx & E). apply String.eqb_eq in E. subst; auto.
  - intro H. exists s. split; auto. apply String.eqb_refl.
Qed.

Lemma in_strs_false s l : in_strs s l = false <-> ~ In s l.
Proof.
  split; intro H.
  - intro K. apply in_strs_In in K. congruence.
  - destruct (in_strs s l) eqn:E; auto. apply in_strs_In in E. contradiction.
Qed.

(* the four section prefixes exclude one another (first characters g p e f) *)
Lemma prefix_hd a s1 x : prefix (String a s1) x = true -> exists y, x = String a y.
Proof.
  destruct x as [|b y]; cbn [prefix]; intro H; [discriminate|].
  destruct (ascii_dec a b); [subst; eauto | discriminate].
Qed.
Ltac prefix_excl x :=
  let H1 := fresh "H" in let H2 := fresh "H" in
  intros H1 H2; apply prefix_hd in H1; apply prefix_hd in H2;
  destruct H1 as (? & H1); destruct H2 as (? & H2); rewrite H1 in H2; discriminate H2.
Lemma prefix_group_program x : prefix "group:" x = true -> prefix "program:" x = true -> False.
Proof. prefix_excl x. Qed.
Lemma prefix_listener_program x : prefix "eventlistener:" x = true -> prefix "program:" x = true -> False.
Proof. prefix_excl x. Qed.
Lemma prefix_fcgi_program x : prefix "fcgi-program:" x = true -> prefix "program:" x = true -> False.
Proof. prefix_excl x. Qed.
Lemma prefix_group_fcgi x : prefix "group:" x = true -> prefix "fcgi-program:" x = true -> False.
Proof. prefix_excl x. Qed.
Lemma prefix_listener_fcgi x : prefix "eventlistener:" x = true -> prefix "fcgi-program:" x = true -> False.
Proof. prefix_excl x. Qed.

(* --------------------------------------------------------- ordering, sorting *)
Lemma ltb_asym a b : String.ltb a b = true -> String.ltb b a = false.
Proof.
  unfold String.ltb. rewrite (String.compare_antisym b a).
  destruct (String.compare a b); simpl; congruence.
Qed.

Lemma key_lt_asym a b : key_lt a b = true -> key_lt b a = false.
Proof.
  unfold key_lt. destruct a as [p n], b as [q m]; simpl.
  destruct (p =? q) eqn:E.
  - apply Z.eqb_eq in E; subst. rewrite Z.eqb_refl. apply ltb_asym.
  - rewrite Z.eqb_sym, E. intro H. apply Z.ltb_lt in H. apply Z.ltb_ge. lia.
Qed.

Lemma key_le_total a b : key_le a b = false -> key_le b a = true.
Proof.
  unfold key_le. intro H. apply negb_false_iff in H. apply key_lt_asym in H. rewrite H. reflexivity.
Qed.

Lemma key_lt_le a b : key_lt a b = true -> key_le a b = true.
Proof. intro H. unfold key_le. rewrite (key_lt_asym _ _ H). reflexivity. Qed.

Section Sorting.
  Context {A : Type} (key : A -> Z * string).
  Definition le_key (x y : A) : Prop := key_le (key x) (key y) = true.

  Lemma insert_by_perm x l : Permutation (insert_by key x l) (x :: l).
  Proof.
    induction l as [|y r IH]; simpl; auto.
    destruct (key_lt (key y) (key x)); auto.
    eapply perm_trans; [apply perm_skip, IH | apply perm_swap].
  Qed.

  Lemma sort_by_perm l : Permutation (sort_by key l) l.
  Proof.
    induction l as [|x r IH]; simpl; auto.
    eapply perm_trans; [apply insert_by_perm | apply perm_skip, IH].
  Qed.

  Lemma insert_by_hd x y l : le_key y x -> HdRel le_key y l -> HdRel le_key y (insert_by key x l).
  Proof.
    intros Hyx H. destruct l as [|z r]; simpl.
    - constructor; auto.
    - inversion H; subst. destruct (key_lt (key z) (key x)); constructor; auto.
  Qed.

  Lemma insert_by_sorted x l : Sorted le_key l -> Sorted le_key (insert_by key x l).
  Proof.
    induction 1 as [|y r Hs IH Hd]; simpl.
    - repeat constructor.
    - destruct (key_lt (key y) (key x)) eqn:E.
      + constructor; auto. apply insert_by_hd; auto. apply key_lt_le; auto.
      + constructor; [constructor; auto|]. constructor. unfold le_key, key_le. rewrite E. reflexivity.
  Qed.

  Lemma sort_by_sorted l : Sorted le_key (sort_by key l).
  Proof. induction l; simpl; [constructor | apply insert_by_sorted; auto]. Qed.

  Lemma sort_by_length l : List.length (sort_by key l) = List.length l.
  Proof. apply Permutation_length, sort_by_perm. Qed.

  Lemma sort_by_In x l : In x (sort_by key l) <-> In x l.
  Proof. split; apply Permutation_in; [|symmetry]; apply sort_by_perm. Qed.
End Sorting.

(* ---------------------------------------------------------------- dictionaries *)
Lemma lookup_dict_set k k' v d :
  lookup k (dict_set d k' v) = if String.eqb k k' then Some v else lookup k d.
Proof.
  induction d as [|[a b] r IH]; simpl.
  - reflexivity.
  - destruct (String.eqb k' a) eqn:E; simpl.
    + apply String.eqb_eq in E; subst. destruct (String.eqb k a); reflexivity.
    + rewrite IH. destruct (String.eqb k a) eqn:F; auto.
      destruct (String.eqb k k') eqn:G; auto.
      apply String.eqb_eq in F, G. subst. rewrite String.eqb_refl in E. discriminate.
Qed.

(* the value a key has in a list of assignments performed in order *)
Fixpoint lookup_last (k : string) (b : list (string * string)) : option string :=
  match b with
  | [] => None
  | (k', v) :: r => match lookup_last k r with
                    | Some w => Some w
                    | None => if String.eqb k k' then Some v else None
                    end
  end.

Lemma lookup_dict_update k a b :
  lookup k (dict_update a b) = match lookup_last k b with Some v => Some v | None => lookup k a end.
Proof.
  unfold dict_update. revert a; induction b as [|[k' v] r IH]; intro a; simpl; auto.
  rewrite IH. destruct (lookup_last k r); auto. simpl. rewrite lookup_dict_set.
  destruct (String.eqb k k'); reflexivity.
Qed.

Definition unique_keys (d : list (string * string)) : Prop := NoDup (map fst d).

Lemma dict_set_keys d k v :
  forall x, In x (map fst (dict_set d k v)) <-> x = k \/ In x (map fst d).
Proof.
  induction d as [|[a b] r IH]; simpl; intro x.
  - intuition.
  - destruct (String.eqb k a) eqn:E; simpl.
    + apply String.eqb_eq in E; subst. intuition.
    + rewrite IH. intuition.
Qed.

Lemma dict_set_unique d k v : unique_keys d -> unique_keys (dict_set d k v).
Proof.
  unfold unique_keys. induction d as [|[a b] r IH]; simpl; intro H.
  - repeat constructor. intros [].
  - inversion H; subst. destruct (String.eqb k a) eqn:E; simpl.
    + apply String.eqb_eq in E; subst. constructor; auto.
    + constructor; auto. rewrite dict_set_keys. intros [K|K]; auto.
      subst. rewrite String.eqb_refl in E. discriminate.
Qed.

Lemma lookup_last_unique k d : unique_keys d -> lookup_last k d = lookup k d.
Proof.
  unfold unique_keys. induction d as [|[a b] r IH]; simpl; intro H; auto.
  inversion H; subst. rewrite IH by auto.
  destruct (String.eqb k a) eqn:E.
  - apply String.eqb_eq in E; subst.
    destruct (lookup a r) eqn:L; auto.
    exfalso. apply H2. clear - L. induction r as [|[x y] r IH]; simpl in *; try discriminate.
    destruct (String.eqb a x) eqn:E; [apply String.eqb_eq in E; auto | auto].
  - destruct (lookup k r); reflexivity.
Qed.

Lemma kv_pairs_unique fuel toks d r :
  unique_keys d -> kv_pairs fuel toks d = Ok r -> unique_keys r.
Proof.
  revert toks d; induction fuel as [|f IH]; simpl; intros toks d U H.
  - inversion H; subst; auto.
  - destruct toks as [|k [|eq [|v rest]]]; try discriminate.
    + inversion H; subst; auto.
    + destruct (String.eqb eq "="); try discriminate.
      destruct rest as [|sep rest].
      * inversion H; subst. apply dict_set_unique; auto.
      * destruct (String.eqb sep ","); try discriminate.
        eapply IH; [|exact H]. apply dict_set_unique; auto.
Qed.

(* the shape of an accepted KEY=value token list: triples k = v separated by commas *)
Inductive kv_shape : list string -> Prop :=
| kv_nil : kv_shape []
| kv_last : forall k v, kv_shape [k; "="; v]
| kv_more : forall k v rest, kv_shape rest -> kv_shape (k :: "=" :: v :: "," :: rest).

Lemma kv_pairs_shape fuel toks d r :
  (List.length toks < fuel)%nat -> kv_pairs fuel toks d = Ok r -> kv_shape toks.
Proof.
  revert toks d; induction fuel as [|f IH]; simpl; intros toks d L H; [inversion L|].
  destruct toks as [|k [|eq [|v rest]]]; try discriminate.
  - constructor.
  - destruct (String.eqb eq "=") eqn:E; try discriminate. apply String.eqb_eq in E; subst.
    destruct rest as [|sep rest]; [constructor|].
    destruct (String.eqb sep ",") eqn:S; try discriminate. apply String.eqb_eq in S; subst.
    constructor. eapply IH; [|exact H]. simpl in L. lia.
Qed.

Lemma env_separator_checked s r :
  dict_of_key_value_pairs s = Ok r -> exists toks, shlex s = Some toks /\ kv_shape toks.
Proof.
  unfold dict_of_key_value_pairs. destruct (shlex s) as [toks|]; try discriminate.
  intro H. exists toks. split; auto. eapply kv_pairs_shape; [|exact H]. auto.
Qed.

Lemma dict_of_kv_unique s r : dict_of_key_value_pairs s = Ok r -> unique_keys r.
Proof.
  unfold dict_of_key_value_pairs. destruct (shlex s); try discriminate.
  apply kv_pairs_unique. constructor.
Qed.

(* -------------------------------------------------------------------- dedup *)
Section DedupFacts.
  Lemma dedup_In x l : In x (dedup l) <-> In x l.
  Proof.
    induction l as [|y r IH]; simpl; [tauto|].
    destruct (in_strs y r) eqn:E.
    - rewrite IH. split; auto. intros [K|K]; auto. subst. apply in_strs_In; auto.
    - simpl. rewrite IH. tauto.
  Qed.
  Lemma dedup_NoDup l : NoDup (dedup l).
  Proof.
    induction l as [|y r IH]; simpl; [constructor|].
    destruct (in_strs y r) eqn:E; auto.
    constructor; auto. rewrite dedup_In. apply in_strs_false; auto.
  Qed.
End DedupFacts.

(* shadowing: a key that none of the newer bindings uses *)
Lemma lookup_app_skip {A} k (l1 l2 : list (string * A)) :
  (forall x, In x l1 -> fst x <> k) -> lookup k (l1 ++ l2)%list = lookup k l2.
Proof.
  induction l1 as [|[a b] r IH]; simpl; intro H; auto.
  destruct (String.eqb k a) eqn:E.
  - apply String.eqb_eq in E. exfalso. apply (H (a, b)); auto.
  - apply IH. intros x Hx. apply H; auto.
Qed.

Definition env_keys_only {A} (d : list (string * A)) : Prop :=
  forall x, In x d -> prefix "ENV_" (fst x) = true.

Lemma env_exps_env_keys env : env_keys_only (env_exps env).
Proof.
  unfold env_keys_only, env_exps. intros x H. apply in_map_iff in H. destruct H as ([k v] & E & _).
  subst. simpl. destruct k; reflexivity.
Qed.

Lemma lookup_upd_skip {A} k (d new : list (string * A)) :
  env_keys_only new -> prefix "ENV_" k = false -> lookup k (upd d new) = lookup k d.
Proof.
  intros H K. unfold upd. apply lookup_app_skip.
  intros x Hx. apply in_rev in Hx. apply H in Hx. intro E; subst. congruence.
Qed.

Lemma lookup_upd_hit {A} k (v : A) d rest : lookup k (upd d ((k, v) :: rest)) = match lookup k (rev rest) with Some w => Some w | None => Some v end.
Proof.
  unfold upd. simpl. rewrite <- app_assoc. simpl.
  induction (rev rest) as [|[a b] r IH]; simpl.
  - rewrite String.eqb_refl; reflexivity.
  - destruct (String.eqb k a); auto.
Qed.

(* ======================================================= the reader's laws *)
Section ReaderFacts.
  Variable expand : string -> exps -> result string.
  Variable c : ctx.

  Notation saneget := (saneget expand).
  Notation loop_step := (loop_step expand c).
  Notation loop := (loop expand c).
  Notation section_common := (section_common expand c).
  Notation processes_unsorted := (processes_unsorted expand c).
  Notation processes_from_section := (processes_from_section expand c).

  (* `command` has no default in the generated table: a value means the option is present *)
  Lemma saneget_command names opts penv ex s :
    saneget code_program names opts "command" penv ex = Ok (GStr s) -> lookup "command" opts <> None.
  Proof.
    unfold Config.saneget.
    replace (lookup "command" code_program) with (Some ("", DNone, false)) by (vm_compute; reflexivity).
    destruct (lookup "command" opts); [congruence|]. simpl. discriminate.
  Qed.

  Lemma loop_step_spec opts sect penv k ex n p ex' :
    loop_step opts sect penv k ex n = Ok (p, ex') ->
    exists environment,
      ex' = step_exps k penv ex n environment /\
      expand (k_pname k) ex' = Ok (p_name p) /\
      p_environment p = environment /\ p_priority p = k_priority k /\ p_class p = k_class k /\
      lookup "command" opts <> None.
  Proof.
    unfold Config.loop_step. intro H.
    binv H. binv H. binv H. binv H. binv H. binv H.
    destruct v4; try discriminate. binv H. inversion H; subst; clear H.
    exists v0. simpl. repeat split; auto. eapply saneget_command; eauto.
  Qed.

  Lemma step_exps_process_num k penv ex n env :
    env_keys_only penv ->
    lookup "process_num" (step_exps k penv ex n env) = Some (VI n) /\
    lookup "numprocs" (step_exps k penv ex n env) = Some (VI (k_numprocs k)).
  Proof.
    intro P. unfold step_exps. split.
    - rewrite lookup_upd_skip by (auto using env_exps_env_keys).
      rewrite lookup_upd_skip by auto. reflexivity.
    - rewrite lookup_upd_skip by (auto using env_exps_env_keys).
      rewrite lookup_upd_skip by auto. reflexivity.
  Qed.

  (* what one process owes to its number *)
  Definition numbered (k : common) (n : Z) (pe : proc * exps) : Prop :=
    lookup "process_num" (snd pe) = Some (VI n) /\
    lookup "numprocs" (snd pe) = Some (VI (k_numprocs k)) /\
    expand (k_pname k) (snd pe) = Ok (p_name (fst pe)) /\
    p_priority (fst pe) = k_priority k /\ p_class (fst pe) = k_class k.

  Lemma loop_spec opts sect penv k : env_keys_only penv ->
    forall nums ex ps, loop opts sect penv k ex nums = Ok ps ->
    exists pes, map fst pes = ps /\ Forall2 (numbered k) nums pes /\
                (nums <> [] -> lookup "command" opts <> None).
  Proof.
    intro P. induction nums as [|n r IH]; simpl; intros ex ps H.
    - inversion H; subst. exists []. repeat split; auto; congruence.
    - binv H. destruct v as [p ex']. binv H. inversion H; subst; clear H.
      apply loop_step_spec in E. destruct E as (env & -> & Hn & He & Hp & Hc & Hcmd).
      apply IH in E0. destruct E0 as (pes & <- & F & _).
      exists ((p, step_exps k penv ex n env) :: pes). repeat split; auto.
      constructor; auto. destruct (step_exps_process_num k penv ex n env P) as (A & B).
      red; simpl. auto.
  Qed.

  (* ---- command, directory, environment and log files are expanded per process:
     every field of the i-th process is the section's value read in the
     dictionary of that process (process_num = its number) *)
  Definition expanded_per_process (opts : options) (penv : exps) (k : common) (n : Z) (pe : proc * exps) : Prop :=
    let p := fst pe in let E := snd pe in
    lookup "process_num" E = Some (VI n) /\
    (exists ex envs,
        expand (k_envstr k) (upd (upd ex [("process_num", VI n); ("numprocs", VI (k_numprocs k))]) penv) = Ok envs /\
        dict_of_key_value_pairs envs = Ok (p_environment p) /\
        E = step_exps k penv ex n (p_environment p)) /\
    saneget code_program [("Automatic", GAuto)] opts "command" penv E = Ok (GStr (p_command p)) /\
    (exists d, saneget code_program [("Automatic", GAuto)] opts "directory" penv E = Ok d /\ p_directory p = gstr_opt d) /\
    (exists o, logfile_block expand c opts penv E E "stdout" = Ok o /\
               p_stdout p = mk_logcfg (rewrite_syslog o) (k_ocap k) (k_oev k)) /\
    (exists e, logfile_block expand c opts penv E E "stderr" = Ok e /\
               p_stderr p = mk_logcfg (no_stderr_file (k_redirect k) (rewrite_syslog e)) (k_ecap k) (k_eev k)) /\
    expand (k_pname k) E = Ok (p_name p).

  Lemma loop_step_fields opts sect penv k ex n p ex' :
    env_keys_only penv ->
    loop_step opts sect penv k ex n = Ok (p, ex') -> expanded_per_process opts penv k n (p, ex').
  Proof.
    intro P. unfold Config.loop_step. intro H.
    binv H. binv H. binv H. binv H. binv H. binv H.
    destruct v4; try discriminate. binv H. inversion H; subst; clear H.
    unfold expanded_per_process. simpl.
    split; [apply (step_exps_process_num k penv ex n v0 P)|].
    split; [exists ex, v; auto|].
    split; [assumption|].
    split; [exists v1; auto|].
    split; [exists v2; auto|].
    split; [exists v3; auto|]. assumption.
  Qed.

  Lemma loop_fields opts sect penv k : env_keys_only penv ->
    forall nums ex ps, loop opts sect penv k ex nums = Ok ps ->
    exists pes, map fst pes = ps /\ Forall2 (expanded_per_process opts penv k) nums pes.
  Proof.
    intro P. induction nums as [|n r IH]; simpl; intros ex ps H.
    - inversion H; subst. exists []. split; auto.
    - binv H. destruct v as [p ex']. binv H. inversion H; subst; clear H.
      apply (loop_step_fields _ _ _ _ _ _ _ _ P) in E.
      apply IH in E0. destruct E0 as (pes & <- & F).
      exists ((p, ex') :: pes). split; auto.
  Qed.

  Lemma zrange_length s n : List.length (zrange s n) = Z.to_nat n.
  Proof. unfold zrange. rewrite map_length, seq_length. reflexivity. Qed.

  Lemma zrange_nth s n i : (i < Z.to_nat n)%nat -> nth_error (zrange s n) i = Some (s + Z.of_nat i).
  Proof.
    intro H. unfold zrange. rewrite nth_error_map, nth_error_nth' with (d := O) by (rewrite seq_length; auto).
    rewrite seq_nth by auto. reflexivity.
  Qed.

  Lemma zrange_NoDup s n : NoDup (zrange s n).
  Proof.
    unfold zrange. apply FinFun.Injective_map_NoDup; [|apply seq_NoDup].
    intros a b H. lia.
  Qed.

  Lemma zrange_nonempty s n : n >= 1 -> zrange s n <> [].
  Proof.
    intros H E. apply (f_equal (@List.length Z)) in E. rewrite zrange_length in E. simpl in E. lia.
  Qed.

  (* ---- everything read before the loop *)
  Definition pget names opts penv ex0 opt := saneget code_program names opts opt penv ex0.
  Definition auto_names : list (string * gval) := [("Automatic", GAuto)].

  Lemma section_common_spec sect opts gname klass penv k start ex0 :
    section_common sect opts gname klass penv = Ok (k, start, ex0) ->
    (exists pn, conv_name (GStr (after_colon sect)) = Ok pn /\
                ex0 = [("here", VS (c_here c)); ("program_name", VS pn);
                       ("host_node_name", VS (c_host c)); ("group_name", VS gname)]) /\
    (exists v, pget auto_names opts penv ex0 "numprocs" = Ok v /\ conv_integer v = Ok (k_numprocs k)) /\
    (exists v, pget auto_names opts penv ex0 "numprocs_start" = Ok v /\ conv_integer v = Ok start) /\
    (exists v, pget auto_names opts penv ex0 "process_name" = Ok v /\ conv_name v = Ok (k_pname k)) /\
    (exists v, pget auto_names opts penv ex0 "priority" = Ok v /\ conv_integer v = Ok (k_priority k)) /\
    (exists v, pget auto_names opts penv ex0 "stopasgroup" = Ok v /\ conv_boolean v = Ok (k_stopasgroup k)) /\
    (exists v, pget [("stopasgroup", GBool (k_stopasgroup k))] opts penv ex0 "killasgroup" = Ok v /\
               conv_boolean v = Ok (k_killasgroup k)) /\
    (k_numprocs k > 1 -> contains "%(process_num)" (k_pname k) = true) /\
    (k_stopasgroup k = true -> k_killasgroup k = true) /\
    k_class k = klass.
  Proof.
    unfold Config.section_common, pget, auto_names. intro H.
    binv H. cbv beta zeta in H.
    repeat (binv H; cbv beta zeta in H).
    match type of H with (if ?b then _ else _) = _ => destruct b eqn:B1; [discriminate|] end.
    match type of H with (if ?b then _ else _) = _ => destruct b eqn:B2; [discriminate|] end.
    inversion H; subst; clear H. simpl.
    repeat match goal with |- _ /\ _ => split end; eauto.
    - intro G. apply andb_false_iff in B1. destruct B1 as [B1|B1].
      + rewrite Z.gtb_ltb in B1. apply Z.ltb_ge in B1. lia.
      + apply negb_false_iff in B1. exact B1.
    - intro G. subst. apply andb_false_iff in B2. destruct B2 as [B2|B2]; [discriminate|].
      apply negb_false_iff in B2. exact B2.
  Qed.

  Lemma Forall2_nth {X Y} (R : X -> Y -> Prop) xs ys :
    Forall2 R xs ys -> forall i x, nth_error xs i = Some x -> exists y, nth_error ys i = Some y /\ R x y.
  Proof.
    induction 1 as [|x0 y0 xs ys R0 F IH]; intros i x N.
    - destruct i; discriminate.
    - destruct i as [|i]; simpl in *.
      + inversion N; subst. eauto.
      + apply IH; auto.
  Qed.

  (* ---- C14 numprocs law: exactly n processes, the i-th named by expanding
     process_name in a dictionary whose process_num is s + i *)
  Theorem numprocs_law sect opts gname klass penv ps :
    env_keys_only penv ->
    processes_unsorted sect opts gname klass penv = Ok ps ->
    exists k s ex0 pes,
      section_common sect opts gname klass penv = Ok (k, s, ex0) /\
      map fst pes = ps /\
      List.length ps = Z.to_nat (k_numprocs k) /\
      Forall2 (numbered k) (zrange s (k_numprocs k)) pes /\
      (forall i, (i < Z.to_nat (k_numprocs k))%nat ->
         exists p E, nth_error ps i = Some p /\ nth_error pes i = Some (p, E) /\
                     lookup "process_num" E = Some (VI (s + Z.of_nat i)) /\
                     expand (k_pname k) E = Ok (p_name p)).
  Proof.
    intros P H. unfold Config.processes_unsorted in H. binv H. destruct v as [[k s] ex0].
    exists k, s, ex0. apply (loop_spec _ _ _ _ P) in H. destruct H as (pes & <- & F & _).
    exists pes. repeat split; auto.
    - rewrite map_length. rewrite <- (zrange_length s). symmetry. clear - F. induction F; simpl; congruence.
    - intros i Hi. pose proof (zrange_nth s _ i Hi) as N.
      destruct (Forall2_nth _ _ _ F _ _ N) as ([p Ex] & Hpe & (A & _ & B & _)). simpl in *.
      exists p, Ex. repeat split; auto.
      rewrite nth_error_map, Hpe. reflexivity.
  Qed.

  Theorem per_process_expansion sect opts gname klass penv ps :
    env_keys_only penv ->
    processes_unsorted sect opts gname klass penv = Ok ps ->
    exists k s ex0 pes,
      section_common sect opts gname klass penv = Ok (k, s, ex0) /\ map fst pes = ps /\
      Forall2 (expanded_per_process opts penv k) (zrange s (k_numprocs k)) pes.
  Proof.
    intros P H. unfold Config.processes_unsorted in H. binv H. destruct v as [[k s] ex0].
    exists k, s, ex0. apply (loop_fields _ _ _ _ P) in H. destruct H as (pes & <- & F). eauto.
  Qed.

  (* an expander is injective in process_num for this pattern when equal
     results force equal process_num bindings *)
  Definition injective_in_process_num (pn : string) : Prop :=
    forall E E' a, expand pn E = Ok a -> expand pn E' = Ok a ->
                   lookup "process_num" E = lookup "process_num" E'.

  Lemma numbered_names_NoDup k nums pes :
    injective_in_process_num (k_pname k) -> NoDup nums -> Forall2 (numbered k) nums pes ->
    NoDup (map (fun pe => p_name (fst pe)) pes).
  Proof.
    intros Inj ND F. induction F as [|n pe nums pes R F IH]; simpl; [constructor|].
    inversion ND; subst. constructor; auto.
    intro K. apply in_map_iff in K. destruct K as (pe' & En & Hin).
    (* pe' corresponds to some n' in nums *)
    assert (exists n', In n' nums /\ numbered k n' pe') as (n' & Hn' & R').
    { clear - F Hin. induction F; simpl in *; [contradiction|]. destruct Hin as [<-|Hin]; eauto.
      destruct (IHF Hin) as (m & ? & ?); eauto. }
    destruct R as (A & _ & B & _), R' as (A' & _ & B' & _).
    rewrite En in B'. pose proof (Inj _ _ _ B B') as Q. rewrite A, A' in Q. inversion Q; subst. contradiction.
  Qed.

  Theorem numprocs_names_distinct sect opts gname klass penv ps k s ex0 :
    env_keys_only penv ->
    processes_unsorted sect opts gname klass penv = Ok ps ->
    section_common sect opts gname klass penv = Ok (k, s, ex0) ->
    injective_in_process_num (k_pname k) ->
    NoDup (map p_name ps).
  Proof.
    intros P H SC Inj. destruct (numprocs_law _ _ _ _ _ _ P H) as (k' & s' & ex0' & pes & SC' & <- & _ & F & _).
    rewrite SC in SC'. inversion SC'; subst. rewrite map_map.
    eapply numbered_names_NoDup; eauto. apply zrange_NoDup.
  Qed.

  (* the sorted list handed to the group is a permutation of the loop's list *)
  Theorem processes_sorted sect opts gname klass penv ps :
    processes_from_section sect opts gname klass penv = Ok ps ->
    exists ps0, processes_unsorted sect opts gname klass penv = Ok ps0 /\
                Permutation ps ps0 /\ Sorted (le_key proc_key) ps.
  Proof.
    unfold Config.processes_from_section. intro H. binv H. inversion H; subst.
    exists v. repeat split; auto using sort_by_perm, sort_by_sorted.
  Qed.

  (* ---- constraints of one program-like section: accepted => they hold *)
  Theorem section_constraints sect opts gname klass penv ps :
    processes_from_section sect opts gname klass penv = Ok ps ->
    exists k s ex0,
      section_common sect opts gname klass penv = Ok (k, s, ex0) /\
      (k_numprocs k > 1 -> contains "%(process_num)" (k_pname k) = true) /\
      (k_stopasgroup k = true -> k_killasgroup k = true) /\
      (k_numprocs k >= 1 -> lookup "command" opts <> None) /\
      (exists pn, conv_name (GStr (after_colon sect)) = Ok pn) /\
      first_forbidden name_forbidden_chars (k_pname k) = false.
  Proof.
    intro H. apply processes_sorted in H. destruct H as (ps0 & H & _).
    unfold Config.processes_unsorted in H. binv H. destruct v as [[k s] ex0].
    exists k, s, ex0. pose proof (section_common_spec _ _ _ _ _ _ _ _ E) as
        ((pn & Hpn & _) & _ & _ & (v & _ & Hv) & _ & _ & _ & C1 & C2 & _).
    repeat split; auto.
    - intro G. destruct (zrange s (k_numprocs k)) eqn:Z.
      + exfalso. eapply zrange_nonempty; eauto.
      + simpl in H. binv H. destruct v0. apply loop_step_spec in E0.
        destruct E0 as (? & _ & _ & _ & _ & _ & Q). exact Q.
    - eauto.
    - unfold conv_name in Hv. destruct (first_forbidden name_forbidden_chars (strip (py_str v))) eqn:F;
        [discriminate|]. inversion Hv; subst. exact F.
  Qed.
End ReaderFacts.

(* ============================================================ group level *)
Lemma Forall2_in_l {X Y} (R : X -> Y -> Prop) xs ys x :
  Forall2 R xs ys -> In x xs -> exists y, In y ys /\ R x y.
Proof.
  induction 1 as [|x0 y0 xs ys R0 F IH]; simpl; [contradiction|].
  intros [<-|H]; eauto. destruct (IH H) as (y & ? & ?); eauto.
Qed.

Lemma Forall2_in_r {X Y} (R : X -> Y -> Prop) xs ys y :
  Forall2 R xs ys -> In y ys -> exists x, In x xs /\ R x y.
Proof.
  induction 1 as [|x0 y0 xs ys R0 F IH]; simpl; [contradiction|].
  intros [<-|H]; eauto. destruct (IH H) as (x & ? & ?); eauto.
Qed.

Lemma lookup_In_unique {A} k (v : A) d : NoDup (map fst d) -> In (k, v) d -> lookup k d = Some v.
Proof.
  induction d as [|[a b] r IH]; simpl; intros ND H; [contradiction|].
  inversion ND; subst. destruct H as [H|H].
  - inversion H; subst. rewrite String.eqb_refl. reflexivity.
  - destruct (String.eqb k a) eqn:E.
    + apply String.eqb_eq in E; subst. exfalso. apply H2. apply in_map_iff. exists (a, v); auto.
    + auto.
Qed.

Section GroupFacts.
  Variable expand : string -> exps -> result string.
  Variable c : ctx.

  Notation processes_from_section := (processes_from_section expand c).
  Notation gget := (gget expand c).
  Notation group_member := (group_member expand c).
  Notation het_group := (het_group expand c).
  Notation hom_group := (hom_group expand c).
  Notation listener_pool := (listener_pool expand c).
  Notation fcgi_group := (fcgi_group expand c).
  Notation groups_unsorted := (groups_unsorted expand c).
  Notation process_groups := (process_groups expand c).

  (* the section a name in a programs= line refers to *)
  Definition member_section (secs : sections) (prog : string) : string :=
    if in_strs ("program:" ++ prog) (section_names secs) then "program:" ++ prog else "fcgi-program:" ++ prog.

  Lemma group_member_spec secs penv gname prog m :
    group_member secs penv gname prog = Ok m ->
    fst m = member_section secs prog /\ In (fst m) (section_names secs) /\
    processes_from_section (fst m) (find_section secs (fst m)) gname PCProcess penv = Ok (snd m).
  Proof.
    unfold Config.group_member, member_section.
    destruct (in_strs ("program:" ++ prog) (section_names secs)) eqn:P;
      destruct (in_strs ("fcgi-program:" ++ prog) (section_names secs)) eqn:F; simpl; intro H;
        try discriminate; binv H; inversion H; subst; simpl; repeat split; auto; apply in_strs_In; auto.
  Qed.

  Lemma het_group_spec secs penv sect opts g excl :
    het_group secs penv (sect, opts) = Ok (g, excl) ->
    g_section g = sect /\ g_kind g = GHet /\ conv_name (GStr (after_colon sect)) = Ok (g_name g) /\
    exists v members,
      gget code_group opts "programs" penv [] = Ok v /\
      Forall2 (fun prog m => group_member secs penv (g_name g) prog = Ok m) (conv_list_of_strings v) members /\
      g_procs g = flat_map snd members /\ excl = map fst members.
  Proof.
    unfold Config.het_group. intro H. binv H. binv H. cbv zeta in H. binv H. binv H. binv H.
    inversion H; subst; clear H. simpl. repeat split; auto.
    exists v0, v3. repeat split; auto. apply mapM_Forall2; auto.
  Qed.

  Lemma hom_group_spec penv sect opts g :
    hom_group penv (sect, opts) = Ok g ->
    g_section g = sect /\ g_kind g = GHom /\ conv_name (GStr (after_colon sect)) = Ok (g_name g) /\
    processes_from_section sect opts (g_name g) PCProcess penv = Ok (g_procs g) /\
    exists v, gget code_programgroup opts "priority" penv [] = Ok v /\ conv_integer v = Ok (g_priority g).
  Proof.
    unfold Config.hom_group. intro H. binv H. binv H. binv H. binv H. inversion H; subst; simpl. eauto 10.
  Qed.

  (* ---- C14 listener subscription *)
  Theorem listener_subscription penv h sect opts g :
    listener_pool penv h (sect, opts) = Ok g ->
    g_section g = sect /\ g_name g = after_colon sect /\
    processes_from_section sect opts (g_name g) PCListener penv = Ok (g_procs g) /\
    exists b evs hd v,
      g_kind g = GPool b evs hd /\
      gget code_eventlistener opts "events" penv [] = Ok v /\
      NoDup evs /\ evs <> [] /\
      (forall e, In e evs <-> In e (map upper (conv_list_of_strings v))) /\
      (forall e, In e evs -> In e event_type_names) /\
      b >= 1.
  Proof.
    unfold Config.listener_pool. intro H. cbv zeta in H. binv H. binv H. binv H. binv H.
    destruct (v2 <? 1) eqn:B; [discriminate|]. binv H.
    destruct (negb (h (py_str v3))); [discriminate|]. binv H.
    destruct (dedup (map upper (conv_list_of_strings v4))) as [|e0 evs] eqn:D; [discriminate|].
    match type of H with (if ?b then _ else _) = _ => destruct b eqn:B2; [discriminate|] end.
    binv H. binv H. destruct v6; [discriminate|]. binv H. inversion H; subst; clear H.
    cbn [g_section g_name g_procs g_kind].
    split; [reflexivity|]. split; [reflexivity|]. split; [assumption|].
    exists v2, (e0 :: evs), (py_str v3), v4.
    split; [reflexivity|]. split; [assumption|].
    split; [rewrite <- D; apply dedup_NoDup|].
    split; [discriminate|].
    split; [intro e; rewrite <- D; apply dedup_In|].
    split.
    - intros e He. apply negb_false_iff in B2. rewrite forallb_forall in B2.
      apply in_strs_In. apply B2. exact He.
    - apply Z.ltb_ge in B. lia.
  Qed.

  (* an unknown event type is an error, whatever else the section says *)
  Corollary unknown_event_rejected penv h sect opts v e :
    gget code_eventlistener opts "events" penv [] = Ok v ->
    In e (map upper (conv_list_of_strings v)) -> ~ In e event_type_names ->
    forall g, listener_pool penv h (sect, opts) <> Ok g.
  Proof.
    intros G I N g H. apply listener_subscription in H.
    destruct H as (_ & _ & _ & b & evs & hd & v' & _ & G' & _ & _ & Hin & Hv & _).
    rewrite G in G'. inversion G'; subst. apply N, Hv, Hin, I.
  Qed.

  Lemma fcgi_group_spec penv sect opts g :
    fcgi_group penv (sect, opts) = Ok g ->
    g_section g = sect /\ conv_name (GStr (after_colon sect)) = Ok (g_name g) /\
    processes_from_section sect opts (g_name g) PCFcgi penv = Ok (g_procs g) /\
    exists url bl md ow, g_kind g = GFcgi url bl md ow.
  Proof.
    unfold Config.fcgi_group. intro H. binv H. repeat binv H.
    match type of H with match ?x with _ => _ end = _ => destruct x as [| [|ch rest] | | |]; try discriminate end.
    binv H. binv H. inversion H; subst; clear H. cbn [g_section g_name g_procs g_kind].
    split; [reflexivity|]. split; [assumption|]. split; [assumption|].
    match goal with K : parse_fcgi_socket _ _ _ _ _ _ = Ok ?k |- _ => revert K; generalize k end.
    clear. intros k K. unfold parse_fcgi_socket in K.
    repeat match type of K with
           | (if ?b then _ else _) = _ => destruct b
           | match ?x with _ => _ end = _ => destruct x
           end; try discriminate; inversion K; eauto.
  Qed.

  (* the sections named by the programs= line of some [group:x] *)
  Definition listed (secs : sections) (penv : exps) (s : string) : Prop :=
    exists gsec gopts v prog,
      In (gsec, gopts) secs /\ prefix "group:" gsec = true /\
      gget code_group gopts "programs" penv [] = Ok v /\
      In prog (conv_list_of_strings v) /\ s = member_section secs prog.

  Lemma excluded_listed secs penv het :
    mapM (het_group secs penv) (filter (fun s => prefix "group:" (fst s)) secs) = Ok het ->
    forall s, In s (flat_map snd het) <-> listed secs penv s.
  Proof.
    intro M. apply mapM_Forall2 in M. intro s. split.
    - intro H. apply in_flat_map in H. destruct H as ([g excl] & Hin & Hs). simpl in Hs.
      destruct (Forall2_in_r _ _ _ _ M Hin) as ([gsec gopts] & Hf & Hg).
      apply filter_In in Hf. destruct Hf as (Hsec & Hp). simpl in Hp.
      apply het_group_spec in Hg. destruct Hg as (_ & _ & _ & v & members & G & F & _ & ->).
      apply in_map_iff in Hs. destruct Hs as (m & <- & Hm).
      destruct (Forall2_in_r _ _ _ _ F Hm) as (prog & Hprog & GM).
      apply group_member_spec in GM. destruct GM as (E & _).
      exists gsec, gopts, v, prog. auto.
    - intros (gsec & gopts & v & prog & Hsec & Hp & G & Hprog & ->).
      assert (In (gsec, gopts) (filter (fun s => prefix "group:" (fst s)) secs)) as Hf
          by (apply filter_In; auto).
      destruct (Forall2_in_l _ _ _ _ M Hf) as ([g excl] & Hin & Hg).
      apply het_group_spec in Hg. destruct Hg as (_ & _ & _ & v' & members & G' & F & _ & ->).
      rewrite G in G'. inversion G'; subst v'.
      destruct (Forall2_in_l _ _ _ _ F Hprog) as (m & Hm & GM).
      apply group_member_spec in GM. destruct GM as (E & _).
      apply in_flat_map. exists (g, map fst members). split; auto. simpl.
      rewrite <- E. apply in_map; auto.
  Qed.

  (* ---- C14 groups: the exact group set and membership *)
  Theorem groups_law secs penv h gs :
    groups_unsorted secs penv h = Ok gs ->
    (* every [group:x] section is a group holding exactly its listed programs' processes *)
    (forall gsec gopts, In (gsec, gopts) secs -> prefix "group:" gsec = true ->
       exists g, In g gs /\ g_section g = gsec /\ g_kind g = GHet /\
                 conv_name (GStr (after_colon gsec)) = Ok (g_name g) /\
                 exists v pss,
                   gget code_group gopts "programs" penv [] = Ok v /\
                   Forall2 (fun prog ps =>
                              processes_from_section (member_section secs prog)
                                (find_section secs (member_section secs prog)) (g_name g) PCProcess penv = Ok ps)
                           (conv_list_of_strings v) pss /\
                   g_procs g = List.concat pss) /\
    (* a listed program has no group of its own *)
    (forall s, prefix "program:" s = true \/ prefix "fcgi-program:" s = true ->
               listed secs penv s -> forall g, In g gs -> g_section g <> s) /\
    (* an unlisted program keeps its own group *)
    (forall s o, In (s, o) secs -> prefix "program:" s = true -> ~ listed secs penv s ->
       exists g, In g gs /\ g_section g = s /\ g_kind g = GHom /\
                 conv_name (GStr (after_colon s)) = Ok (g_name g) /\
                 processes_from_section s o (g_name g) PCProcess penv = Ok (g_procs g)) /\
    (* listener pools and unlisted fcgi programs likewise *)
    (forall s o, In (s, o) secs -> prefix "eventlistener:" s = true ->
       exists g, In g gs /\ g_section g = s /\ listener_pool penv h (s, o) = Ok g) /\
    (forall s o, In (s, o) secs -> prefix "fcgi-program:" s = true -> ~ listed secs penv s ->
       exists g, In g gs /\ g_section g = s /\ fcgi_group penv (s, o) = Ok g) /\
    (* being listed is decidable *)
    (forall s, listed secs penv s \/ ~ listed secs penv s) /\
    (* and there is nothing else *)
    (forall g, In g gs ->
       exists o, In (g_section g, o) secs /\
         (prefix "group:" (g_section g) = true \/
          (prefix "program:" (g_section g) = true /\ ~ listed secs penv (g_section g)) \/
          prefix "eventlistener:" (g_section g) = true \/
          (prefix "fcgi-program:" (g_section g) = true /\ ~ listed secs penv (g_section g)))).
  Proof.
    unfold Config.groups_unsorted. intro H. binv H. cbv zeta in H. binv H. binv H. binv H.
    inversion H; subst; clear H.
    pose proof (excluded_listed _ _ _ E) as EX.
    pose proof (mapM_Forall2 _ _ _ E) as Fhet.
    pose proof (mapM_Forall2 _ _ _ E0) as Fhom.
    pose proof (mapM_Forall2 _ _ _ E1) as Fpool.
    pose proof (mapM_Forall2 _ _ _ E2) as Ffcgi.
    assert (Hhet : forall g, In g (map fst v) -> exists o, In (g_section g, o) secs /\ prefix "group:" (g_section g) = true).
    { intros g Hg. apply in_map_iff in Hg. destruct Hg as ([g' ex] & <- & Hin).
      destruct (Forall2_in_r _ _ _ _ Fhet Hin) as ([s o] & Hf & Hg). apply filter_In in Hf. destruct Hf as (A & B).
      apply het_group_spec in Hg. destruct Hg as (Hs & _). simpl in *. rewrite Hs. eauto. }
    assert (Hhom : forall g, In g v0 -> exists o, In (g_section g, o) secs /\ prefix "program:" (g_section g) = true
                                                  /\ ~ listed secs penv (g_section g)).
    { intros g Hin. destruct (Forall2_in_r _ _ _ _ Fhom Hin) as ([s o] & Hf & Hg).
      apply filter_In in Hf. destruct Hf as (A & B). simpl in B. apply andb_true_iff in B. destruct B as (B1 & B2).
      apply hom_group_spec in Hg. destruct Hg as (-> & _). exists o. repeat split; auto.
      rewrite <- EX. apply in_strs_false. apply negb_true_iff; auto. }
    assert (Hpool : forall g, In g v1 -> exists o, In (g_section g, o) secs /\ prefix "eventlistener:" (g_section g) = true).
    { intros g Hin. destruct (Forall2_in_r _ _ _ _ Fpool Hin) as ([s o] & Hf & Hg).
      apply filter_In in Hf. destruct Hf as (A & B). apply listener_subscription in Hg. destruct Hg as (-> & _). eauto. }
    assert (Hfcgi : forall g, In g v2 -> exists o, In (g_section g, o) secs /\ prefix "fcgi-program:" (g_section g) = true
                                                   /\ ~ listed secs penv (g_section g)).
    { intros g Hin. destruct (Forall2_in_r _ _ _ _ Ffcgi Hin) as ([s o] & Hf & Hg).
      apply filter_In in Hf. destruct Hf as (A & B). simpl in B. apply andb_true_iff in B. destruct B as (B1 & B2).
      apply fcgi_group_spec in Hg. destruct Hg as (-> & _). exists o. repeat split; auto.
      rewrite <- EX. apply in_strs_false. apply negb_true_iff; auto. }
    repeat split.
    - (* groups *)
      intros gsec gopts Hsec Hp.
      assert (In (gsec, gopts) (filter (fun s => prefix "group:" (fst s)) secs)) as Hf by (apply filter_In; auto).
      destruct (Forall2_in_l _ _ _ _ Fhet Hf) as ([g excl] & Hin & Hg).
      apply het_group_spec in Hg. destruct Hg as (A & B & C & v' & members & G & F & P & _).
      exists g. split; [apply in_or_app; left; apply in_map_iff; exists (g, excl); auto|].
      repeat split; auto. exists v', (map snd members). repeat split; auto.
      + clear - F. induction F as [|prog m progs ms R F IH]; simpl; constructor; auto.
        apply group_member_spec in R. destruct R as (R1 & _ & R3). rewrite R1 in R3. exact R3.
      + rewrite P. clear. induction members; simpl; congruence.
    - (* listed: no group of its own *)
      intros s Hs L g Hg Eq. apply in_app_or in Hg. destruct Hg as [Hg|Hg].
      { destruct (Hhet _ Hg) as (_ & _ & Pg). rewrite Eq in Pg. destruct Hs as [Hs|Hs].
        - eapply prefix_group_program; eauto. - eapply prefix_group_fcgi; eauto. }
      apply in_app_or in Hg. destruct Hg as [Hg|Hg].
      { destruct (Hhom _ Hg) as (_ & _ & _ & N). rewrite Eq in N. contradiction. }
      apply in_app_or in Hg. destruct Hg as [Hg|Hg].
      { destruct (Hpool _ Hg) as (_ & _ & Pg). rewrite Eq in Pg. destruct Hs as [Hs|Hs].
        - eapply prefix_listener_program; eauto. - eapply prefix_listener_fcgi; eauto. }
      { destruct (Hfcgi _ Hg) as (_ & _ & _ & N). rewrite Eq in N. contradiction. }
    - (* unlisted program *)
      intros s o Hsec Hp NL.
      assert (In (s, o) (filter (fun s => prefix "program:" (fst s) && negb (in_strs (fst s) (flat_map snd v))) secs)) as Hf.
      { apply filter_In. split; auto. simpl. rewrite Hp. simpl. apply negb_true_iff. apply in_strs_false.
        rewrite EX. exact NL. }
      destruct (Forall2_in_l _ _ _ _ Fhom Hf) as (g & Hin & Hg).
      apply hom_group_spec in Hg. destruct Hg as (A & B & C & D & _).
      exists g. split; [apply in_or_app; right; apply in_or_app; left; auto|]. auto.
    - (* listener *)
      intros s o Hsec Hp.
      assert (In (s, o) (filter (fun s => prefix "eventlistener:" (fst s)) secs)) as Hf by (apply filter_In; auto).
      destruct (Forall2_in_l _ _ _ _ Fpool Hf) as (g & Hin & Hg).
      exists g. split; [apply in_or_app; right; apply in_or_app; right; apply in_or_app; left; auto|].
      split; auto. apply listener_subscription in Hg. tauto.
    - (* unlisted fcgi *)
      intros s o Hsec Hp NL.
      assert (In (s, o) (filter (fun s => prefix "fcgi-program:" (fst s) && negb (in_strs (fst s) (flat_map snd v))) secs)) as Hf.
      { apply filter_In. split; auto. simpl. rewrite Hp. simpl. apply negb_true_iff. apply in_strs_false.
        rewrite EX. exact NL. }
      destruct (Forall2_in_l _ _ _ _ Ffcgi Hf) as (g & Hin & Hg).
      exists g. split; [apply in_or_app; right; apply in_or_app; right; apply in_or_app; right; auto|].
      split; auto. apply fcgi_group_spec in Hg. tauto.
    - intro s. destruct (in_strs s (flat_map snd v)) eqn:D.
      + left. apply EX. apply in_strs_In; auto.
      + right. rewrite <- EX. apply in_strs_false; auto.
    - (* nothing else *)
      intros g Hg. apply in_app_or in Hg. destruct Hg as [Hg|Hg].
      { destruct (Hhet _ Hg) as (o & A & B). eauto. }
      apply in_app_or in Hg. destruct Hg as [Hg|Hg].
      { destruct (Hhom _ Hg) as (o & A & B & C). eauto 6. }
      apply in_app_or in Hg. destruct Hg as [Hg|Hg].
      { destruct (Hpool _ Hg) as (o & A & B). eauto 6. }
      { destruct (Hfcgi _ Hg) as (o & A & B & C). eauto 8. }
  Qed.

  (* ---- C14 sorted: the result is the (priority, name)-sorted permutation *)
  Theorem groups_sorted secs penv h gs :
    process_groups secs penv h = Ok gs ->
    exists gs0, groups_unsorted secs penv h = Ok gs0 /\ Permutation gs gs0 /\ Sorted (le_key group_key) gs.
  Proof.
    unfold Config.process_groups. intro H. binv H. inversion H; subst.
    exists v. repeat split; auto using sort_by_perm, sort_by_sorted.
  Qed.

  (* ---- every program-like section of an accepted configuration went through
     processes_from_section, hence satisfies section_constraints *)
  Theorem every_section_checked secs penv h gs :
    NoDup (section_names secs) ->
    groups_unsorted secs penv h = Ok gs ->
    forall s o, In (s, o) secs ->
      prefix "program:" s = true \/ prefix "eventlistener:" s = true \/ prefix "fcgi-program:" s = true ->
      exists gname klass ps, processes_from_section s o gname klass penv = Ok ps.
  Proof.
    intros ND H s o Hsec Hp.
    pose proof (groups_law _ _ _ _ H) as (G1 & _ & G3 & G4 & G5 & classic_listed & _).
    assert (Hl : listed secs penv s -> exists gname klass ps, processes_from_section s o gname klass penv = Ok ps).
    { intros (gsec & gopts & v & prog & Hg & Pg & Gv & Hprog & ->).
      destruct (G1 _ _ Hg Pg) as (g & _ & _ & _ & _ & v' & pss & Gv' & F & _).
      rewrite Gv in Gv'. inversion Gv'; subst v'.
      destruct (Forall2_in_l _ _ _ _ F Hprog) as (ps & _ & Hps).
      unfold find_section in Hps. rewrite (lookup_In_unique _ _ _ ND Hsec) in Hps. eauto. }
    destruct Hp as [Hp|[Hp|Hp]].
    - destruct (classic_listed s) as [L|L]; auto.
      destruct (G3 _ _ Hsec Hp L) as (g & _ & _ & _ & _ & P). eauto.
    - destruct (G4 _ _ Hsec Hp) as (g & _ & _ & P). apply listener_subscription in P.
      destruct P as (_ & _ & P & _). eauto.
    - destruct (classic_listed s) as [L|L]; auto.
      destruct (G5 _ _ Hsec Hp L) as (g & _ & _ & P). apply fcgi_group_spec in P.
      destruct P as (_ & _ & P & _). eauto.
  Qed.
End GroupFacts.

(* =========================================================== whole config *)
Lemma Forall2_map_r {X Y} (R : X -> Y -> Prop) (f : X -> Y) l :
  (forall x, In x l -> R x (f x)) -> Forall2 R l (map f l).
Proof. induction l; simpl; intro H; constructor; auto. Qed.

Section ConfigFacts.
  Variable expand : string -> exps -> result string.
  Variable c : ctx.

  (* ---- C14 environment precedence: every process gets the [supervisord]
     environment overridden by its program's own *)
  Theorem env_precedence main incs h cf :
    read_config expand c main incs h = Ok cf ->
    exists secs penv groups0,
      process_groups expand c secs penv h = Ok groups0 /\
      Forall2 (fun g0 g =>
                 g_name g = g_name g0 /\ g_priority g = g_priority g0 /\ g_kind g = g_kind g0 /\
                 Forall2 (fun p0 p =>
                            p_name p = p_name p0 /\ p_command p = p_command p0 /\
                            forall k, lookup k (p_environment p) =
                                      match lookup_last k (p_environment p0) with
                                      | Some v => Some v
                                      | None => lookup k (s_environment (cf_sup cf))
                                      end)
                         (g_procs g0) (g_procs g))
              groups0 (cf_groups cf).
  Proof.
    unfold read_config. intro H. binv H.
    destruct (negb (has_section v "supervisord")); [discriminate|]. cbv zeta in H.
    binv H. binv H. inversion H; subst; clear H. simpl.
    eexists _, _, v1. split; [exact E1|].
    apply Forall2_map_r. intros g _. simpl. repeat split; auto.
    apply Forall2_map_r. intros p _. simpl. repeat split; auto.
    intro k. apply lookup_dict_update.
  Qed.

  (* the program's own dictionary comes from dict_of_key_value_pairs, whose
     keys are unique, so "last assignment" is plain lookup there *)
  Lemma own_environment_lookup s d k :
    dict_of_key_value_pairs s = Ok d -> lookup_last k d = lookup k d.
  Proof. intro H. apply lookup_last_unique. eapply dict_of_kv_unique; eauto. Qed.
End ConfigFacts.

(* ------------------------------------------------ generated tables are used *)
Lemma dump_fields_cover p : map fst (dump_fields p) = (req_param_names ++ optional_param_names)%list.
Proof. reflexivity. Qed.

Lemma dump_effective_cover s : map fst (dump_effective s) = map fst effective_options.
Proof. reflexivity. Qed.

Require Import SV.C14.Defaults.
Lemma defaults_match_docs :
  defaults_mismatches = [] /\ documented_but_unread = [] /\ stale_known = [].
Proof. vm_compute. repeat split. Qed.

(* ============================================== examples and known defects *)
Definition ex_ctx : ctx :=
  {| c_here := "/etc/sv"; c_host := "box"; c_environ := [("ENV_HOME", "/root")];
     c_dirs := ["/etc/sv"; "/var/log"; "/tmp"]; c_users := [("root", 0)]; c_groups := [("root", 0)];
     c_uid := 0; c_pwgid := [(0, 0)]; c_tempdir := "/tmp" |}.

Lemma ex_env_keys : env_keys_only (env_exps_raw (c_environ ex_ctx)).
Proof. intros x [<-|[]]. reflexivity. Qed.

Definition ex_cat : options :=
  [("command", "/bin/cat %(process_num)d"); ("numprocs", "12"); ("numprocs_start", "3");
   ("process_name", "%(program_name)s_%(process_num)02d"); ("environment", "B=""prog"",C=""%(ENV_A)s""")].

Definition ex_main : sections :=
  [("supervisord", [("environment", "A=""1"",B=""sup""")]);
   ("program:cat", ex_cat);
   ("program:b", [("command", "/bin/b"); ("priority", "5")]);
   ("group:g", [("programs", "b")]);
   ("eventlistener:l", [("command", "/bin/l"); ("events", "TICK_5,tick_60,TICK_5")])].

Definition ex_handlers (h : string) : bool := String.eqb h "supervisor.dispatchers:default_handler".

(* hypotheses of numprocs_law are satisfiable: 12 processes, numbered 3..14 *)
Example ex_numprocs :
  exists ps, processes_unsorted py_expand ex_ctx "program:cat" ex_cat "cat" PCProcess
                                (env_exps_raw (c_environ ex_ctx) ++ [("ENV_A", VS "1")])%list = Ok ps /\
             map p_name ps = ["cat_03"; "cat_04"; "cat_05"; "cat_06"; "cat_07"; "cat_08"; "cat_09";
                              "cat_10"; "cat_11"; "cat_12"; "cat_13"; "cat_14"] /\
             map p_command ps = map (fun i => "/bin/cat " ++ z_to_str i) (zrange 3 12).
Proof. eexists. split; [vm_compute; reflexivity|]. split; vm_compute; reflexivity. Qed.

(* the injectivity hypothesis holds of py_expand for the documented pattern,
   checked here for process numbers -20..120 *)
Definition ex_name (i : Z) : result string :=
  py_expand "%(program_name)s_%(process_num)02d" [("program_name", VS "cat"); ("process_num", VI i)].
Example ex_injective_02d :
  let r := zrange (-20) 141 in
  forallb (fun i => forallb (fun j => (i =? j) ||
     match ex_name i, ex_name j with Ok a, Ok b => negb (String.eqb a b) | _, _ => false end) r) r = true.
Proof. vm_compute. reflexivity. Qed.

(* the whole example configuration: group set, membership, subscription, order, environment *)
Example ex_parse :
  match parse ex_ctx ex_main [] ex_handlers with
  | Ok cf =>
    map (fun g => (g_name g, g_priority g, map p_name (g_procs g))) (cf_groups cf) =
      [("l", -1, ["l"]);
       ("cat", 999, ["cat_03"; "cat_04"; "cat_05"; "cat_06"; "cat_07"; "cat_08"; "cat_09";
                     "cat_10"; "cat_11"; "cat_12"; "cat_13"; "cat_14"]);
       ("g", 999, ["b"])] /\
    map (fun g => match g_kind g with GPool _ evs _ => evs | _ => [] end) (cf_groups cf) =
      [["TICK_60"; "TICK_5"]; []; []] /\
    map (fun g => map p_environment (firstn 1 (g_procs g))) (cf_groups cf) =
      [[[("A", "1"); ("B", "sup")]]; [[("A", "1"); ("B", "prog"); ("C", "1")]]; [[("A", "1"); ("B", "sup")]]]
  | Err _ => False
  end.
Proof. vm_compute. repeat split. Qed.

(* ---- known defects of the reader, reproduced by the faithful model ------- *)

(* (1) `%(process_num)` is only searched as a substring: an escaped or
   zero-precision occurrence passes the check and all processes get one name.
   This is why numprocs_names_distinct needs its injectivity hypothesis. *)
Definition defect_escaped_process_num (pname : string) : bool :=
  contains "%%(process_num)" pname || contains "%(process_num).0s" pname.

Lemma names_distinct_refuted :
  exists opts ps,
    processes_unsorted py_expand ex_ctx "program:w" opts "w" PCProcess [] = Ok ps /\
    lookup "numprocs" opts = Some "3" /\
    (exists pn, lookup "process_name" opts = Some pn /\ contains "%(process_num)" pn = true /\
                defect_escaped_process_num pn = true) /\
    map p_name ps = ["x%(process_num)d"; "x%(process_num)d"; "x%(process_num)d"].
Proof.
  exists [("command", "/bin/w"); ("numprocs", "3"); ("process_name", "x%%(process_num)d")].
  eexists. split; [vm_compute; reflexivity|]. split; [reflexivity|]. split; [|vm_compute; reflexivity].
  eexists. split; [reflexivity|]. split; vm_compute; reflexivity.
Qed.

(* (2) a negative numprocs is accepted and yields a group without processes
   (and without the command check) *)
Lemma negative_numprocs_accepted :
  processes_from_section py_expand ex_ctx "program:w" [("numprocs", "-2")] "w" PCProcess [] = Ok [].
Proof. vm_compute. reflexivity. Qed.

(* repaired (89ee4dd): the handler / sigmask constants of the signal module and
   the number 0 are not signals; computed over the generated tables, so the old
   SIGNUMS filter or a dropped name guard breaks this *)
Definition rejected_as_signal (s : string) : bool :=
  match conv_signal (GStr s) with Err ESignal => true | _ => false end.
Lemma signal_constants_rejected :
  forallb rejected_as_signal
          ["0"; "_IGN"; "_DFL"; "SIG_IGN"; "SIG_DFL"; "SIG_BLOCK"; "_UNBLOCK"; "sig_setmask"; "-1"; "65"] = true /\
  conv_signal (GStr "TERM") = Ok 15 /\ conv_signal (GStr "1") = Ok 1 /\ conv_signal (GStr "sigusr2") = Ok 12.
Proof. repeat split; vm_compute; reflexivity. Qed.

(* every accepted signal is one of the generated SIGNUMS, and an accepted name
   does not carry the guarded prefix *)
Lemma signal_accepted_is_signal v n : conv_signal v = Ok n -> In n signal_numbers.
Proof.
  unfold conv_signal. destruct v; try discriminate.
  assert (Hx : forall m, existsb (Z.eqb m) signal_numbers = true -> In m signal_numbers).
  { intros m H. apply existsb_exists in H. destruct H as (x & Hx & E). apply Z.eqb_eq in E. subst; auto. }
  destruct (parse_int s).
  - destruct (existsb (Z.eqb z) signal_numbers) eqn:E; intro H; inversion H; subst. auto.
  - match goal with |- match ?x with _ => _ end = _ -> _ => destruct x; try discriminate end.
    match goal with |- (if ?b then _ else _) = _ -> _ => destruct b; try discriminate end.
    destruct (existsb (Z.eqb z) signal_numbers) eqn:E; intro H; inversion H; subst. auto.
Qed.

(* repaired (2aace49): the separator between KEY=value pairs must be a comma *)
Lemma env_separator_examples :
  dict_of_key_value_pairs "A==1" = Err EEnvSyntax /\
  dict_of_key_value_pairs "A=1;B=2" = Err EEnvSyntax /\
  dict_of_key_value_pairs "A=1," = Ok [("A", "1")] /\
  dict_of_key_value_pairs "A=1,B=""x,y""" = Ok [("A", "1"); ("B", "x,y")].
Proof. vm_compute. repeat split. Qed.

(* repaired (cffd68d): only the generated level names are logging levels *)
Lemma loglevel_only_levels v n : conv_loglevel v = Ok n -> In (lower (py_str v), n) log_levels.
Proof.
  unfold conv_loglevel. generalize (lower (py_str v)) as k. intro k.
  induction log_levels as [|[a b] r IH]; simpl; try discriminate.
  destruct (String.eqb k a) eqn:E.
  - apply String.eqb_eq in E; subst. intro H; inversion H; subst; auto.
  - intro H. right. apply IH; auto.
Qed.
Lemma loglevel_dunder_rejected :
  conv_loglevel (GStr "__module__") = Err ELogLevel /\ conv_loglevel (GStr "__doc__") = Err ELogLevel.
Proof. vm_compute. split; reflexivity. Qed.

(* (5) an empty name and brackets pass process_or_group_name although the
   documentation forbids them *)
Lemma empty_and_bracket_names_accepted :
  conv_name (GStr "") = Ok "" /\ conv_name (GStr "a[b") = Ok "a[b" /\ conv_name (GStr "a]b") = Ok "a]b".
Proof. vm_compute. repeat split. Qed.

(* ====================================== listener pools: listed types -> deliveries *)
Require Import SV.C09.Gen_EvTypes SV.C09.EvTypes SV.C09.EvTypesProofs SV.C14.Subscribe.

Lemma mem_et_In t l : mem_et t l = true <-> In t l.
Proof.
  unfold mem_et. rewrite existsb_exists. split.
  - intros (x & Hx & E). apply etype_eqb_eq in E. subst; auto.
  - intro H. exists t. split; auto. apply etype_eqb_refl.
Qed.

Lemma NoDup_snoc_et (l : list etype) x : NoDup l -> ~ In x l -> NoDup (l ++ [x]).
Proof.
  induction l as [|a l IH]; simpl; intros N H; [repeat constructor; auto|].
  inversion N; subst. constructor.
  - rewrite in_app_iff. simpl. intros [K|[K|[]]]; auto.
  - apply IH; auto.
Qed.

Lemma sub_types_from_spec subs : forall todo acc, NoDup acc ->
  NoDup (sub_types_from todo acc subs) /\
  forall x, In x (sub_types_from todo acc subs) <-> In x acc \/ (In x todo /\ has_other_super x subs = false).
Proof.
  induction todo as [|t r IH]; intros acc ND; simpl.
  - split; [exact ND|]. intros x. tauto.
  - destruct (mem_et t acc) eqn:M.
    + destruct (IH acc ND) as [N1 S1]. split; [exact N1|]. intros x. rewrite S1.
      apply mem_et_In in M. split; [tauto|]. intros [H|[[H|H] K]]; auto. subst. auto.
    + destruct (has_other_super t subs) eqn:O.
      * destruct (IH acc ND) as [N1 S1]. split; [exact N1|]. intros x. rewrite S1.
        split; [tauto|]. intros [H|[[H|H] K]]; auto. subst. congruence.
      * assert (ND' : NoDup (acc ++ [t])).
        { apply NoDup_snoc_et; [exact ND|]. intros K. apply mem_et_In in K. congruence. }
        destruct (IH (acc ++ [t])%list ND') as [N1 S1]. split; [exact N1|]. intros x. rewrite S1.
        rewrite in_app_iff. simpl. split.
        -- intros [[H|[H|[]]]|[H K]]; auto. subst. right. auto.
        -- intros [H|[[H|H] K]]; auto.
Qed.

Lemma subscription_types_spec subs :
  NoDup (subscription_types subs) /\
  forall x, In x (subscription_types subs) <-> In x subs /\ has_other_super x subs = false.
Proof.
  destruct (sub_types_from_spec subs subs [] (NoDup_nil _)) as [N S]. split; [exact N|].
  intros x. unfold subscription_types. rewrite S. simpl. tauto.
Qed.

Lemma subscription_covers subs t : forall n T,
  (depth T <= n)%nat -> In T subs -> subtype_b t T = true ->
  exists T', In T' (subscription_types subs) /\ subtype_b t T' = true.
Proof.
  induction n as [|n IH]; intros T D I S.
  - destruct (has_other_super T subs) eqn:O.
    + unfold has_other_super in O. apply existsb_exists in O. destruct O as [U [IU HU]].
      apply andb_true_iff in HU. destruct HU as [NE SU]. apply negb_true_iff in NE.
      pose proof (depth_lt T U SU NE). lia.
    + exists T. split; [|exact S]. apply subscription_types_spec. auto.
  - destruct (has_other_super T subs) eqn:O.
    + unfold has_other_super in O. apply existsb_exists in O. destruct O as [U [IU HU]].
      apply andb_true_iff in HU. destruct HU as [NE SU]. apply negb_true_iff in NE.
      pose proof (depth_lt T U SU NE). apply (IH U); [lia | exact IU | eapply subtype_b_trans; eassumption].
    + exists T. split; [|exact S]. apply subscription_types_spec. auto.
Qed.

(* ---- one notification of class t reaches the pool exactly once iff t or one
   of its superclasses is listed - whatever duplicates, orders or
   type/supertype pairs the events= line has *)
Theorem subscription_routing subs t :
  deliveries subs t = if existsb (fun T => subtype_b t T) subs then 1%Z else 0%Z.
Proof.
  unfold deliveries. destruct (subscription_types_spec subs) as [N S].
  set (F := filter (fun T => subtype_b t T) (subscription_types subs)).
  assert (Huniq : forall x y, In x F -> In y F -> x = y).
  { intros x y Hx Hy. apply filter_In in Hx. apply filter_In in Hy.
    destruct Hx as [Ix Sx]. destruct Hy as [Iy Sy].
    apply S in Ix. apply S in Iy. destruct Ix as [Ix Ox]. destruct Iy as [Iy Oy].
    destruct (etype_eqb x y) eqn:Q; [apply etype_eqb_eq; exact Q|]. exfalso.
    destruct (subtype_chain t x y Sx Sy) as [C|C].
    - assert (has_other_super x subs = true); [|congruence].
      unfold has_other_super. apply existsb_exists. exists y. split; [exact Iy|].
      rewrite C, andb_true_r. apply negb_true_iff.
      destruct (etype_eqb y x) eqn:Q'; [|reflexivity]. apply etype_eqb_eq in Q'. subst.
      rewrite etype_eqb_refl in Q. discriminate.
    - assert (has_other_super y subs = true); [|congruence].
      unfold has_other_super. apply existsb_exists. exists x. split; [exact Ix|].
      rewrite C, andb_true_r. apply negb_true_iff. exact Q. }
  assert (NF : NoDup F) by (apply NoDup_filter; exact N).
  destruct (existsb (fun T => subtype_b t T) subs) eqn:E.
  - apply existsb_exists in E. destruct E as [T [IT ST]].
    destruct (subscription_covers subs t (depth T) T (le_n _) IT ST) as [T' [I' S']].
    assert (L2 : In T' F) by (apply filter_In; auto).
    destruct F as [|a [|b l]]; simpl in *; [tauto | reflexivity |].
    exfalso. inversion NF as [|? ? NA _]; subst. apply NA. left. symmetry. apply Huniq; simpl; auto.
  - destruct F as [|a l] eqn:EF; [reflexivity|]. exfalso.
    assert (I : In a F) by (rewrite EF; left; reflexivity).
    unfold F in I. apply filter_In in I. destruct I as [I Sa]. apply S in I. destruct I as [I _].
    assert (existsb (fun T => subtype_b t T) subs = true); [|congruence].
    apply existsb_exists. exists a. auto.
Qed.

(* the two generated tables agree: every name the reader accepts (c14 translator:
   EventTypes attribute names) is a class of C09's generated hierarchy *)
Lemma event_names_are_classes :
  forallb (fun n => match class_of_name n with Some _ => true | None => false end) event_type_names = true /\
  List.length event_type_names = List.length event_types_table.
Proof. vm_compute. split; reflexivity. Qed.

(* ---- the class tree realises the documented name tree: for all EventTypes
   names a, b: class(b) is a subclass of class(a)  iff  a is above b by name *)
Definition tree_match_b : bool :=
  forallb (fun a => forallb (fun b =>
    match class_of_name a, class_of_name b with
    | Some ca, Some cb => Bool.eqb (subtype_b cb ca) (name_super a b)
    | _, _ => false
    end) event_type_names) event_type_names.
Lemma class_tree_matches_names : tree_match_b = true.
Proof. vm_compute. reflexivity. Qed.

Lemma tree_match a b : In a event_type_names -> In b event_type_names ->
  exists ca cb, class_of_name a = Some ca /\ class_of_name b = Some cb /\ subtype_b cb ca = name_super a b.
Proof.
  intros A B. pose proof class_tree_matches_names as H. unfold tree_match_b in H.
  rewrite forallb_forall in H. specialize (H a A). rewrite forallb_forall in H. specialize (H b B).
  destruct (class_of_name a) as [ca|]; [|discriminate]. destruct (class_of_name b) as [cb|]; [|discriminate].
  exists ca, cb. repeat split. apply Bool.eqb_prop; exact H.
Qed.

(* ---- documented subscription: a pool listing valid names receives one
   notification of type n exactly once iff n or a name above it is listed *)
Theorem subscription_by_names names n :
  Forall (fun l => In l event_type_names) names -> In n event_type_names ->
  exists cn, class_of_name n = Some cn /\
             deliveries (somes (map class_of_name names)) cn = doc_deliveries names n.
Proof.
  intros F N. destruct (tree_match n n N N) as (cn & _ & Cn & _ & _). exists cn. split; [exact Cn|].
  rewrite subscription_routing. unfold doc_deliveries.
  replace (existsb (fun T => subtype_b cn T) (somes (map class_of_name names)))
    with (existsb (fun l => name_super l n) names); [reflexivity|].
  induction F as [|l r Hl F IH]; simpl; [reflexivity|].
  destruct (tree_match l n Hl N) as (cl & cn' & Cl & Cn' & E). rewrite Cn in Cn'. inversion Cn'; subst cn'.
  rewrite Cl. simpl. rewrite E, IH. reflexivity.
Qed.

(* ---- boolean spellings: exactly true/false yes/no on/off 1/0 in any case *)
Definition documented_truthy : list string := ["true"; "yes"; "on"; "1"; "TRUE"; "Yes"; "oN"; "True"].
Definition documented_falsy : list string := ["false"; "no"; "off"; "0"; "FALSE"; "No"; "oFF"; "Off"].
Definition not_booleans : list string :=
  ["off0"; "of"; "tru"; "2"; "y"; "n"; "t"; "f"; "none"; ""; "01"; "10"; "yes0"; "onoff"; "truefalse"; "-1"; "o"; "0ff"].
Definition is_ok_bool (b : bool) (s : string) : bool :=
  match conv_boolean (GStr s) with Ok x => Bool.eqb x b | Err _ => false end.
Definition is_ok_ar (a : autorestart) (s : string) : bool :=
  match conv_autorestart (GStr s) with Ok x => Defaults.ar_eqb x a | Err _ => false end.
Lemma boolean_spellings :
  forallb (is_ok_bool true) documented_truthy = true /\ forallb (is_ok_bool false) documented_falsy = true /\
  forallb (fun s => match conv_boolean (GStr s) with Err EBool => true | _ => false end) not_booleans = true /\
  forallb (is_ok_ar ARAlways) documented_truthy = true /\ forallb (is_ok_ar ARNever) documented_falsy = true /\
  forallb (is_ok_ar ARUnexpected) ["unexpected"; "UNEXPECTED"; "Unexpected"] = true /\
  forallb (fun s => match conv_autorestart (GStr s) with Err EAutorestart => true | _ => false end) not_booleans = true.
Proof. repeat split; vm_compute; reflexivity. Qed.

Example ex_subscription :
  map (fun t => deliveries (pool_classes "PROCESS_STATE_RUNNING, process_state,TICK_5,TICK_5") t)
      [T_ProcessStateStoppedEvent; T_ProcessStateRunningEvent; T_ProcessStateEvent; T_Tick5Event; T_Tick60Event; T_Event]
  = [1; 1; 1; 1; 0; 0]%Z.
Proof. vm_compute. reflexivity. Qed.
