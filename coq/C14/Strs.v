(* C14, part 0: string helpers used by the configuration model (Python str
   methods as far as the configuration reader uses them, ASCII only). *)
From Coq Require Import ZArith List Bool String Ascii.
Import ListNotations.
Open Scope string_scope.
Open Scope Z_scope.

Definition ascii_z (c : ascii) : Z := Z.of_N (N_of_ascii c).
Definition z_ascii (z : Z) : ascii := ascii_of_N (Z.to_N z).

Definition is_upper (c : ascii) : bool := let n := ascii_z c in (65 <=? n) && (n <=? 90).
Definition is_lower (c : ascii) : bool := let n := ascii_z c in (97 <=? n) && (n <=? 122).
Definition is_digit (c : ascii) : bool := let n := ascii_z c in (48 <=? n) && (n <=? 57).
(* str.strip() / int() whitespace: space \t \n \v \f \r and the ASCII separators 28-31 *)
Definition is_space (c : ascii) : bool :=
  let n := ascii_z c in (n =? 32) || ((9 <=? n) && (n <=? 13)) || ((28 <=? n) && (n <=? 31)).

Definition lower_c (c : ascii) : ascii := if is_upper c then z_ascii (ascii_z c + 32) else c.
Definition upper_c (c : ascii) : ascii := if is_lower c then z_ascii (ascii_z c - 32) else c.

Fixpoint smap (f : ascii -> ascii) (s : string) : string :=
  match s with EmptyString => EmptyString | String c r => String (f c) (smap f r) end.
Definition lower := smap lower_c.
Definition upper := smap upper_c.

Fixpoint lstrip (s : string) : string :=
  match s with String c r => if is_space c then lstrip r else s | EmptyString => s end.
Fixpoint srev_acc (s acc : string) : string :=
  match s with EmptyString => acc | String c r => srev_acc r (String c acc) end.
Definition srev (s : string) := srev_acc s EmptyString.
Definition rstrip (s : string) : string := srev (lstrip (srev s)).
Definition strip (s : string) : string := rstrip (lstrip s).

Fixpoint lstrip_chars (f : ascii -> bool) (s : string) : string :=
  match s with String c r => if f c then lstrip_chars f r else s | EmptyString => s end.
Definition strip_chars (f : ascii -> bool) (s : string) : string :=
  srev (lstrip_chars f (srev (lstrip_chars f s))).

Fixpoint mem_char (c : ascii) (s : string) : bool :=
  match s with EmptyString => false | String d r => Ascii.eqb c d || mem_char c r end.

(* `pat in s` *)
Fixpoint contains (pat s : string) : bool :=
  prefix pat s || match s with EmptyString => false | String _ r => contains pat r end.

Definition in_strs (s : string) (l : list string) : bool := existsb (String.eqb s) l.

Fixpoint drop (n : nat) (s : string) : string :=
  match n, s with O, _ => s | S k, String _ r => drop k r | S _, EmptyString => EmptyString end.

(* s.split(c) (all occurrences) *)
Fixpoint split_acc (c : ascii) (s : string) (cur : string) : list string :=
  match s with
  | EmptyString => [srev cur]
  | String d r => if Ascii.eqb c d then srev cur :: split_acc c r EmptyString
                  else split_acc c r (String d cur)
  end.
Definition split_on (c : ascii) (s : string) : list string := split_acc c s EmptyString.

(* s.split(c, 1): None when c does not occur *)
Fixpoint split1_acc (c : ascii) (s : string) (cur : string) : option (string * string) :=
  match s with
  | EmptyString => None
  | String d r => if Ascii.eqb c d then Some (srev cur, r) else split1_acc c r (String d cur)
  end.
Definition split1 (c : ascii) (s : string) : option (string * string) := split1_acc c s EmptyString.

(* s.split(): on runs of whitespace *)
Fixpoint split_ws_acc (s : string) (cur : string) : list string :=
  match s with
  | EmptyString => match cur with EmptyString => [] | _ => [srev cur] end
  | String d r => if is_space d
                  then match cur with EmptyString => split_ws_acc r EmptyString
                                    | _ => srev cur :: split_ws_acc r EmptyString end
                  else split_ws_acc r (String d cur)
  end.
Definition split_ws (s : string) : list string := split_ws_acc s EmptyString.

(* s.replace(pat, rep), pat non-empty; `skip` characters of a matched pattern
   are still to be dropped *)
Fixpoint replace_go (pat rep s : string) (skip : nat) : string :=
  match s with
  | EmptyString => EmptyString
  | String c r =>
    match skip with
    | S k => replace_go pat rep r k
    | O => if prefix pat s then rep ++ replace_go pat rep r (String.length pat - 1)
           else String c (replace_go pat rep r O)
    end
  end.
Definition replace_all (pat rep s : string) : string :=
  match pat with EmptyString => s | _ => replace_go pat rep s O end.

(* rfind-based os.path.dirname (posixpath) *)
Fixpoint all_slash (s : string) : bool :=
  match s with EmptyString => true | String c r => Ascii.eqb c "/" && all_slash r end.
(* longest prefix ending in '/', reversed input: drop up to the first '/' *)
Fixpoint drop_to_slash (rs : string) : string :=
  match rs with EmptyString => EmptyString
              | String c r => if Ascii.eqb c "/" then rs else drop_to_slash r end.
Definition dirname (p : string) : string :=
  let head := srev (drop_to_slash (srev p)) in
  if all_slash head then head else srev (lstrip_chars (fun c => Ascii.eqb c "/") (srev head)).

(* decimal rendering of a Z (str(int)) *)
Fixpoint pos_digits_fuel (fuel : nat) (n : Z) (acc : string) : string :=
  match fuel with
  | O => acc
  | S k => let acc' := String (z_ascii (48 + n mod 10)) acc in
           if n / 10 =? 0 then acc' else pos_digits_fuel k (n / 10) acc'
  end.
Definition nat_digits (n : Z) : string := pos_digits_fuel (S (Z.to_nat (Z.log2 (Z.max 1 n)))) n EmptyString.
Definition z_to_str (z : Z) : string :=
  if z <? 0 then String "-" (nat_digits (- z)) else nat_digits z.

Fixpoint repeat_c (c : ascii) (n : nat) : string :=
  match n with O => EmptyString | S k => String c (repeat_c c k) end.

Definition slen (s : string) : Z := Z.of_nat (String.length s).

(* digits, with single underscores between digits, in base `base` (<= 10) *)
Fixpoint digits_val (base : Z) (s : string) (acc : Z) (prev_digit : bool) : option Z :=
  match s with
  | EmptyString => if prev_digit then Some acc else None
  | String c r =>
    if is_digit c && (ascii_z c - 48 <? base) then digits_val base r (acc * base + (ascii_z c - 48)) true
    else if Ascii.eqb c "_" && prev_digit then
      match r with String d _ => if is_digit d then digits_val base r acc false else None | _ => None end
    else None
  end.

(* int(s) / int(s, 8) of CPython restricted to ASCII: surrounding whitespace,
   one optional sign, digits with single underscores; base 8 additionally
   accepts the 0o / 0O prefix *)
Definition parse_int_base (base : Z) (s : string) : option Z :=
  let t := strip s in
  let '(neg, body) :=
    match t with
    | String "-" r => (true, r)
    | String "+" r => (false, r)
    | _ => (false, t)
    end in
  let body :=
    if base =? 8 then
      match body with
      | String "0" (String "o" r) => match r with String "_" r' => r' | _ => r end
      | String "0" (String "O" r) => match r with String "_" r' => r' | _ => r end
      | _ => body
      end
    else body in
  match digits_val base body 0 false with
  | Some v => Some (if neg then - v else v)
  | None => None
  end.
Definition parse_int := parse_int_base 10.
