(* C14: the defaults the code uses (generated from the `get(...)` calls) against
   the defaults docs/configuration.rst states (generated from its *Default*
   lines).  A documented default agrees with the code's when converting the
   documented text with the option's converter gives the value the code's
   default converts to; "no default" phrases agree with None.  Known
   differences are listed explicitly, so that any NEW difference makes
   `defaults_mismatches` non-empty and breaks c14_defaults_match_docs. *)
From Coq Require Import ZArith List Bool String Ascii.
Require Import SV.C14.Strs SV.C14.Gen_defaults SV.C14.Config.
Import ListNotations.
Open Scope string_scope.
Open Scope Z_scope.

Definition absent_phrase (doc : string) : bool :=
  let l := lower doc in
  prefix "no " l || prefix "do not" l || String.eqb l "none" || prefix "uses the user" l
  || String.eqb l "socket.somaxconn".

Definition res_eqb {A} (eqb : A -> A -> bool) (a b : result A) : bool :=
  match a, b with Ok x, Ok y => eqb x y | _, _ => false end.

Definition ar_eqb (a b : autorestart) : bool :=
  match a, b with ARUnexpected, ARUnexpected | ARAlways, ARAlways | ARNever, ARNever => true | _, _ => false end.

Fixpoint zlist_eqb (a b : list Z) : bool :=
  match a, b with [] , [] => true | x :: a', y :: b' => Z.eqb x y && zlist_eqb a' b' | _, _ => false end.

Definition conv_agree (conv : string) (code doc : gval) : bool :=
  if String.eqb conv "integer" then res_eqb Z.eqb (conv_integer code) (conv_integer doc)
  else if String.eqb conv "boolean" then res_eqb Bool.eqb (conv_boolean code) (conv_boolean doc)
  else if String.eqb conv "byte_size" then res_eqb Z.eqb (conv_byte_size code) (conv_byte_size doc)
  else if String.eqb conv "auto_restart" then res_eqb ar_eqb (conv_autorestart code) (conv_autorestart doc)
  else if String.eqb conv "signal_number" then res_eqb Z.eqb (conv_signal code) (conv_signal doc)
  else if String.eqb conv "list_of_exitcodes" then res_eqb zlist_eqb (conv_exitcodes code) (conv_exitcodes doc)
  else if String.eqb conv "octal_type" then res_eqb Z.eqb (conv_octal code) (conv_octal doc)
  else if String.eqb conv "logging_level" then res_eqb Z.eqb (conv_loglevel code) (conv_loglevel doc)
  else if String.eqb conv "process_or_group_name" then res_eqb String.eqb (conv_name code) (conv_name doc)
  else if String.eqb conv "existing_dirpath" then String.eqb ("$CWD/" ++ py_str code) (py_str doc)
  else if String.eqb conv "" then String.eqb (py_str code) (py_str doc)
  else false.

Definition default_agrees (opt conv : string) (d : dflt) (doc : string) : bool :=
  match d with
  | DNone | DRequired =>
    absent_phrase doc
    (* serverurl: the code maps AUTO to None *)
    || (String.eqb opt "serverurl" && String.eqb (upper doc) "AUTO")
    (* socket_mode: None becomes fcgi_default_mode in parse_fcgi_socket *)
    || (String.eqb opt "socket_mode" && res_eqb Z.eqb (conv_octal (GStr doc)) (Ok fcgi_default_mode))
  | DName n =>
    if String.eqb n "Automatic" then in_strs (lower doc) logfile_autos
    else if String.eqb n "tempdir" then contains "tempfile.gettempdir" doc
    else false
  | DStr s => conv_agree conv (GStr s) (GStr doc) || (String.eqb s "" && absent_phrase doc)
  | DInt z => conv_agree conv (GInt z) (GStr doc)
  | DBool b => conv_agree conv (GBool b) (GStr doc)
  end.

Definition docs_of (sec : string) : list (string * string) :=
  match lookup sec doc_defaults with Some l => l | None => [] end.

(* documented default of an option: the section's own entry, else [program:x]'s
   ("all the options available to [program:x] sections are respected") *)
Definition doc_default (sec opt : string) : option string :=
  match lookup opt (docs_of sec) with
  | Some d => Some d
  | None => if String.eqb sec "supervisord" || String.eqb sec "group:x" then None
            else lookup opt (docs_of "program:x")
  end.

Inductive verdict := Agrees | Differs (code : dflt) (doc : string) | Undocumented.

Definition judge (sec : string) (row : string * (string * dflt * bool)) : string * string * verdict :=
  let '(opt, (conv, d, _)) := row in
  (sec, opt,
   match doc_default sec opt with
   | None => Undocumented
   | Some doc => if default_agrees opt conv d doc then Agrees else Differs d doc
   end).

Definition all_judgements : list (string * string * verdict) :=
  (map (judge "program:x") code_program ++ map (judge "supervisord") code_supervisord ++
   map (judge "group:x") code_group ++ map (judge "program:x") code_programgroup ++
   map (judge "eventlistener:x") code_eventlistener ++ map (judge "fcgi-program:x") code_fcgi_program)%list.

(* differences between code and documentation that are known and accepted
   (reported as observations in notes/C14.md) *)
Definition known_differences : list (string * string) :=
  [ (* the default of killasgroup is the value of stopasgroup; documented as false *)
    ("program:x", "killasgroup");
    (* listener pools default to priority -1; the documentation sends the reader to [program:x] (999) *)
    ("eventlistener:x", "priority");
    (* no *Default* line: 10, required, stated in prose only *)
    ("eventlistener:x", "buffer_size"); ("eventlistener:x", "events"); ("eventlistener:x", "result_handler") ].

Definition is_known (sec opt : string) : bool :=
  existsb (fun '(s, o) => String.eqb s sec && String.eqb o opt) known_differences.

Definition defaults_mismatches : list (string * string * verdict) :=
  filter (fun '(sec, opt, v) => match v with Agrees => false | _ => negb (is_known sec opt) end) all_judgements.

(* the other direction: every documented option of these sections is read by the code *)
Definition code_reads (sec opt : string) : bool :=
  let has := fun (t : opt_table) => match lookup opt t with Some _ => true | None => false end in
  if String.eqb sec "program:x" then has code_program
  else if String.eqb sec "supervisord" then has code_supervisord
  else if String.eqb sec "group:x" then has code_group
  else if String.eqb sec "fcgi-program:x" then has code_fcgi_program || has code_program
  else if String.eqb sec "eventlistener:x" then has code_eventlistener || has code_program
  else true.

Definition documented_but_unread : list (string * string) :=
  flat_map (fun '(sec, opts) => map (fun o => (sec, fst o)) (filter (fun o => negb (code_reads sec (fst o))) opts))
           doc_defaults.

(* known differences must really be differences, so the list cannot go stale *)
Definition stale_known : list (string * string) :=
  filter (fun '(sec, opt) =>
            existsb (fun '(s, o, v) => String.eqb s sec && String.eqb o opt &&
                                       match v with Agrees => true | _ => false end) all_judgements)
         known_differences.
