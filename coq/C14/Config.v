(* C14: executable model of the configuration reader
     supervisor/options.py  ServerOptions.read_config, read_include_config,
                            process_groups_from_parser, _processes_from_section,
                            UnhosedConfigParser.saneget/expand_here, expand,
                            Config.__lt__
     supervisor/datatypes.py the converters
   Input: already tokenised sections (what RawConfigParser hands out); every
   value is a string.  Python exceptions are `Err kind` (all of them are
   ValueError in the code; any other exception type has no counterpart here
   and shows up as a disagreement in the correspondence run).
   File-system, passwd and environment facts are explicit oracle fields of
   `ctx`.  Defaults come from the generated table Gen_defaults (translator
   gen/c14_defaults.py), so a changed default changes the model too and is
   then judged against the documentation by c14_defaults_match_docs. *)
From Coq Require Import ZArith List Bool String Ascii.
Require Import SV.C14.Strs SV.C14.Gen_defaults.
Import ListNotations.
Open Scope string_scope.
Open Scope Z_scope.

(* ------------------------------------------------------------------ errors *)
Inductive err :=
| EName            (* process_or_group_name: forbidden character *)
| ENumprocs        (* numprocs > 1 without %(process_num) in process_name *)
| EStopKill        (* stopasgroup=true and killasgroup=false *)
| ENoCommand
| EUnknownEvent | ENoEvents | EBufferSize | ERedirectListener | EResultHandler
| EUnknownProgram | EAmbiguousProgram
| EInt | EBool | EAutorestart | ESignal | EByteSize | EExitcodes | EOctal | ELogLevel
| EExpandName      (* %(name)s with an unknown name *)
| EExpandFormat    (* badly formatted % expression *)
| EExpandBare      (* %s / %r without a (name): CPython formats the whole dict; see known finding *)
| EEnvSyntax | EQuote
| ENoSupervisord | EDirpath | EDirectory | EUser
| ESocket | ENoSocket | ESocketBacklog | ESocketMode | ESocketOwner
| EIncludeNoFiles
| EGenTable        (* the generated default table lacks an option the model reads *)
| ETypeError.      (* converter applied to None: a TypeError in the code *)

Inductive result (A : Type) := Ok (a : A) | Err (e : err).
Arguments Ok {A} a.
Arguments Err {A} e.

Definition bind {A B} (r : result A) (f : A -> result B) : result B :=
  match r with Ok a => f a | Err e => Err e end.
Notation "x <- e1 ;; e2" := (bind e1 (fun x => e2)) (at level 61, e1 at next level, right associativity).
Notation "' pat <- e1 ;; e2" := (bind e1 (fun x => match x with pat => e2 end))
  (at level 61, pat pattern, e1 at next level, right associativity).

Fixpoint mapM {A B} (f : A -> result B) (l : list A) : result (list B) :=
  match l with
  | [] => Ok []
  | x :: r => y <- f x ;; ys <- mapM f r ;; Ok (y :: ys)
  end.

(* ------------------------------------------------------- expansion values *)
Inductive val := VS (s : string) | VI (z : Z).
Definition exps := list (string * val).

Fixpoint lookup {A} (k : string) (d : list (string * A)) : option A :=
  match d with
  | [] => None
  | (k', v) :: r => if String.eqb k k' then Some v else lookup k r
  end.

(* dict.update as far as lookups can tell: later bindings shadow earlier ones *)
Definition upd {A} (d : list (string * A)) (new : list (string * A)) : list (string * A) := (rev new ++ d)%list.

(* ---- a concrete model of `s % dict` for the subset of format expressions
   the documentation talks about: %%  %(name)s  %(name)d  with flags 0 and -,
   width, .precision, ignored length modifiers h l L; conversions s d i u.
   Everything else is EExpandFormat, which is exact for malformed expressions
   and an under-approximation of CPython for exotic valid ones (%x, %r ...);
   the correspondence generator stays inside the subset. *)
Fixpoint read_key (s : string) (depth : nat) (acc : string) : option (string * string) :=
  match s with
  | EmptyString => None
  | String c r =>
    if Ascii.eqb c ")" then
      match depth with O => Some (srev acc, r) | S d => read_key r d (String c acc) end
    else if Ascii.eqb c "(" then read_key r (S depth) (String c acc)
    else read_key r depth (String c acc)
  end.

Fixpoint read_flags (s : string) (zero minus : bool) : bool * bool * string :=
  match s with
  | String c r =>
    if Ascii.eqb c "0" then read_flags r true minus
    else if Ascii.eqb c "-" then read_flags r zero true
    else if Ascii.eqb c " " || Ascii.eqb c "+" || Ascii.eqb c "#" then (zero, minus, "*"%string) (* unsupported: forces EExpandFormat *)
    else (zero, minus, s)
  | EmptyString => (zero, minus, s)
  end.

Fixpoint read_num (s : string) (acc : Z) : Z * string :=
  match s with
  | String c r => if is_digit c then read_num r (acc * 10 + (ascii_z c - 48)) else (acc, s)
  | EmptyString => (acc, s)
  end.

Definition pad (zero minus : bool) (width : Z) (numeric : bool) (body : string) : string :=
  let n := Z.to_nat (Z.min 4096 (width - slen body)) in
  if minus then body ++ repeat_c " " n
  else if zero && numeric then
    match body with
    | String "-" r => String "-" (repeat_c "0" n ++ r)
    | _ => repeat_c "0" n ++ body
    end
  else repeat_c " " n ++ body.

Fixpoint take (n : nat) (s : string) : string :=
  match n, s with S k, String c r => String c (take k r) | _, _ => EmptyString end.

(* one conversion, after the '%' *)
Definition format_one (rest : string) (d : exps) : result (string * string) :=
  match rest with
  | EmptyString => Err EExpandFormat
  | String "%" r => Ok ("%", r)
  | _ =>
    ' (key, rest) <-
       match rest with
       | String "(" r => match read_key r O EmptyString with
                         | Some (k, r') => match lookup k d with
                                           | Some v => Ok (Some v, r')
                                           | None => Err EExpandName
                                           end
                         | None => Err EExpandFormat
                         end
       | _ => Ok (None, rest)
       end ;;
    let '(zero, minus, rest) := read_flags rest false false in
    let '(width, rest) := read_num rest 0 in
    let '(prec, rest) :=
       match rest with
       | String "." r => let '(p, r') := read_num r 0 in (Some p, r')
       | _ => (None, rest)
       end in
    let rest := match rest with
                | String c r => if Ascii.eqb c "h" || Ascii.eqb c "l" || Ascii.eqb c "L" then r else rest
                | _ => rest end in
    match rest with
    | EmptyString => Err EExpandFormat
    | String c r =>
      match key with
      | None =>
        (* only an immediate "%%" is a literal percent sign; "%5%" is an error *)
        if Ascii.eqb c "s" || Ascii.eqb c "r" || Ascii.eqb c "a" then Err EExpandBare
        else Err EExpandFormat
      | Some v =>
        if Ascii.eqb c "s" then
          let body := match v with VS s => s | VI z => z_to_str z end in
          let body := match prec with Some p => take (Z.to_nat (Z.min 4096 p)) body | None => body end in
          Ok (pad zero minus width false body, r)
        else if Ascii.eqb c "d" || Ascii.eqb c "i" || Ascii.eqb c "u" then
          match v with
          | VS _ => Err EExpandFormat
          | VI z =>
            let digs := nat_digits (Z.abs z) in
            let digs := match prec with
                        | Some p => repeat_c "0" (Z.to_nat (Z.min 4096 (p - slen digs))) ++ digs
                        | None => digs end in
            let body := if z <? 0 then String "-" digs else digs in
            Ok (pad zero minus width true body, r)
          end
        else Err EExpandFormat
      end
    end
  end.

(* fuel = length of the string: every step consumes at least one character *)
Fixpoint py_expand_fuel (fuel : nat) (s : string) (d : exps) : result string :=
  match fuel with
  | O => match s with EmptyString => Ok EmptyString | _ => Err EExpandFormat end
  | S f =>
    match s with
    | EmptyString => Ok EmptyString
    | String c r =>
      if Ascii.eqb c "%" then
        ' (out, rest) <- format_one r d ;;
        tail <- py_expand_fuel f rest d ;;
        Ok (out ++ tail)
      else
        tail <- py_expand_fuel f r d ;; Ok (String c tail)
    end
  end.
Definition py_expand (s : string) (d : exps) : result string := py_expand_fuel (String.length s) s d.

(* --------------------------------------------------------------- converters *)
Inductive gval := GNone | GStr (s : string) | GInt (z : Z) | GBool (b : bool) | GAuto.

Definition conv_integer (v : gval) : result Z :=
  match v with
  | GInt z => Ok z
  | GBool b => Ok (if b then 1 else 0)
  | GStr s => match parse_int s with Some z => Ok z | None => Err EInt end
  | _ => Err ETypeError
  end.

Definition py_str (v : gval) : string :=
  match v with GStr s => s | GInt z => z_to_str z | GBool true => "True" | GBool false => "False"
             | GNone => "None" | GAuto => "<Automatic>" end.

Definition conv_boolean (v : gval) : result bool :=
  let ss := lower (py_str v) in
  if in_strs ss truthy_strings then Ok true
  else if in_strs ss falsy_strings then Ok false
  else Err EBool.

Inductive autorestart := ARUnexpected | ARAlways | ARNever.
Definition conv_autorestart (v : gval) : result autorestart :=
  match v with
  | GStr s =>
    let s := lower s in
    if in_strs s truthy_strings then Ok ARAlways
    else if in_strs s falsy_strings then Ok ARNever
    else if String.eqb s "unexpected" then Ok ARUnexpected
    else Err EAutorestart
  | _ => Err ETypeError
  end.

(* datatypes.signal_number: a number must be in SIGNUMS (generated:
   signal_numbers, by the filter the source applies to dir(signal)); a name
   is resolved with getattr(signal, 'SIG' + name), rejected when it carries
   the guarded prefix (generated: signal_name_guard, "SIG_" - SIG_DFL, SIG_IGN,
   SIG_BLOCK ... are not signals), and its number must be in SIGNUMS too *)
Definition conv_signal (v : gval) : result Z :=
  match v with
  | GStr s =>
    match parse_int s with
    | Some n => if existsb (Z.eqb n) signal_numbers then Ok n else Err ESignal
    | None =>
      let name := upper (strip s) in
      let name := if prefix "SIG" name then name else "SIG" ++ name in
      match lookup name signal_names with
      | Some n =>
        if match signal_name_guard with Some g => prefix g name | None => false end then Err ESignal
        else if existsb (Z.eqb n) signal_numbers then Ok n else Err ESignal
      | None => Err ESignal
      end
    end
  | _ => Err ETypeError
  end.

Fixpoint suffix_match (v : string) (tbl : list (string * Z)) : option (string * Z) :=
  match tbl with
  | [] => None
  | (s, m) :: r =>
    let n := String.length v in
    if String.eqb (drop (n - 2) v) s then Some (take (n - 2) v, m) else suffix_match v r
  end.

Definition conv_byte_size (v : gval) : result Z :=
  match v with
  | GStr s =>
    let s := lower s in
    match suffix_match s byte_size_suffixes with
    | Some (num, m) => match parse_int num with Some z => Ok (z * m) | None => Err EByteSize end
    | None => match parse_int s with Some z => Ok z | None => Err EByteSize end
    end
  | _ => Err ETypeError
  end.

Definition conv_list_of_strings (v : gval) : list string :=
  match v with
  | GStr EmptyString => []
  | GStr s => map strip (split_on "," s)
  | _ => []
  end.

Fixpoint all_some {A} (l : list (option A)) : option (list A) :=
  match l with
  | [] => Some []
  | Some x :: r => match all_some r with Some xs => Some (x :: xs) | None => None end
  | None :: _ => None
  end.

Definition conv_exitcodes (v : gval) : result (list Z) :=
  match v with
  | GStr EmptyString => Ok []
  | GStr s =>
    match all_some (map parse_int (split_on "," s)) with
    | Some zs => if forallb (fun z => (0 <=? z) && (z <=? 255)) zs then Ok zs else Err EExitcodes
    | None => Err EExitcodes
    end
  | _ => Err EExitcodes
  end.

Definition conv_octal (v : gval) : result Z :=
  match v with
  | GStr s => match parse_int_base 8 s with Some z => Ok z | None => Err EOctal end
  | _ => Err EOctal
  end.

Definition conv_loglevel (v : gval) : result Z :=
  match lookup (lower (py_str v)) log_levels with
  | Some n => Ok n
  | None => Err ELogLevel
  end.

(* process_or_group_name *)
Fixpoint first_forbidden (chars s : string) : bool :=
  match chars with
  | EmptyString => false
  | String c r => mem_char c s || first_forbidden r s
  end.
Definition conv_name (v : gval) : result string :=
  let s := strip (py_str v) in
  if first_forbidden name_forbidden_chars s then Err EName else Ok s.

(* ----------------------------------------------------------------- oracles *)
Record ctx := {
  c_here : string;
  c_host : string;                       (* platform.node() *)
  c_environ : list (string * string);    (* ENV_x expansions taken from os.environ *)
  c_dirs : list string;                  (* paths for which os.path.isdir holds *)
  c_users : list (string * Z);           (* passwd: name -> uid *)
  c_groups : list (string * Z);          (* group: name -> gid *)
  c_uid : Z;                             (* os.getuid() *)
  c_pwgid : list (Z * Z);                (* passwd: uid -> primary gid *)
  c_tempdir : string                     (* tempfile.gettempdir() *)
}.

Definition existing_dirpath (c : ctx) (v : string) : result string :=
  let d := dirname v in
  match d with
  | EmptyString => Ok v
  | _ => if in_strs d (c_dirs c) then Ok v else Err EDirpath
  end.

Definition existing_directory (c : ctx) (v : string) : result string :=
  if in_strs v (c_dirs c) then Ok v else Err EDirectory.

Definition name_to_uid (c : ctx) (name : string) : result Z :=
  match parse_int name with
  | Some uid => if existsb (fun '(_, u) => Z.eqb u uid) (c_users c) then Ok uid else Err EUser
  | None => match lookup name (c_users c) with Some u => Ok u | None => Err EUser end
  end.

Definition name_to_gid (c : ctx) (name : string) : result Z :=
  match parse_int name with
  | Some gid => if existsb (fun '(_, g) => Z.eqb g gid) (c_groups c) then Ok gid else Err EUser
  | None => match lookup name (c_groups c) with Some g => Ok g | None => Err EUser end
  end.

Inductive logfile := LNone | LAuto | LSyslog | LPath (s : string).

Definition conv_logfile_name (c : ctx) (v : gval) : result logfile :=
  match v with
  | GNone => Ok LNone
  | GAuto => Ok LAuto
  | GStr s =>
    let l := lower s in
    if in_strs l logfile_nones then Ok LNone
    else if in_strs l logfile_autos then Ok LAuto
    else if in_strs l logfile_syslogs then Ok LSyslog
    else p <- existing_dirpath c s ;; Ok (LPath p)
  | _ => Err ETypeError
  end.

(* ------------------------------------------------- shlex (non-POSIX mode) *)
Definition is_wordchar (c : ascii) : bool :=
  is_upper c || is_lower c || is_digit c || mem_char c "_/.+-():".
Definition is_shws (c : ascii) : bool := mem_char c (String " " (String "009" (String "013" (String "010" EmptyString)))).
Definition is_quote (c : ascii) : bool := Ascii.eqb c "'" || Ascii.eqb c """".

Inductive shstate := ShSpace | ShWord | ShQuote (q : ascii) | ShComment (back : bool).

(* tokens are accumulated reversed; returns None for "No closing quotation" *)
Fixpoint shlex_go (s : string) (st : shstate) (tok : string) (out : list string) : option (list string) :=
  let emit := match tok with EmptyString => out | _ => srev tok :: out end in
  match s with
  | EmptyString =>
    match st with
    | ShQuote _ => None
    | _ => Some (rev emit)
    end
  | String c r =>
    match st with
    | ShComment back =>
      if Ascii.eqb c "010" then shlex_go r (if back then ShWord else ShSpace) tok out
      else shlex_go r st tok out
    | ShSpace =>
      if is_shws c then shlex_go r ShSpace EmptyString out
      else if Ascii.eqb c "#" then shlex_go r (ShComment false) EmptyString out
      else if is_wordchar c then shlex_go r ShWord (String c EmptyString) out
      else if is_quote c then shlex_go r (ShQuote c) (String c EmptyString) out
      else shlex_go r ShSpace EmptyString (String c EmptyString :: out)
    | ShQuote q =>
      if Ascii.eqb c q then shlex_go r ShSpace EmptyString (srev (String c tok) :: out)
      else shlex_go r st (String c tok) out
    | ShWord =>
      if is_shws c then shlex_go r ShSpace EmptyString emit
      else if Ascii.eqb c "#" then shlex_go r (ShComment true) tok out
      else if is_wordchar c || is_quote c then shlex_go r ShWord (String c tok) out
      else shlex_go r ShSpace EmptyString (String c EmptyString :: emit)
    end
  end.
Definition shlex (s : string) : option (list string) := shlex_go s ShSpace EmptyString [].

(* Python dict with insertion order: D[k] = v *)
Fixpoint dict_set (d : list (string * string)) (k v : string) : list (string * string) :=
  match d with
  | [] => [(k, v)]
  | (k', v') :: r => if String.eqb k k' then (k, v) :: r else (k', v') :: dict_set r k v
  end.
Definition dict_update (a b : list (string * string)) : list (string * string) :=
  fold_left (fun d kv => dict_set d (fst kv) (snd kv)) b a.

Fixpoint kv_pairs (fuel : nat) (toks : list string) (d : list (string * string)) : result (list (string * string)) :=
  match fuel with
  | O => Ok d
  | S f =>
    match toks with
    | [] => Ok d
    | k :: eq :: v :: rest =>
      if String.eqb eq "=" then
        (* the token after a pair must be a comma (a trailing comma is fine) *)
        match rest with
        | [] => Ok (dict_set d k (strip_chars is_quote v))
        | sep :: r => if String.eqb sep "," then kv_pairs f r (dict_set d k (strip_chars is_quote v))
                      else Err EEnvSyntax
        end
      else Err EEnvSyntax
    | _ => Err EEnvSyntax
    end
  end.

Definition dict_of_key_value_pairs (s : string) : result (list (string * string)) :=
  match shlex s with
  | None => Err EQuote
  | Some toks => kv_pairs (S (List.length toks)) toks []
  end.

(* ------------------------------------------------------ tokenised sections *)
Definition options := list (string * string).
Definition sections := list (string * options).

Definition has_section (secs : sections) (name : string) : bool :=
  existsb (fun s => String.eqb (fst s) name) secs.

(* RawConfigParser.read of one more file, strict=False: known sections are
   updated in place, new ones appended *)
Definition merge_options (old new : options) : options := dict_update old new.
Fixpoint merge_section (secs : sections) (name : string) (opts : options) : sections :=
  match secs with
  | [] => [(name, merge_options [] opts)]
  | (n, o) :: r => if String.eqb n name then (n, merge_options o opts) :: r
                   else (n, o) :: merge_section r name opts
  end.
Definition merge_file (secs new : sections) : sections :=
  fold_left (fun acc s => merge_section acc (fst s) (snd s)) new secs.

Definition expand_here (secs : sections) (here : string) : sections :=
  map (fun '(n, o) => (n, map (fun '(k, v) => (k, replace_all "%(here)s" here v)) o)) secs.

(* section.split(':', 1)[1] *)
Definition after_colon (s : string) : string :=
  match split1 ":" s with Some (_, r) => r | None => EmptyString end.

(* ------------------------------------------------------------ config data *)
Record logcfg := {
  l_file : logfile; l_capture : Z; l_events : bool; l_syslog : bool; l_backups : Z; l_maxbytes : Z }.

Inductive pclass := PCProcess | PCListener | PCFcgi.

Record proc := {
  p_class : pclass; p_name : string; p_uid : option Z; p_command : string;
  p_directory : option string; p_umask : option Z; p_priority : Z;
  p_autostart : bool; p_autorestart : autorestart; p_startsecs : Z; p_startretries : Z;
  p_stdout : logcfg; p_stderr : logcfg;
  p_stopsignal : Z; p_stopwaitsecs : Z; p_stopasgroup : bool; p_killasgroup : bool;
  p_exitcodes : list Z; p_redirect_stderr : bool;
  p_environment : list (string * string); p_serverurl : option string }.

Inductive gkind :=
| GHet | GHom
| GPool (buffer_size : Z) (events : list string) (handler : string)
| GFcgi (url : string) (backlog : option Z) (mode : option Z) (owner : option (Z * Z)).

Record group := {
  g_section : string;   (* the section this group was made from (ghost: not in the code's object) *)
  g_name : string; g_priority : Z; g_kind : gkind; g_procs : list proc }.

(* Config.__lt__: by priority, then by name *)
Definition key_lt (a b : Z * string) : bool :=
  if fst a =? fst b then String.ltb (snd a) (snd b) else fst a <? fst b.
Definition key_le (a b : Z * string) : bool := negb (key_lt b a).

(* list.sort() is stable; insertion of x in front of the first element that
   is not smaller than x, folded from the right, is the stable sort *)
Fixpoint insert_by {A} (key : A -> Z * string) (x : A) (l : list A) : list A :=
  match l with
  | [] => [x]
  | y :: r => if key_lt (key y) (key x) then y :: insert_by key x r else x :: y :: r
  end.
Definition sort_by {A} (key : A -> Z * string) (l : list A) : list A := fold_right (insert_by key) [] l.

Definition proc_key (p : proc) := (p_priority p, p_name p).
Definition group_key (g : group) := (g_priority g, g_name g).

(* parse_fcgi_socket: `if socket_mode is None: socket_mode = 0o700` *)
Definition fcgi_default_mode : Z := 448.

(* ============================================================ the reader *)
Section Reader.
  (* `s % expansions` with its two failure kinds, see py_expand for the
     concrete instance; the structural theorems hold for any expander *)
  Variable expand : string -> exps -> result string.

  Variable c : ctx.

  Definition resolve_dflt (d : dflt) (names : list (string * gval)) : result gval :=
    match d with
    | DNone => Ok GNone
    | DRequired => Err EGenTable
    | DStr s => Ok (GStr s)
    | DInt z => Ok (GInt z)
    | DBool b => Ok (GBool b)
    | DName n => match lookup n names with Some v => Ok v | None => Err EGenTable end
    end.

  (* UnhosedConfigParser.saneget: the value, or the default of the generated
     table; strings are expanded against parser.expansions + expansions unless
     the table says do_expand=False *)
  Definition saneget (tbl : opt_table) (names : list (string * gval))
             (opts : options) (opt : string) (penv : exps) (ex : exps) : result gval :=
    match lookup opt tbl with
    | None => Err EGenTable
    | Some (_, d, noexp) =>
      v <- match lookup opt opts with
           | Some s => Ok (GStr s)
           | None => resolve_dflt d names
           end ;;
      match v with
      | GStr s => if noexp then Ok v else s' <- expand s (ex ++ penv)%list ;; Ok (GStr s')
      | _ => Ok v
      end
    end.

  Definition gstr_opt (v : gval) : option string :=
    match v with GStr s => Some s | _ => None end.

  Definition env_exps (env : list (string * string)) : exps :=
    map (fun '(k, v) => ("ENV_" ++ k, VS v)) env.

  (* ---- the logfile block for one of stdout / stderr *)
  Definition logfile_block (opts : options) (penv ex loopex : exps) (k : string)
    : result (logfile * Z * Z * bool) :=
    let get := fun opt => saneget code_program [("Automatic", GAuto)] opts opt penv ex in
    lf <- get (k ++ "_logfile") ;;
    lf <- match lf with
          | GStr s => s' <- expand s loopex ;; Ok (GStr s')
          | _ => Ok lf
          end ;;
    lf <- conv_logfile_name c lf ;;
    bu <- get (k ++ "_logfile_backups") ;; bu <- conv_integer bu ;;
    mb <- get (k ++ "_logfile_maxbytes") ;; mb <- conv_byte_size mb ;;
    sy <- get (k ++ "_syslog") ;; sy <- conv_boolean sy ;;
    Ok (lf, bu, mb, sy).

  Record common := {
    k_class : pclass; k_priority : Z; k_autostart : bool; k_autorestart : autorestart;
    k_startsecs : Z; k_startretries : Z; k_stopsignal : Z; k_stopwaitsecs : Z;
    k_stopasgroup : bool; k_killasgroup : bool; k_exitcodes : list Z; k_redirect : bool;
    k_numprocs : Z; k_envstr : string; k_ocap : Z; k_oev : bool; k_ecap : Z; k_eev : bool;
    k_serverurl : option string; k_uid : option Z; k_umask : option Z; k_pname : string }.

  (* rewrite of the deprecated "syslog" magic file name; redirect_stderr
     never keeps an stderr log file *)
  Definition rewrite_syslog (l : logfile * Z * Z * bool) : logfile * Z * Z * bool :=
    match l with
    | (LSyslog, bu, mb, _) => (LNone, bu, mb, true)
    | _ => l
    end.

  Definition mk_logcfg (l : logfile * Z * Z * bool) (cap : Z) (ev : bool) : logcfg :=
    let '(lf, bu, mb, sy) := l in
    {| l_file := lf; l_capture := cap; l_events := ev; l_syslog := sy; l_backups := bu; l_maxbytes := mb |}.

  Definition no_stderr_file (redirect : bool) (l : logfile * Z * Z * bool) : logfile * Z * Z * bool :=
    let '(lf, bu, mb, sy) := l in ((if redirect then LNone else lf), bu, mb, sy).

  Definition mk_proc (k : common) (name command : string) (directory : gval)
             (environment : list (string * string)) (o e : logfile * Z * Z * bool) : proc :=
    {| p_class := k_class k; p_name := name; p_uid := k_uid k; p_command := command;
       p_directory := gstr_opt directory; p_umask := k_umask k; p_priority := k_priority k;
       p_autostart := k_autostart k; p_autorestart := k_autorestart k;
       p_startsecs := k_startsecs k; p_startretries := k_startretries k;
       p_stdout := mk_logcfg (rewrite_syslog o) (k_ocap k) (k_oev k);
       p_stderr := mk_logcfg (no_stderr_file (k_redirect k) (rewrite_syslog e)) (k_ecap k) (k_eev k);
       p_stopsignal := k_stopsignal k; p_stopwaitsecs := k_stopwaitsecs k;
       p_stopasgroup := k_stopasgroup k; p_killasgroup := k_killasgroup k;
       p_exitcodes := k_exitcodes k; p_redirect_stderr := k_redirect k;
       p_environment := environment; p_serverurl := k_serverurl k |}.

  (* the expansions in force at the end of the iteration for process_num = n *)
  Definition step_exps (k : common) (penv ex : exps) (n : Z) (environment : list (string * string)) : exps :=
    upd (upd (upd ex [("process_num", VI n); ("numprocs", VI (k_numprocs k))]) penv) (env_exps environment).

  (* one iteration of `for process_num in range(...)`; the expansions
     dictionary is one object mutated across iterations, hence threaded *)
  Definition loop_step (opts : options) (sect : string) (penv : exps) (k : common)
             (ex : exps) (process_num : Z) : result (proc * exps) :=
    envs <- expand (k_envstr k)
                   (upd (upd ex [("process_num", VI process_num); ("numprocs", VI (k_numprocs k))]) penv) ;;
    environment <- dict_of_key_value_pairs envs ;;
    directory <- saneget code_program [("Automatic", GAuto)] opts "directory" penv
                         (step_exps k penv ex process_num environment) ;;
    o <- logfile_block opts penv (step_exps k penv ex process_num environment)
                       (step_exps k penv ex process_num environment) "stdout" ;;
    e <- logfile_block opts penv (step_exps k penv ex process_num environment)
                       (step_exps k penv ex process_num environment) "stderr" ;;
    command <- saneget code_program [("Automatic", GAuto)] opts "command" penv
                       (step_exps k penv ex process_num environment) ;;
    match command with
    | GStr command =>
      name <- expand (k_pname k) (step_exps k penv ex process_num environment) ;;
      Ok (mk_proc k name command directory environment o e, step_exps k penv ex process_num environment)
    | _ => Err ENoCommand
    end.

  Fixpoint loop (opts : options) (sect : string) (penv : exps) (k : common)
           (ex : exps) (nums : list Z) : result (list proc) :=
    match nums with
    | [] => Ok []
    | n :: r =>
      ' (p, ex') <- loop_step opts sect penv k ex n ;;
      ps <- loop opts sect penv k ex' r ;;
      Ok (p :: ps)
    end.

  (* range(start, start + n) *)
  Definition zrange (start n : Z) : list Z :=
    map (fun i => start + Z.of_nat i) (seq 0 (Z.to_nat n)).

  (* everything of _processes_from_section before the loop *)
  Definition section_common (sect : string) (opts : options) (group_name : string)
             (klass : pclass) (penv : exps) : result (common * Z * exps) :=
    program_name <- conv_name (GStr (after_colon sect)) ;;
    let ex0 : exps := [("here", VS (c_here c)); ("program_name", VS program_name);
                       ("host_node_name", VS (c_host c)); ("group_name", VS group_name)] in
    let getn := fun names opt => saneget code_program names opts opt penv ex0 in
    let get := getn [("Automatic", GAuto)] in
    priority <- get "priority" ;; priority <- conv_integer priority ;;
    autostart <- get "autostart" ;; autostart <- conv_boolean autostart ;;
    autorestart <- get "autorestart" ;; autorestart <- conv_autorestart autorestart ;;
    startsecs <- get "startsecs" ;; startsecs <- conv_integer startsecs ;;
    startretries <- get "startretries" ;; startretries <- conv_integer startretries ;;
    stopsignal <- get "stopsignal" ;; stopsignal <- conv_signal stopsignal ;;
    stopwaitsecs <- get "stopwaitsecs" ;; stopwaitsecs <- conv_integer stopwaitsecs ;;
    stopasgroup <- get "stopasgroup" ;; stopasgroup <- conv_boolean stopasgroup ;;
    killasgroup <- getn [("stopasgroup", GBool stopasgroup)] "killasgroup" ;;
    killasgroup <- conv_boolean killasgroup ;;
    exitcodes <- get "exitcodes" ;; exitcodes <- conv_exitcodes exitcodes ;;
    redirect <- get "redirect_stderr" ;; redirect <- conv_boolean redirect ;;
    numprocs <- get "numprocs" ;; numprocs <- conv_integer numprocs ;;
    numprocs_start <- get "numprocs_start" ;; numprocs_start <- conv_integer numprocs_start ;;
    envstr <- get "environment" ;;
    ocap <- get "stdout_capture_maxbytes" ;; ocap <- conv_byte_size ocap ;;
    oev <- get "stdout_events_enabled" ;; oev <- conv_boolean oev ;;
    ecap <- get "stderr_capture_maxbytes" ;; ecap <- conv_byte_size ecap ;;
    eev <- get "stderr_events_enabled" ;; eev <- conv_boolean eev ;;
    serverurl <- get "serverurl" ;;
    let serverurl := match serverurl with
                     | GStr s => if (negb (String.eqb s "")) && String.eqb (upper (strip s)) "AUTO"
                                 then None else Some s
                     | _ => None end in
    user <- get "user" ;;
    uid <- match user with
           | GStr u => x <- name_to_uid c u ;; Ok (Some x)
           | _ => Ok None end ;;
    umask <- get "umask" ;;
    umask <- match umask with
             | GNone => Ok None
             | v => x <- conv_octal v ;; Ok (Some x) end ;;
    pname <- get "process_name" ;; pname <- conv_name pname ;;
    if (numprocs >? 1) && negb (contains "%(process_num)" pname) then Err ENumprocs
    else if stopasgroup && negb killasgroup then Err EStopKill
    else
      Ok ({| k_class := klass; k_priority := priority; k_autostart := autostart;
             k_autorestart := autorestart; k_startsecs := startsecs; k_startretries := startretries;
             k_stopsignal := stopsignal; k_stopwaitsecs := stopwaitsecs;
             k_stopasgroup := stopasgroup; k_killasgroup := killasgroup; k_exitcodes := exitcodes;
             k_redirect := redirect; k_numprocs := numprocs; k_envstr := py_str envstr;
             k_ocap := ocap; k_oev := oev; k_ecap := ecap; k_eev := eev;
             k_serverurl := serverurl; k_uid := uid; k_umask := umask; k_pname := pname |},
          numprocs_start, ex0).

  (* the processes in loop order, before programs.sort() *)
  Definition processes_unsorted (sect : string) (opts : options) (group_name : string)
             (klass : pclass) (penv : exps) : result (list proc) :=
    ' (k, start, ex0) <- section_common sect opts group_name klass penv ;;
    loop opts sect penv k ex0 (zrange start (k_numprocs k)).

  Definition processes_from_section (sect : string) (opts : options) (group_name : string)
             (klass : pclass) (penv : exps) : result (list proc) :=
    ps <- processes_unsorted sect opts group_name klass penv ;;
    Ok (sort_by proc_key ps).

  (* ---------------------------------------------- process_groups_from_parser *)
  Definition here_ex : exps := [("here", VS (c_here c))].
  Definition gget (tbl : opt_table) (opts : options) (opt : string) (penv : exps) (ex : exps) :=
    saneget tbl [] opts opt penv (ex ++ here_ex)%list.

  Definition section_names (secs : sections) : list string := map fst secs.
  Definition find_section (secs : sections) (name : string) : options :=
    match lookup name secs with Some o => o | None => [] end.

  (* one program named in a [group:x] programs= line *)
  Definition group_member (secs : sections) (penv : exps) (group_name : string) (program : string)
    : result (string * list proc) :=
    let ps := "program:" ++ program in
    let fs := "fcgi-program:" ++ program in
    let hasp := in_strs ps (section_names secs) in
    let hasf := in_strs fs (section_names secs) in
    if negb hasp && negb hasf then Err EUnknownProgram
    else if hasp && hasf then Err EAmbiguousProgram
    else
      let sect := if hasp then ps else fs in
      procs <- processes_from_section sect (find_section secs sect) group_name PCProcess penv ;;
      Ok (sect, procs).

  Definition het_group (secs : sections) (penv : exps) (s : string * options)
    : result (group * list string) :=
    let '(sect, opts) := s in
    group_name <- conv_name (GStr (after_colon sect)) ;;
    programs <- gget code_group opts "programs" penv [] ;;
    let programs := conv_list_of_strings programs in
    priority <- gget code_group opts "priority" penv [] ;; priority <- conv_integer priority ;;
    members <- mapM (group_member secs penv group_name) programs ;;
    Ok ({| g_section := sect; g_name := group_name; g_priority := priority; g_kind := GHet;
           g_procs := flat_map snd members |}, map fst members).

  Definition hom_group (penv : exps) (s : string * options) : result group :=
    let '(sect, opts) := s in
    program_name <- conv_name (GStr (after_colon sect)) ;;
    priority <- gget code_programgroup opts "priority" penv [] ;; priority <- conv_integer priority ;;
    procs <- processes_from_section sect opts program_name PCProcess penv ;;
    Ok {| g_section := sect; g_name := program_name; g_priority := priority; g_kind := GHom;
          g_procs := procs |}.

  (* set(names): duplicates dropped (the iteration order of a Python set is
     not specified; the model keeps first occurrences, comparisons are on sets) *)
  Fixpoint dedup (l : list string) : list string :=
    match l with
    | [] => []
    | x :: r => if in_strs x r then dedup r else x :: dedup r
    end.

  Definition listener_pool (penv : exps) (handler_ok : string -> bool) (s : string * options) : result group :=
    let '(sect, opts) := s in
    let pool_name := after_colon sect in
    priority <- gget code_eventlistener opts "priority" penv [] ;; priority <- conv_integer priority ;;
    buffer_size <- gget code_eventlistener opts "buffer_size" penv [] ;; buffer_size <- conv_integer buffer_size ;;
    if buffer_size <? 1 then Err EBufferSize else
    handler <- gget code_eventlistener opts "result_handler" penv [] ;;
    if negb (handler_ok (py_str handler)) then Err EResultHandler else
    events <- gget code_eventlistener opts "events" penv [] ;;
    let names := dedup (map upper (conv_list_of_strings events)) in
    match names with
    | [] => Err ENoEvents
    | _ =>
      if negb (forallb (fun n => in_strs n event_type_names) names) then Err EUnknownEvent else
      redirect <- gget code_eventlistener opts "redirect_stderr" penv [] ;; redirect <- conv_boolean redirect ;;
      if redirect then Err ERedirectListener else
      procs <- processes_from_section sect opts pool_name PCListener penv ;;
      Ok {| g_section := sect; g_name := pool_name; g_priority := priority;
            g_kind := GPool buffer_size names (py_str handler); g_procs := procs |}
    end.

  (* tcp://host:port, host without whitespace and colon, port all digits *)
  Definition tcp_socket (s : string) : option (string * Z) :=
    if prefix "tcp://" s then
      let r := drop 6 s in
      match split1 ":" r with
      | Some (host, port) =>
        if negb (String.eqb host "") && negb (existsb (fun ch => mem_char ch host) [" "%char; "009"%char; "010"%char; "013"%char; "011"%char; "012"%char])
           && negb (String.eqb port "") && negb (mem_char ":" port)
        then match digits_val 10 port 0 false with
             | Some p => if contains "_" port then None else Some (host, p)
             | None => None end
        else None
      | None => None
      end
    else None.

  Definition parse_fcgi_socket (sock : string) (proc_uid : option Z) (owner : option (Z * Z))
             (mode : option Z) (backlog : option Z) : result gkind :=
    if prefix "unix://" sock then
      let path := drop 7 sock in
      if negb (prefix "/" path) then Err ESocket
      else
        let owner :=
          match owner, proc_uid with
          | None, Some u =>
            if Z.eqb u (c_uid c) then None
            else match find (fun ug => Z.eqb (fst ug) u) (c_pwgid c) with
                 | Some ug => Some (u, snd ug) | None => None end
          | _, _ => owner
          end in
        let mode := match mode with None => Some fcgi_default_mode | m => m end in
        Ok (GFcgi ("unix://" ++ path) backlog mode owner)
    else
      match owner, mode with
      | None, None =>
        match tcp_socket sock with
        | Some (host, port) =>
          if (1 <=? port) && (port <=? 65535)
          then Ok (GFcgi ("tcp://" ++ lower host ++ ":" ++ z_to_str port) backlog None None)
          else Err ESocket
        | None => Err ESocket
        end
      | _, _ => Err ESocket
      end.

  Definition fcgi_group (penv : exps) (s : string * options) : result group :=
    let '(sect, opts) := s in
    program_name <- conv_name (GStr (after_colon sect)) ;;
    priority <- gget code_fcgi_program opts "priority" penv [] ;; priority <- conv_integer priority ;;
    user <- gget code_fcgi_program opts "user" penv [] ;;
    proc_uid <- match user with GStr u => x <- name_to_uid c u ;; Ok (Some x) | _ => Ok None end ;;
    backlog <- gget code_fcgi_program opts "socket_backlog" penv [] ;;
    backlog <- match backlog with
               | GNone => Ok None
               | v => b <- conv_integer v ;;
                      if (b <? 1) || (b >? 65535) then Err ESocketBacklog else Ok (Some b)
               end ;;
    owner <- gget code_fcgi_program opts "socket_owner" penv [] ;;
    owner <- match owner with
             | GStr o =>
               match split1 ":" o with
               | None => match name_to_uid c o with Ok u => Ok (Some (u, -1)) | Err _ => Err ESocketOwner end
               | Some (u, g) =>
                 match name_to_uid c u, name_to_gid c g with
                 | Ok u, Ok g => Ok (Some (u, g))
                 | _, _ => Err ESocketOwner
                 end
               end
             | _ => Ok None
             end ;;
    mode <- gget code_fcgi_program opts "socket_mode" penv [] ;;
    mode <- match mode with
            | GNone => Ok None
            | v => match conv_octal v with Ok m => Ok (Some m) | Err _ => Err ESocketMode end
            end ;;
    sock <- gget code_fcgi_program opts "socket" penv [("program_name", VS program_name)] ;;
    match sock with
    | GStr (String ch rest) =>
      kind <- parse_fcgi_socket (String ch rest) proc_uid owner mode backlog ;;
      procs <- processes_from_section sect opts program_name PCFcgi penv ;;
      Ok {| g_section := sect; g_name := program_name; g_priority := priority; g_kind := kind;
            g_procs := procs |}
    | _ => Err ENoSocket
    end.

  Definition groups_unsorted (secs : sections) (penv : exps) (handler_ok : string -> bool)
    : result (list group) :=
    het <- mapM (het_group secs penv) (filter (fun s => prefix "group:" (fst s)) secs) ;;
    let excluded := flat_map snd het in
    hom <- mapM (hom_group penv)
                (filter (fun s => prefix "program:" (fst s) && negb (in_strs (fst s) excluded)) secs) ;;
    pools <- mapM (listener_pool penv handler_ok) (filter (fun s => prefix "eventlistener:" (fst s)) secs) ;;
    fcgi <- mapM (fcgi_group penv)
                 (filter (fun s => prefix "fcgi-program:" (fst s) && negb (in_strs (fst s) excluded)) secs) ;;
    Ok (map fst het ++ hom ++ pools ++ fcgi)%list.

  Definition process_groups (secs : sections) (penv : exps) (handler_ok : string -> bool)
    : result (list group) :=
    gs <- groups_unsorted secs penv handler_ok ;;
    Ok (sort_by group_key gs).

  (* ------------------------------------------------------------- read_config *)
  Record supcfg := {
    s_minfds : Z; s_minprocs : Z; s_directory : option string; s_user : option string;
    s_umask : Z; s_logfile : string; s_logfile_maxbytes : Z; s_logfile_backups : Z;
    s_loglevel : Z; s_pidfile : string; s_identifier : string; s_nodaemon : bool;
    s_silent : bool; s_childlogdir : string; s_nocleanup : bool; s_strip_ansi : bool;
    s_environment : list (string * string) }.

  Record config := { cf_sup : supcfg; cf_groups : list group }.

  Definition with_env (env : list (string * string)) (g : group) : group :=
    {| g_section := g_section g; g_name := g_name g; g_priority := g_priority g; g_kind := g_kind g;
       g_procs := map (fun p =>
         {| p_class := p_class p; p_name := p_name p; p_uid := p_uid p; p_command := p_command p;
            p_directory := p_directory p; p_umask := p_umask p; p_priority := p_priority p;
            p_autostart := p_autostart p; p_autorestart := p_autorestart p;
            p_startsecs := p_startsecs p; p_startretries := p_startretries p;
            p_stdout := p_stdout p; p_stderr := p_stderr p;
            p_stopsignal := p_stopsignal p; p_stopwaitsecs := p_stopwaitsecs p;
            p_stopasgroup := p_stopasgroup p; p_killasgroup := p_killasgroup p;
            p_exitcodes := p_exitcodes p; p_redirect_stderr := p_redirect_stderr p;
            p_environment := dict_update env (p_environment p);
            p_serverurl := p_serverurl p |}) (g_procs g) |}.

  Definition env_exps_raw (e : list (string * string)) : exps := map (fun '(k, v) => (k, VS v)) e.

  (* read_include_config: `incs` are the files matched by the include patterns,
     in the order they are read (the glob itself is a file-system oracle) *)
  Definition read_includes (main : sections) (incs : list (string * sections)) : result sections :=
    if has_section main "include" then
      let secs := expand_here main (c_here c) in
      match lookup "files" (find_section secs "include") with
      | None => Err EIncludeNoFiles
      | Some files =>
        _ <- expand files ([("here", VS (c_here c)); ("host_node_name", VS (c_host c))]
                           ++ env_exps_raw (c_environ c))%list ;;
        Ok (fold_left (fun acc inc => expand_here (merge_file acc (snd inc)) (fst inc)) incs secs)
      end
    else Ok main.

  Definition sup_environment (opts : options) (penv : exps) : result (list (string * string)) :=
    envs <- saneget code_supervisord [] opts "environment" penv here_ex ;;
    envs <- expand (py_str envs)
                   ([("here", VS (c_here c)); ("host_node_name", VS (c_host c))] ++ penv)%list ;;
    dict_of_key_value_pairs envs.

  Definition read_supervisord (opts : options) (penv : exps) : result supcfg :=
    let get := fun opt => saneget code_supervisord [("tempdir", GStr (c_tempdir c))] opts opt penv here_ex in
    minfds <- get "minfds" ;; minfds <- conv_integer minfds ;;
    minprocs <- get "minprocs" ;; minprocs <- conv_integer minprocs ;;
    directory <- get "directory" ;;
    directory <- match directory with
                 | GStr d => x <- existing_directory c d ;; Ok (Some x)
                 | _ => Ok None end ;;
    user <- get "user" ;;
    umask <- get "umask" ;; umask <- conv_octal umask ;;
    logfile <- get "logfile" ;; logfile <- existing_dirpath c (py_str logfile) ;;
    lmb <- get "logfile_maxbytes" ;; lmb <- conv_byte_size lmb ;;
    lbu <- get "logfile_backups" ;; lbu <- conv_integer lbu ;;
    loglevel <- get "loglevel" ;; loglevel <- conv_loglevel loglevel ;;
    pidfile <- get "pidfile" ;; pidfile <- existing_dirpath c (py_str pidfile) ;;
    identifier <- get "identifier" ;;
    nodaemon <- get "nodaemon" ;; nodaemon <- conv_boolean nodaemon ;;
    silent <- get "silent" ;; silent <- conv_boolean silent ;;
    childlogdir <- get "childlogdir" ;; childlogdir <- existing_directory c (py_str childlogdir) ;;
    nocleanup <- get "nocleanup" ;; nocleanup <- conv_boolean nocleanup ;;
    strip_ansi <- get "strip_ansi" ;; strip_ansi <- conv_boolean strip_ansi ;;
    environment <- sup_environment opts penv ;;
    Ok {| s_minfds := minfds; s_minprocs := minprocs; s_directory := directory;
          s_user := gstr_opt user; s_umask := umask; s_logfile := logfile;
          s_logfile_maxbytes := lmb; s_logfile_backups := lbu; s_loglevel := loglevel;
          s_pidfile := pidfile; s_identifier := py_str identifier; s_nodaemon := nodaemon;
          s_silent := silent; s_childlogdir := childlogdir; s_nocleanup := nocleanup;
          s_strip_ansi := strip_ansi; s_environment := environment |}.

  (* read_config after the ini text has been tokenised *)
  Definition read_config (main : sections) (incs : list (string * sections))
             (handler_ok : string -> bool) : result config :=
    secs <- read_includes main incs ;;
    if negb (has_section secs "supervisord") then Err ENoSupervisord else
    let penv0 := env_exps_raw (c_environ c) in
    sup <- read_supervisord (find_section secs "supervisord") penv0 ;;
    (* self.environ_expansions['ENV_k'] = v for the [supervisord] environment *)
    let penv := upd penv0 (env_exps (s_environment sup)) in
    groups <- process_groups secs penv handler_ok ;;
    Ok {| cf_sup := sup; cf_groups := map (with_env (s_environment sup)) groups |}.

End Reader.

(* ---------------------------------------------------------- executable model *)
Definition parse := read_config py_expand.
