(* C14: from the parsed pool_events of an [eventlistener:x] section to what the
   pool built from it (EventListenerPool.__init__ -> _subscribe ->
   _subscription_types, supervisor/process.py) actually receives from
   events.notify.  The class hierarchy is C09's generated one
   (SV.C09.Gen_EvTypes, from supervisor/events.py); no second table. *)
From Coq Require Import ZArith List Bool String Ascii.
Require Import SV.Common SV.C09.Gen_EvTypes SV.C09.EvTypes.
Require Import SV.C14.Strs SV.C14.Gen_defaults SV.C14.Config SV.C14.Dump.
Import ListNotations.
Open Scope string_scope.

Definition codes (s : string) : list Z := map ascii_z (list_ascii_of_string s).

(* getattr(EventTypes, NAME) *)
Fixpoint class_of_codes (tbl : list (list Z * etype)) (n : list Z) : option etype :=
  match tbl with
  | [] => None
  | (m, c) :: r => if zlist_eqb m n then Some c else class_of_codes r n
  end.
Definition class_of_name (name : string) : option etype := class_of_codes event_types_table (codes name).

Fixpoint somes {A} (l : list (option A)) : list A :=
  match l with [] => [] | Some x :: r => x :: somes r | None :: r => somes r end.

(* config.pool_events for an events= value that passed the reader *)
Definition pool_classes (events_value : string) : list etype :=
  somes (map class_of_name (dedup (map upper (conv_list_of_strings (GStr events_value))))).

(* EventListenerPool._subscription_types *)
Definition mem_et (t : etype) (l : list etype) : bool := existsb (etype_eqb t) l.
Definition has_other_super (t : etype) (subs : list etype) : bool :=
  existsb (fun u => negb (etype_eqb u t) && subtype_b t u) subs.
Fixpoint sub_types_from (todo acc subs : list etype) : list etype :=
  match todo with
  | [] => acc
  | t :: r =>
    if mem_et t acc then sub_types_from r acc subs
    else if has_other_super t subs then sub_types_from r acc subs
    else sub_types_from r (acc ++ [t])%list subs
  end.
Definition subscription_types (subs : list etype) : list etype := sub_types_from subs [] subs.

(* events.notify(event of class t): one call of _acceptEvent per registered
   (type, callback) with isinstance(event, type) *)
Definition deliveries (subs : list etype) (t : etype) : Z :=
  Z.of_nat (List.length (filter (fun T => subtype_b t T) (subscription_types subs))).

(* ---- the DOCUMENTED hierarchy is the name tree of docs/events.rst / class
   EventTypes: EVENT is above everything, and NAME is above NAME_SUFFIX
   (PROCESS_STATE above PROCESS_STATE_RUNNING, TICK above TICK_5 ...).  This
   prefix rule is the committed reference; that the class tree of
   supervisor/events.py (C09's generated table) realises exactly this name
   tree is a proof obligation (class_tree_matches_names in Proofs.v), so a
   class moved under another class breaks the proof. *)
Definition name_super (a b : string) : bool :=
  String.eqb a "EVENT" || String.eqb a b || prefix (a ++ "_") b.

(* what the documentation promises a pool listing `names`: one notification of
   type n is received exactly once iff n or a type above it is listed *)
Definition doc_deliveries (names : list string) (n : string) : Z :=
  if existsb (fun l => name_super l n) names then 1%Z else 0%Z.

Definition listed_names (events_value : string) : list string :=
  dedup (map upper (conv_list_of_strings (GStr events_value))).

(* correspondence on the documented tree: events= text, and for every EventTypes
   name how often one notification of that type reached the real pool *)
Definition check_subscription_names (x : string * list (string * Z)) : bool :=
  forallb (fun nc => Z.eqb (doc_deliveries (listed_names (fst x)) (fst nc)) (snd nc)) (snd x).

(* correspondence: the events= text of the section, and how often one
   notification of each class reached the real pool's buffer *)
Definition check_subscription (x : string * list (etype * Z)) : bool :=
  let subs := pool_classes (fst x) in
  forallb (fun tc => Z.eqb (deliveries subs (fst tc)) (snd tc)) (snd x).
