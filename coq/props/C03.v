(* C03 - Automatic start, retry and restart policy is exactly the configured one.
   The decisions are the pure predicates the model's finish/transition use
   (SV.Life.Model: too_quickly, running_due, retry_due, give_up_due,
   should_restart, adjust_times); these theorems characterise them for every
   configuration, reading and process record.  That the real code takes exactly
   these decisions at these points is the correspondence's job. *)
From Coq Require Import ZArith List Bool.
Import ListNotations.
Require Import SV.Life.Model SV.Life.Policy SV.Life.Shutdown SV.Life.InvProofs SV.Life.PolicyRun SV.Life.StopRun SV.Life.RpcRun.
Open Scope Z_scope.

Theorem c03_exit_too_quick_iff :
  forall U now ls ss, now > ls -> (too_quickly U now ls ss = true <-> now - ls < ss * U).
Proof. exact c03_exit_decision. Qed.
Print Assumptions c03_exit_too_quick_iff.

Theorem c03_running_only_after_startsecs :
  forall U now ls ss, running_due U now ls ss = true <-> now - ls > ss * U.
Proof. exact c03_running_due_strict. Qed.
Print Assumptions c03_running_only_after_startsecs.

Theorem c03_startsecs_zero_succeeds :
  forall U now ls, too_quickly U now ls 0 = false.
Proof. exact c03_startsecs_zero_never_too_quick. Qed.
Print Assumptions c03_startsecs_zero_succeeds.

Theorem c03_running_never_too_quick :
  forall U c t p, too_quickly U t (laststart (adjust_times U RUNNING c t p)) (c_startsecs c) = false.
Proof. exact c03_running_not_too_quick. Qed.
Print Assumptions c03_running_never_too_quick.

Theorem c03_kth_failure_sets_delay_k_seconds :
  forall U i e w, sts w i <> BACKOFF ->
    let w' := snd (Model.change_state U i BACKOFF e w) in
    backoff (procs w' i) = backoff (procs w i) + 1 /\
    delay (procs w' i) = now w + (backoff (procs w i) + 1) * U /\
    sts w' i = BACKOFF.
Proof. exact c03_backoff_step. Qed.
Print Assumptions c03_kth_failure_sets_delay_k_seconds.

Theorem c03_retry_iff :
  forall c p now, retry_due c p now = true <-> backoff p <= c_startretries c /\ now > delay p.
Proof. exact Policy.c03_retry_iff. Qed.
Print Assumptions c03_retry_iff.

Theorem c03_fatal_iff_retries_exhausted :
  forall c p now, retry_due c p now = true -> give_up_due c p = false.
Proof. exact c03_retry_or_give_up. Qed.
Print Assumptions c03_fatal_iff_retries_exhausted.

Theorem c03_rollback_keeps_retry_spacing :
  forall U c t p, delay p > 0 ->
    (t < delay p - backoff p * U -> delay (adjust_times U BACKOFF c t p) = t + backoff p * U) /\
    (t >= delay p - backoff p * U -> delay (adjust_times U BACKOFF c t p) = delay p) /\
    backoff (adjust_times U BACKOFF c t p) = backoff p.
Proof. exact c03_backoff_rollback_bound. Qed.
Print Assumptions c03_rollback_keeps_retry_spacing.

Theorem c03_autorestart_table :
  forall c es, should_restart c es = true <->
    (c_autorestart c = ARAlways \/
     (c_autorestart c = ARUnexpected /\ match es with Some e => mem_z e (c_exitcodes c) = false | None => True end)).
Proof. exact Policy.c03_autorestart_table. Qed.
Print Assumptions c03_autorestart_table.

Theorem c03_death_by_signal_is_minus_one :
  forall s, 0 < s < 128 -> decode_es s = -1.
Proof. exact c03_signal_death_status. Qed.
Print Assumptions c03_death_by_signal_is_minus_one.

Theorem c03_exit_code_decoded :
  forall c, 0 <= c < 256 -> decode_es (c * 256) = c.
Proof. exact c03_exit_code_status. Qed.
Print Assumptions c03_exit_code_decoded.

(* nothing is started while the daemon is shutting down (shared with C05) *)
Theorem c03_no_start_during_shutdown :
  forall U pconfs gconfs ops w, mood w < 1 ->
    nfork (out (fold_left (Model.step U pconfs gconfs) ops w)) = nfork (out w).
Proof. intros U pconfs gconfs ops w H. exact (proj2 (no_fork_run U pconfs gconfs ops w H)). Qed.
Print Assumptions c03_no_start_during_shutdown.

(* every fork in every run is the second half of a STARTING transition out of STOPPED, EXITED, FATAL or BACKOFF *)
Theorem c03_fork_only_from_pidless_states :
  forall (U : Z) (pconfs : list pconf) (gconfs : list gconf) (ops : list passop) 
           (l : list effect) (i : nat) (p : Z) (r : list effect),
         out (run U pconfs gconfs ops) = l ++ EFork i p :: r ->
         exists (s : pstate) (x : Z) (e : bool) (r' : list effect),
           r = EState i s STARTING x e :: r' /\ (s = STOPPED \/ s = EXITED \/ s = FATAL \/ s = BACKOFF).
Proof. exact fork_preceded_by_starting. Qed.
Print Assumptions c03_fork_only_from_pidless_states.

(* a FATAL process, or a STOPPED one that has been started before, is not forked and does not change during a pass that carries no start request for it *)
Theorem c03_no_spontaneous_start :
  forall (U : Z) (pconfs : list pconf) (gconfs : list gconf) (ops : list passop) (o : passop) (i : nat),
         let w := run U pconfs gconfs ops in
         let w' := step U pconfs gconfs w o in
         sts w i = FATAL \/ sts w i = STOPPED /\ laststart (procs w i) <> 0 ->
         no_start_for pconfs gconfs i o ->
         sts w' i = sts w i /\ procs w' i = procs w i /\ nforki i (out w') = nforki i (out w).
Proof. exact no_spontaneous_start_run. Qed.
Print Assumptions c03_no_spontaneous_start.

(* in every run, a retry from BACKOFF is due only when strictly more than `backoff` seconds have passed since a genuine clock reading, and only while retries are left *)
Theorem c03_retry_not_before_k_seconds :
  forall (U : Z) (pconfs : list pconf) (gconfs : list gconf) (ops : list passop) (i : nat) (t_now : Z),
         let w := run U pconfs gconfs ops in
         sts w i = BACKOFF ->
         retry_due (cf pconfs i) (procs w i) t_now = true ->
         backoff (procs w i) <= c_startretries (cf pconfs i) /\
         (exists t : Z, readings ops t /\ t_now - t > backoff (procs w i) * U /\ 1 <= backoff (procs w i)).
Proof. exact retry_not_before_backoff_seconds. Qed.
Print Assumptions c03_retry_not_before_k_seconds.

(* a BACKOFF->FATAL notification by transition means the failure count exceeded startretries (possibly through the attempt that just failed) *)
Theorem c03_fatal_only_when_retries_exhausted :
  forall (U : Z) (pconfs : list pconf) (w : world) (i : nat),
         sts w i = BACKOFF ->
         pid (procs w i) = 0 ->
         mood w >= 1 ->
         exists w' : world,
           transition U pconfs i w = (Some tt, w') /\
           fr i w w' /\
           (forall (l : list effect) (x : Z) (e : bool),
            out w' = l ++ out w ->
            In (EState i BACKOFF FATAL x e) l ->
            sts w' i = FATAL /\
            (backoff (procs w i) > c_startretries (cf pconfs i) /\ l = EState i BACKOFF FATAL 0 true :: nil \/
             backoff (procs w i) + 1 > c_startretries (cf pconfs i) /\
             backoff (procs w i) <= c_startretries (cf pconfs i) /\
             (exists k : Z,
                l =
                EState i BACKOFF FATAL 0 true
                :: EState i STARTING BACKOFF (backoff (procs w i) + 1) true
                   :: ESpawnFail i k :: EState i BACKOFF STARTING (backoff (procs w i)) true :: nil))).
Proof. exact fatal_only_when_retries_exhausted. Qed.
Print Assumptions c03_fatal_only_when_retries_exhausted.

(* in EXITED (daemon RUNNING) a restart happens iff should_restart; otherwise nothing changes *)
Theorem c03_autorestart_decision :
  forall (U : Z) (pconfs : list pconf) (w : world) (i : nat),
         sts w i = EXITED ->
         pid (procs w i) = 0 ->
         mood w >= 1 ->
         exists w' : world,
           transition U pconfs i w = (Some tt, w') /\
           fr i w w' /\
           (should_restart (cf pconfs i) (exitstatus (procs w i)) = true ->
            spawn_post U pconfs i EXITED (procs w i) (out w) (now w) tt (sts w' i) (procs w' i) (out w')) /\
           (should_restart (cf pconfs i) (exitstatus (procs w i)) = false -> unchanged i w w') /\
           ((exists (l : list effect) (x : Z) (e : bool), out w' = l ++ EState i EXITED STARTING x e :: out w) <->
            should_restart (cf pconfs i) (exitstatus (procs w i)) = true).
Proof. exact autorestart_decision. Qed.
Print Assumptions c03_autorestart_decision.
