(* C03 - Automatic start, retry and restart policy is exactly the configured one.
   The decisions are the pure predicates the model's finish/transition use
   (SV.Life.Model: too_quickly, running_due, retry_due, give_up_due,
   should_restart, adjust_times); these theorems characterise them for every
   configuration, reading and process record.  That the real code takes exactly
   these decisions at these points is the correspondence's job. *)
From Coq Require Import ZArith List Bool.
Import ListNotations.
Require Import SV.Life.Model SV.Life.Policy SV.Life.Shutdown.
Open Scope Z_scope.

Theorem c03_exit_too_quick_iff :
  forall U now ls ss, now > ls -> (too_quickly U now ls ss = true <-> now - ls < ss * U).
Proof. exact c03_exit_decision. Qed.
Print Assumptions c03_exit_too_quick_iff.

Theorem c03_running_only_after_startsecs :
  forall U now ls ss, running_due U now ls ss = true <-> now - ls > ss * U.
Proof. exact c03_running_due_strict. Qed.
Print Assumptions c03_running_only_after_startsecs.

Theorem c03_startsecs_zero_succeeds :
  forall U now ls, too_quickly U now ls 0 = false.
Proof. exact c03_startsecs_zero_never_too_quick. Qed.
Print Assumptions c03_startsecs_zero_succeeds.

Theorem c03_running_never_too_quick :
  forall U c t p, too_quickly U t (laststart (adjust_times U RUNNING c t p)) (c_startsecs c) = false.
Proof. exact c03_running_not_too_quick. Qed.
Print Assumptions c03_running_never_too_quick.

Theorem c03_kth_failure_sets_delay_k_seconds :
  forall U i e w, sts w i <> BACKOFF ->
    let w' := snd (Model.change_state U i BACKOFF e w) in
    backoff (procs w' i) = backoff (procs w i) + 1 /\
    delay (procs w' i) = now w + (backoff (procs w i) + 1) * U /\
    sts w' i = BACKOFF.
Proof. exact c03_backoff_step. Qed.
Print Assumptions c03_kth_failure_sets_delay_k_seconds.

Theorem c03_retry_iff :
  forall c p now, retry_due c p now = true <-> backoff p <= c_startretries c /\ now > delay p.
Proof. exact Policy.c03_retry_iff. Qed.
Print Assumptions c03_retry_iff.

Theorem c03_fatal_iff_retries_exhausted :
  forall c p now, retry_due c p now = true -> give_up_due c p = false.
Proof. exact c03_retry_or_give_up. Qed.
Print Assumptions c03_fatal_iff_retries_exhausted.

Theorem c03_rollback_keeps_retry_spacing :
  forall U c t p, delay p > 0 ->
    (t < delay p - backoff p * U -> delay (adjust_times U BACKOFF c t p) = t + backoff p * U) /\
    (t >= delay p - backoff p * U -> delay (adjust_times U BACKOFF c t p) = delay p) /\
    backoff (adjust_times U BACKOFF c t p) = backoff p.
Proof. exact c03_backoff_rollback_bound. Qed.
Print Assumptions c03_rollback_keeps_retry_spacing.

Theorem c03_autorestart_table :
  forall c es, should_restart c es = true <->
    (c_autorestart c = ARAlways \/
     (c_autorestart c = ARUnexpected /\ match es with Some e => mem_z e (c_exitcodes c) = false | None => True end)).
Proof. exact Policy.c03_autorestart_table. Qed.
Print Assumptions c03_autorestart_table.

Theorem c03_death_by_signal_is_minus_one :
  forall s, 0 < s < 128 -> decode_es s = -1.
Proof. exact c03_signal_death_status. Qed.
Print Assumptions c03_death_by_signal_is_minus_one.

Theorem c03_exit_code_decoded :
  forall c, 0 <= c < 256 -> decode_es (c * 256) = c.
Proof. exact c03_exit_code_status. Qed.
Print Assumptions c03_exit_code_decoded.

(* nothing is started while the daemon is shutting down (shared with C05) *)
Theorem c03_no_start_during_shutdown :
  forall U pconfs gconfs ops w, mood w < 1 ->
    nfork (out (fold_left (Model.step U pconfs gconfs) ops w)) = nfork (out w).
Proof. intros U pconfs gconfs ops w H. exact (proj2 (no_fork_run U pconfs gconfs ops w H)). Qed.
Print Assumptions c03_no_start_during_shutdown.
