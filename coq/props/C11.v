(* C11 - Event notifications tell the truth.
   Property theorems only; each is closed by `exact <lemma>` and followed by
   Print Assumptions.  Models: SV.C11.Envelope (envelope, payloads, event names,
   byte-level listener), SV.C11.Tick, SV.C11.Notify; tables: SV.C11.Gen_events
   (regenerated from supervisor/events.py, states.py, process.py and the
   notify() call sites on every run). *)
From Coq Require Import ZArith List Bool Lia.
Import ListNotations.
Require Import SV.Common SV.C11.Base SV.C11.Utf8 SV.C11.Gen_events SV.C11.Envelope SV.C11.Tick SV.C11.Notify.
Require Import SV.C11.Pipe SV.C11.PipeProofs.
Require Import SV.C11.Capture SV.C11.Listeners SV.C11.Register SV.C11.CaptureProofs SV.C11.ListenersProofs SV.C11.RegisterProofs.
Require Import SV.C11.Routing SV.C11.Utf8Proofs SV.C11.EnvelopeProofs SV.C11.TickProofs SV.C11.NotifyProofs SV.C11.RoutingProofs.
Open Scope Z_scope.

(* ---------------------------------------------------------------- header *)

(* the decimal fields (serial, poolserial, len, pid, when ...) read back as the number printed *)
Theorem c11_parse_print_dec : forall n, parse_dec (print_dec n) = Some n.
Proof. exact parse_print_dec. Qed.
Print Assumptions c11_parse_print_dec.

(* for identifiers and names free of space, colon and LF a byte-level listener
   (first LF, spaces, first colon) reads exactly ver server serial pool
   poolserial eventname len, in order, with the right values; the rest is the payload *)
Theorem c11_header_grammar : forall sid serial pool ps ename payload,
  all_scalar sid = true -> all_scalar pool = true -> all_scalar (opt_text ename) = true ->
  all_scalar payload = true ->
  clean sid = true -> clean pool = true -> clean (opt_text ename) = true ->
  exists w,
    wire (envelope_text sid serial pool ps ename payload) = Some w /\
    parse_header w =
    Some ([ (L_ver, L_3_0); (L_server, utf8_encode sid); (L_serial, print_dec serial);
            (L_pool, utf8_encode pool); (L_poolserial, print_dec ps);
            (L_eventname, utf8_encode (opt_text ename)); (L_len, print_dec (zlen payload)) ],
          utf8_encode payload).
Proof. exact header_grammar. Qed.
Print Assumptions c11_header_grammar.

(* ... and for a concrete event class the eventname is that class's own, only, EventTypes name *)
Theorem c11_envelope_of_event : forall sid pool c serial ps payload,
  concrete c = true ->
  all_scalar sid = true -> all_scalar pool = true -> all_scalar payload = true ->
  clean sid = true -> clean pool = true ->
  exists n w,
    In (n, c) event_types /\ (forall n', In (n', c) event_types -> n' = n) /\
    wire (event_envelope sid pool c serial ps payload) = Some w /\
    parse_header w = Some (header_bytes sid serial pool ps n (zlen payload), utf8_encode payload).
Proof. exact envelope_of_event. Qed.
Print Assumptions c11_envelope_of_event.

(* ---------------------------------------------------------------- len *)

(* len is the number of CHARACTERS of the payload text, always *)
Theorem c11_len_counts_characters : forall sid serial pool ps ename (payload : text),
  option_map (fun v => parse_dec v)
             (assoc L_len (header_bytes sid serial pool ps ename (zlen payload)))
  = Some (Some (zlen payload)).
Proof. exact len_counts_characters. Qed.
Print Assumptions c11_len_counts_characters.

(* FULL STATEMENT (false of the code as it is, see c11_len_refuted):
     forall payload, len = number of payload bytes that follow.
   Proved under the negation of the finding's signature, i.e. for ASCII payloads:
   the listener that reads exactly len bytes gets the payload and nothing is left *)
Theorem c11_len_bytes : forall sid serial pool ps ename payload,
  all_scalar sid = true -> all_scalar pool = true -> all_scalar (opt_text ename) = true ->
  clean sid = true -> clean pool = true -> clean (opt_text ename) = true ->
  all_ascii payload = true ->
  exists w,
    wire (envelope_text sid serial pool ps ename payload) = Some w /\
    listener_read w = Some (header_bytes sid serial pool ps (opt_text ename) (zlen payload),
                            utf8_encode payload, []) /\
    parse_dec (print_dec (zlen payload)) = Some (zlen (utf8_encode payload)).
Proof. exact len_bytes_ascii. Qed.
Print Assumptions c11_len_bytes.

(* the signature is exact: len equals the byte count iff the payload is ASCII *)
Theorem c11_len_bytes_iff : forall payload, in_range payload = true ->
  (parse_dec (print_dec (zlen payload)) = Some (zlen (utf8_encode payload)) <-> all_ascii payload = true).
Proof. exact len_bytes_iff. Qed.
Print Assumptions c11_len_bytes_iff.

(* known finding C11-len: PROCESS_LOG_STDOUT for the output bytes of 'héllo' *)
Theorem c11_len_refuted :
  exists w kvs rest lenv n,
    dispatch_wire refute_sid refute_pool 0 0 ProcessLogStdoutEvent refute_args = Some w /\
    parse_header w = Some (kvs, rest) /\ assoc L_len kvs = Some lenv /\ parse_dec lenv = Some n /\
    n = 53 /\ zlen rest = 54.
Proof. exact len_refuted. Qed.
Print Assumptions c11_len_refuted.

(* any sequence of notifications with ASCII payloads: the byte-level reader
   stays synchronised over the whole stdin stream *)
Theorem c11_stream_in_sync : forall es fuel, forallb env_ok es = true -> (length es <= fuel)%nat ->
  listener_stream fuel (concat (map env_bytes es))
  = Some (map (fun e => (env_header e, e_payload e)) es).
Proof. exact stream_in_sync. Qed.
Print Assumptions c11_stream_in_sync.

(* ---------------------------------------------------------------- event names *)

Theorem c11_eventname_concrete : forall c, concrete c = true ->
  exists n, get_event_name_by_type c = Some n /\ In (n, c) event_types /\
            (forall n', In (n', c) event_types -> n' = n) /\
            clean n = true /\ all_ascii n = true.
Proof. exact eventname_concrete. Qed.
Print Assumptions c11_eventname_concrete.

Theorem c11_event_types_injective :
  NoDup (map snd event_types) /\ NoDup (map fst event_types).
Proof. exact event_types_injective. Qed.
Print Assumptions c11_event_types_injective.

(* every Event class that reaches notify() anywhere in supervisor/*.py has a name of its own *)
Theorem c11_notified_named : forall c, In c notified -> descends c Event = true ->
  exists n, get_event_name_by_type c = Some n /\ In (n, c) event_types /\
            (forall n', In (n', c) event_types -> n' = n) /\ clean n = true /\ all_ascii n = true.
Proof. exact notified_named. Qed.
Print Assumptions c11_notified_named.

(* ---------------------------------------------------------------- payloads *)

Theorem c11_state_payload : forall c pname g fs backoff expected pid,
  payload_kind c = PKState ->
  in_range pname = true -> in_range (gname_text g) = true ->
  clean pname = true -> clean (gname_text g) = true ->
  exists p,
    payload (fst (new_state_event c pname g fs backoff expected pid))
            (snd (new_state_event c pname g fs backoff expected pid)) = Some p /\
    parse_kv_line (utf8_encode p)
    = Some ([ (L_processname, utf8_encode pname); (L_groupname, utf8_encode (gname_text g));
              (L_from_state, opt_text (state_desc fs)) ]
            ++ map (fun e => (fst e, print_dec (eval_src backoff expected pid (snd e)))) (spec_of c)).
Proof. exact state_event_payload. Qed.
Print Assumptions c11_state_payload.

Theorem c11_state_extras_documented : forall sname code, In (sname, code) process_states ->
  exists c d,
    lookup_class code event_map = Some c /\
    In (L_PROCESS_STATE_ ++ sname, c) event_types /\
    assoc_spec (L_PROCESS_STATE_ ++ sname) documented_extra = Some d /\
    spec_of c = d /\ payload_kind c = PKState /\ concrete c = true.
Proof. exact state_extras_documented. Qed.
Print Assumptions c11_state_extras_documented.

Theorem c11_log_payload : forall pname g pid ch d,
  in_range pname = true -> in_range (gname_text g) = true -> in_range ch = true ->
  clean pname = true -> clean (gname_text g) = true -> clean ch = true ->
  parse_header (utf8_encode (payload_log pname g pid ch d))
  = Some ([ (L_processname, utf8_encode pname); (L_groupname, utf8_encode (gname_text g));
            (L_pid, print_dec pid); (L_channel, utf8_encode ch) ],
          utf8_encode (pdata_text d)).
Proof. exact log_payload_fields. Qed.
Print Assumptions c11_log_payload.

Theorem c11_comm_payload : forall pname g pid d,
  in_range pname = true -> in_range (gname_text g) = true ->
  clean pname = true -> clean (gname_text g) = true ->
  parse_header (utf8_encode (payload_comm pname g pid d))
  = Some ([ (L_processname, utf8_encode pname); (L_groupname, utf8_encode (gname_text g));
            (L_pid, print_dec pid) ],
          utf8_encode (pdata_text d)).
Proof. exact comm_payload_fields. Qed.
Print Assumptions c11_comm_payload.

Theorem c11_log_data_text : forall d,
  (forall t, utf8_decode d = Some t -> pdata_text (DBytes d) = t) /\
  (utf8_decode d = None -> pdata_text (DBytes d) = L_Undecodable ++ bytes_repr d).
Proof. exact log_data_text. Qed.
Print Assumptions c11_log_data_text.

Theorem c11_log_data_exact : forall d t, utf8_decode d = Some t ->
  utf8_encode (pdata_text (DBytes d)) = d.
Proof. exact log_data_exact. Qed.
Print Assumptions c11_log_data_exact.

Theorem c11_group_payload : forall name, in_range name = true -> clean name = true ->
  parse_header (utf8_encode (payload_group name)) = Some ([(L_groupname, utf8_encode name)], []).
Proof. exact group_payload_fields. Qed.
Print Assumptions c11_group_payload.

Theorem c11_tick_payload : forall w,
  parse_kv_line (utf8_encode (payload_tick w)) = Some [(L_when, print_dec w)] /\
  parse_dec (print_dec w) = Some w.
Proof. exact tick_payload_fields. Qed.
Print Assumptions c11_tick_payload.

Theorem c11_remote_payload : forall ty data,
  in_range ty = true -> free_of 10 ty = true ->
  split_at 10 (utf8_encode (payload_remote (RStr ty) (RStr data)))
  = Some (L_type ++ 58 :: utf8_encode ty, utf8_encode data).
Proof. exact remote_payload_fields. Qed.
Print Assumptions c11_remote_payload.

Theorem c11_supervisor_payload : forall c, payload_kind c = PKSupervisor ->
  payload c ASupervisor = Some [].
Proof. exact supervisor_payload_empty. Qed.
Print Assumptions c11_supervisor_payload.

(* ---------------------------------------------------------------- ticks *)

(* for EVERY sequence of clock readings (U ticks per second): what each pass
   notifies is a function of the previous and the current reading only - nothing
   at the first pass, afterwards TICK_p iff the slices differ, when = the new slice *)
Theorem c11_tick_law : forall U readings,
  run_ticks U readings = spec_run U tick_events None readings.
Proof. exact tick_law. Qed.
Print Assumptions c11_tick_law.

Theorem c11_tick_law_pointwise : forall U readings i now,
  nth_error readings i = Some now ->
  nth_error (run_ticks U readings) i
  = Some (spec_pass U tick_events (match i with O => None | S j => nth_error readings j end) now).
Proof. exact tick_law_pointwise. Qed.
Print Assumptions c11_tick_law_pointwise.

Theorem c11_tick_emitted_iff : forall U c p prev now w, In (c, p) tick_events ->
  (In (c, w) (spec_pass U tick_events (Some prev) now) <-> (sl U p now <> sl U p prev /\ w = sl U p now)).
Proof. exact tick_emitted_iff. Qed.
Print Assumptions c11_tick_emitted_iff.

(* what a slice is: the multiple of the period at or below the whole seconds of the reading *)
Theorem c11_tick_slice_meaning : forall U p r, 0 < U -> In p (map snd tick_events) ->
  sl U p r = slice_start p (r / U) /\
  slice_start p (r / U) <= r / U < slice_start p (r / U) + p.
Proof. exact tick_slice_meaning. Qed.
Print Assumptions c11_tick_slice_meaning.

Theorem c11_timeslice_int : forall p now, 0 < p ->
  timeslice p now = slice_start p now /\ timeslice_U 1 p now = timeslice p now.
Proof. exact timeslice_int. Qed.
Print Assumptions c11_timeslice_int.

(* ---------------------------------------------------------------- process state notifications *)

Theorem c11_state_snapshot : forall p new exp now,
  (new = p_state p ->
     change_state p new exp now = (p, [])) /\
  (new <> p_state p ->
     let p' := fst (change_state p new exp now) in
     p_state p' = new /\ p_pid p' = p_pid p /\
     p_backoff p' = (if new =? S_BACKOFF then p_backoff p + 1 else p_backoff p) /\
     forall c, lookup_class new event_map = Some c ->
       snd (change_state p new exp now)
       = [(c, AState (p_name p) (p_group p) (p_state p)
                     (extra_values c (p_backoff p') exp (p_pid p')))]).
Proof. exact change_state_snapshot. Qed.
Print Assumptions c11_state_snapshot.

Theorem c11_finish_snapshot : forall p es tq ee now,
  match finish p es tq ee now with
  | Done p' out =>
      p_pid p' = 0 /\ p_name p' = p_name p /\ p_group p' = p_group p /\
      Chain (p_name p) (p_group p) (p_backoff p') ee (p_pid p) (p_state p) out (p_state p')
  | AssertionError p' out =>
      p_pid p' = p_pid p /\
      Chain (p_name p) (p_group p) (p_backoff p') ee (p_pid p) (p_state p) out (p_state p')
  end.
Proof. exact finish_snapshot. Qed.
Print Assumptions c11_finish_snapshot.

Theorem c11_state_history : forall l p,
  Forall step_ok (history p l) /\
  run_psteps p l = concat (map (fun h => snd h) (history p l)).
Proof. exact history_truth. Qed.
Print Assumptions c11_state_history.

(* ---------------------------------------------------------------- groups, daemon state, remote events *)

Theorem c11_group_supervisor_bijection : forall l s,
  sup_run s l = flat_map (fun h => let '(b, o, a) := h in sup_expected b a o) (sup_history s l).
Proof. exact sup_bijection. Qed.
Print Assumptions c11_group_supervisor_bijection.

Theorem c11_stopping_once : forall l s, (length (filter is_stopping (sup_run s l)) <= 1)%nat.
Proof. exact stopping_once. Qed.
Print Assumptions c11_stopping_once.

Theorem c11_remote_one_to_one : forall ty data,
  send_remote_comm_event ty data = [(RemoteCommunicationEvent, ARemote ty data)] /\
  payload RemoteCommunicationEvent (ARemote ty data) = Some (payload_remote ty data).
Proof. exact remote_one_to_one. Qed.
Print Assumptions c11_remote_one_to_one.

(* ---------------------------------------------------------------- one envelope per event per pool *)

(* for every list of configured event types (any order, repetitions, types mixed
   with their supertypes) and every event class: the pool's callback runs exactly
   once when the event is an instance of a configured type, never otherwise *)
Theorem c11_one_delivery_per_pool : forall pe c,
  deliveries pe c = if existsb (fun t => descends c t) pe then 1 else 0.
Proof. exact one_delivery_per_pool. Qed.
Print Assumptions c11_one_delivery_per_pool.

(* when pool p unsubscribes (before_remove), nobody else loses anything *)
Theorem c11_unsubscribe_frame : forall cbs pe p cbs', pool_unsubscribe cbs pe p = Some cbs' ->
  (forall c q, q <> p -> notify_deliveries cbs' c q = notify_deliveries cbs c q) /\
  (forall c, notify_deliveries cbs' c p = notify_deliveries cbs c p - deliveries pe c).
Proof. exact unsubscribe_frame. Qed.
Print Assumptions c11_unsubscribe_frame.

(* any history of pools added, removed and added again: unsubscription never
   fails; a pool present gets each matching event exactly once; a removed pool gets nothing *)
Theorem c11_pools_over_time : forall l,
  match wrun l with
  | WorldError => False
  | World cbs reg =>
    forall c p, notify_deliveries cbs c p
                = match reg_get reg p with
                  | Some pe => if existsb (fun t => descends c t) pe then 1 else 0
                  | None => 0
                  end
  end.
Proof. exact pools_over_time. Qed.
Print Assumptions c11_pools_over_time.

(* a rejection (RESULT 4 FAIL) stays in the pool that owns the listener: with any
   number of pools, pool q's buffer and what its listener is sent are what they
   would be for q alone ... *)
Theorem c11_reject_local : forall l w q s0, pools_get w q = Some s0 ->
  pools_get (rrun w l) q = Some (fold_left (q_local q) l s0).
Proof. exact reject_local. Qed.
Print Assumptions c11_reject_local.

(* ... so two histories that differ only in what OTHER pools' listeners answer send q's listener the same envelopes *)
Theorem c11_reject_frame : forall l l' w q s0, pools_get w q = Some s0 ->
  filter (concerns q) l = filter (concerns q) l' ->
  sent_of (rrun w l) q = sent_of (rrun w l') q.
Proof. exact reject_frame. Qed.
Print Assumptions c11_reject_frame.

(* ---------------------------------------------------------------- PROCESS_COMMUNICATION data; listeners of one pool *)

(* data that fits capture_maxbytes is carried whole, in whatever pieces it was read and logged *)
Theorem c11_capture_whole : forall m chunks, zlen (concat chunks) <= m -> bound_writes m chunks = concat chunks.
Proof. exact capture_whole. Qed.
Print Assumptions c11_capture_whole.

(* always: at most capture_maxbytes bytes, and they are the newest ones *)
Theorem c11_capture_bound_suffix : forall m chunks buf, 0 <= m -> zlen buf <= m ->
  zlen (fold_left (bound_write m) chunks buf) <= m /\
  exists pre, buf ++ concat chunks = pre ++ fold_left (bound_write m) chunks buf.
Proof. exact capture_bound_suffix. Qed.
Print Assumptions c11_capture_bound_suffix.

(* over every history of emissions, dispatches, OK / FAIL answers, malformed result
   lines and listener deaths: an event acknowledged OK is never sent again *)
Theorem c11_never_again_after_ok : forall n l, once_after_ok (l_log (lrun n l)) = true.
Proof. exact never_again_after_ok. Qed.
Print Assumptions c11_never_again_after_ok.

(* in the order the changes happened: without rejections, protocol violations and
   deaths, what the pool has sent followed by what it still buffers is 0, 1, 2, ... *)
Theorem c11_fifo_order : forall n l, forallb quiet l = true ->
  exists k, l_next (lrun n l) = Z.of_nat k /\
            sent_all (l_log (lrun n l)) ++ l_buf (lrun n l) = iota k.
Proof. exact fifo_order. Qed.
Print Assumptions c11_fifo_order.

(* ---------------------------------------------------------------- run-time registration, capture sections, flush at reap *)

(* an event type registered with events.register() is named from then on ... *)
Theorem c11_register_visible : forall t n c, xlookup t c = None -> xlookup (register t n c) c = Some n.
Proof. exact register_visible. Qed.
Print Assumptions c11_register_visible.

(* ... nobody else's name changes ... *)
Theorem c11_register_frame : forall t n c c', (forall e, In e t -> fst e <> n) -> c' <> c ->
  xlookup (register t n c) c' = xlookup t c'.
Proof. exact register_frame. Qed.
Print Assumptions c11_register_frame.

(* ... however many names were looked up (envelopes built) before the registration *)
Theorem c11_register_any_time : forall before n c, xlookup initial_table c = None ->
  (forall o, In o before -> exists c0, o = XLookup c0) ->
  nth (length before) (xrun initial_table (before ++ [XRegister n c; XLookup c])) None = Some n.
Proof. exact register_any_time. Qed.
Print Assumptions c11_register_any_time.

(* each PROCESS_COMMUNICATION event of a run carries the data of its own BEGIN..END section only *)
Theorem c11_capture_sections : forall m blocks, blocks_run m [] blocks = map (bound_writes m) blocks.
Proof. exact blocks_independent. Qed.
Print Assumptions c11_capture_sections.

(* finish(): output held back is announced first, with the pid the child had; then the state changes *)
Theorem c11_finish_flush_order : forall p held es tq ee now,
  exists out,
    finish_with_output p held es tq ee now
    = map (fun h => (fst h, ALog (p_name p) (p_group p) (p_pid p) (DBytes (snd h)))) held ++ out /\
    (forall c a, In (c, a) out -> exists from bo, a = AState (p_name p) (p_group p) from (extra_values c bo ee (p_pid p))).
Proof. exact finish_flush_order. Qed.
Print Assumptions c11_finish_flush_order.

(* ---------------------------------------------------------------- the listener's stdin pipe *)

(* whatever room the pipe has when an envelope is written (none at all included) and
   whenever it is drained: received ++ still buffered = the envelopes written, once each, in order *)
Theorem c11_pipe_exactly_once : forall l, pi_got (pi_run l) ++ pi_buf (pi_run l) = written l.
Proof. exact pipe_exactly_once. Qed.
Print Assumptions c11_pipe_exactly_once.

(* the exit status that decides `expected`: the child's own, 0..255, never folded; -1 for signal deaths *)
Theorem c11_exit_status_true : forall n (core : bool), 0 <= n < 256 ->
  wait_exit_status (n * 256) = n /\
  forall sig, 0 < sig < 128 -> wait_exit_status (n * 256 + (if core then 128 else 0) + sig) = -1.
Proof. exact exit_status_true. Qed.
Print Assumptions c11_exit_status_true.
