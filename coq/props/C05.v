(* C05 - Shutdown and restart stop everything, in priority order, and only then exit.
   Model: SV.Life.Model.  Property theorems only.  (Group order and the exit
   condition are tied by the correspondence; termination is not proved.) *)
From Coq Require Import ZArith List Bool.
Import ListNotations.
Require Import SV.Life.Model SV.Life.Shutdown.
Open Scope Z_scope.

(* once a shutdown/restart request has been observed at a loop boundary no child is forked
   any more and the daemon never returns to RUNNING, whatever happens afterwards *)
Theorem c05_no_fork_after_request :
  forall U pconfs gconfs ops w,
    mood w < 1 ->
    mood (fold_left (Model.step U pconfs gconfs) ops w) < 1 /\
    nfork (out (fold_left (Model.step U pconfs gconfs) ops w)) = nfork (out w).
Proof. exact no_fork_run. Qed.
Print Assumptions c05_no_fork_after_request.

(* a SIGHUP or restart request during SHUTDOWN never turns it into a restart *)
Theorem c05_shutdown_is_final :
  forall U pconfs gconfs ops w,
    mood w = -1 -> mood (fold_left (Model.step U pconfs gconfs) ops w) = -1.
Proof. exact shutdown_final. Qed.
Print Assumptions c05_shutdown_is_final.

(* SUPERVISOR_STATE_CHANGE_STOPPING is announced exactly once: exactly when the loop first observes the request *)
Theorem c05_stopping_announced_once :
  forall U pconfs gconfs ops,
    let w := Model.run U pconfs gconfs ops in
    nsup2 (out w) = if stopping w then 1%nat else 0%nat.
Proof. exact stopping_once_run. Qed.
Print Assumptions c05_stopping_announced_once.

(* process-control RPCs issued meanwhile are answered SHUTDOWN_STATE and change nothing else *)
Theorem c05_rpc_refused :
  forall U pconfs gconfs req r w,
    mood w < 1 ->
    Model.do_rpc U pconfs gconfs req r w = (Some tt, set_out (EAns req F_SHUTDOWN_STATE :: out w) w).
Proof. exact rpc_refused. Qed.
Print Assumptions c05_rpc_refused.

(* non-vacuity: a run in which SIGTERM arrives while a child ignores the stop signal *)
Example c05_example :
  let w := Model.run 2 [mkConf 1 1 2 15 999 true ARUnexpected [0] false false CmdOk 0%nat] [mkG 999 [0%nat]]
                     [mkPass 10 [] [] []; mkPass 14 [ASignal 15] [] []; mkPass 16 [] [] [1]; mkPass 30 [] [] []] in
  mood w = -1 /\ stopping w = true /\ nfork (out w) = 1%nat /\ exited w = true.
Proof. vm_compute. repeat split; reflexivity. Qed.
