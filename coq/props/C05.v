(* C05 - Shutdown and restart stop everything, in priority order, and only then exit.
   Model: SV.Life.Model.  Property theorems only. *)
From Coq Require Import ZArith List Bool.
Import ListNotations.
Require Import SV.Life.Model SV.Life.Inv SV.Life.Shutdown SV.Life.Order SV.Life.Liveness.
Open Scope Z_scope.

(* once a shutdown/restart request has been observed at a loop boundary no child is forked
   any more and the daemon never returns to RUNNING, whatever happens afterwards *)
Theorem c05_no_fork_after_request :
  forall U pconfs gconfs ops w,
    mood w < 1 ->
    mood (fold_left (Model.step U pconfs gconfs) ops w) < 1 /\
    nfork (out (fold_left (Model.step U pconfs gconfs) ops w)) = nfork (out w).
Proof. exact no_fork_run. Qed.
Print Assumptions c05_no_fork_after_request.

(* a SIGHUP or restart request during SHUTDOWN never turns it into a restart *)
Theorem c05_shutdown_is_final :
  forall U pconfs gconfs ops w,
    mood w = -1 -> mood (fold_left (Model.step U pconfs gconfs) ops w) = -1.
Proof. exact shutdown_final. Qed.
Print Assumptions c05_shutdown_is_final.

(* SUPERVISOR_STATE_CHANGE_STOPPING is announced exactly once: exactly when the loop first observes the request *)
Theorem c05_stopping_announced_once :
  forall U pconfs gconfs ops,
    let w := Model.run U pconfs gconfs ops in
    nsup2 (out w) = if stopping w then 1%nat else 0%nat.
Proof. exact stopping_once_run. Qed.
Print Assumptions c05_stopping_announced_once.

(* process-control RPCs issued meanwhile are answered SHUTDOWN_STATE and change nothing else *)
Theorem c05_rpc_refused :
  forall U pconfs gconfs req r w,
    mood w < 1 ->
    Model.do_rpc U pconfs gconfs req r w = (Some tt, set_out (EAns req F_SHUTDOWN_STATE :: out w) w).
Proof. exact rpc_refused. Qed.
Print Assumptions c05_rpc_refused.

(* groups are stopped one at a time in descending priority order: the groups still to be stopped are a
   prefix of the priority-sorted list, and every group already taken off is entirely stopped *)
Theorem c05_groups_in_priority_order :
  forall U pconfs gconfs ops,
    let w := Model.run U pconfs gconfs ops in
    (stopping w = false -> stop_groups w = []) /\
    (stopping w = true ->
       mood w < 1 /\
       exists done, sorted_groups gconfs = stop_groups w ++ done /\
                    forall g, In g done -> unstopped gconfs g w = false).
Proof. exact stop_groups_prefix. Qed.
Print Assumptions c05_groups_in_priority_order.

(* ... and, read off the trace: whenever a process is sent into STOPPING after the shutdown was announced, every
   process of every group later in priority order was already in a stopped state at that moment *)
Theorem c05_no_signal_before_earlier_groups_stopped :
  forall U pconfs gconfs ops pre i f x e post,
    out (Model.run U pconfs gconfs ops) = pre ++ EState i f STOPPING x e :: post ->
    In (ESup 2) post ->
    exists rest g done,
      sorted_groups gconfs = rest ++ g :: done /\ In i (g_procs (gc gconfs g)) /\
      forall g' j, In g' done -> In j (g_procs (gc gconfs g')) -> in_stopped_states (last_state post j) = true.
Proof. exact shutdown_order. Qed.
Print Assumptions c05_no_signal_before_earlier_groups_stopped.

(* the main loop exits only when every managed process is in a stopped state *)
Theorem c05_exit_only_when_all_stopped :
  forall U pconfs gconfs ops,
    let w := Model.run U pconfs gconfs ops in exited w = true -> forall g, unstopped gconfs g w = false.
Proof. exact exit_all_stopped. Qed.
Print Assumptions c05_exit_only_when_all_stopped.

(* ... and it does exit, within a number of passes bounded by the configuration, provided the clock advances,
   every child dies at the latest on SIGKILL (no kill failure) and no more than 100 children wait to be reaped in one pass *)
Theorem c05_shutdown_terminates :
  forall U pconfs gconfs ops0 ops,
    mood (Model.run U pconfs gconfs ops0) < 1 ->
    fair U pconfs gconfs (Model.run U pconfs gconfs ops0) ops ->
    (bound U pconfs gconfs <= length ops)%nat ->
    exited (Model.run U pconfs gconfs (ops0 ++ ops)) = true.
Proof. exact shutdown_terminates_run. Qed.
Print Assumptions c05_shutdown_terminates.

(* non-vacuity: a run in which SIGTERM arrives while a child ignores the stop signal *)
Example c05_example :
  let w := Model.run 2 [mkConf 1 1 2 15 999 true ARUnexpected [0] false false CmdOk 0%nat] [mkG 999 [0%nat]]
                     [mkPass 10 [] [] []; mkPass 14 [ASignal 15] [] []; mkPass 16 [] [] [1]; mkPass 30 [] [] []] in
  mood w = -1 /\ stopping w = true /\ nfork (out w) = 1%nat /\ exited w = true.
Proof. vm_compute. repeat split; reflexivity. Qed.
