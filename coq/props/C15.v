(* C15 - reread reports exactly the difference, update converges to the file.
   Property theorems only; each is closed by `exact <lemma>` and followed by
   Print Assumptions.  Models: SV.C15.Diff (config equality, diff_to_active),
   SV.C15.Update (reloadConfig / add / remove / stop RPCs and supervisorctl
   do_update over an abstract daemon); generated tables: SV.C15.Gen_fields. *)
From Coq Require Import ZArith List Bool String Lia.
Import ListNotations.
Require Import SV.Common SV.C15.Gen_fields SV.C15.Diff SV.C15.DiffProofs SV.C15.Update SV.C15.UpdateProofs.
Open Scope list_scope.
Open Scope Z_scope.

(* reloadConfig's three lists: by name and by `!=`, in file order / active-table order *)
Theorem c15_added_removed_changed :
  forall new cur, NoDup (names cur) -> Forall g_wf new ->
  exists a c r,
    diff_to_active new cur = (a, c, r) /\
    a = filter (fun g => negb (has_name cur (g_name g))) new /\
    r = filter (fun g => negb (has_name new (g_name g))) cur /\
    c = filter (fun g => existsb (fun o => zlist_eqb (g_name o) (g_name g) && g_py_ne g o) cur) new /\
    (forall g, In g a <-> In g new /\ ~ In (g_name g) (names cur)) /\
    (forall g, In g r <-> In g cur /\ ~ In (g_name g) (names new)) /\
    (forall g, In g c <-> In g new /\ exists o, In o cur /\ g_name o = g_name g /\ g_py_ne g o = true).
Proof. exact added_removed_changed. Qed.
Print Assumptions c15_added_removed_changed.

(* what `==` means on two process configs: every attribute __init__ sets, unless one side is Automatic *)
Theorem c15_process_eq_spec :
  forall a b, pc_wf a -> pc_wf b ->
  (pc_py_eq a b = true <-> forall n, In n pc_eq_fields -> field_agrees a b n).
Proof. exact pc_py_eq_spec. Qed.
Print Assumptions c15_process_eq_spec.

(* what `==` means on two group configs: same class and every documented attribute agrees *)
Theorem c15_group_eq_spec :
  forall a b, is_group_class (g_class a) -> is_group_class (g_class b) ->
  (g_py_eq a b = true <->
   g_class a = g_class b /\ forall n, In n (spec_attrs (g_class a)) -> gattr_agrees a b n).
Proof. exact g_py_eq_spec. Qed.
Print Assumptions c15_group_eq_spec.

(* same file parsed again after its groups were activated (Automatic -> names): nothing reported *)
Theorem c15_unchanged_empty :
  forall nm file, NoDup (names file) -> Forall g_wf file ->
  diff_to_active file (map (g_after_setuid nm) file) = ([], [], []).
Proof. exact unchanged_file_empty. Qed.
Print Assumptions c15_unchanged_empty.

Theorem c15_unchanged_empty_general :
  forall new cur, NoDup (names new) -> Forall g_wf new ->
  Forall2 g_instance new cur -> diff_to_active new cur = ([], [], []).
Proof. exact unchanged_empty. Qed.
Print Assumptions c15_unchanged_empty_general.

(* __eq__ with the wildcard is not transitive *)
Theorem c15_eq_transitive_refuted :
  exists a b c, pc_wf a /\ pc_wf b /\ pc_wf c /\
    pc_py_eq a b = true /\ pc_py_eq b c = true /\ pc_py_eq a c = false.
Proof. exact pc_eq_transitive_refuted. Qed.
Print Assumptions c15_eq_transitive_refuted.

(* reloadConfig touches no group, process record or pid *)
Theorem c15_reread_no_process_change :
  forall p d, let (d', _) := reload_config p d in d_groups d' = d_groups d /\ d_live d' = d_live d.
Proof. exact reread_no_process_change. Qed.
Print Assumptions c15_reread_no_process_change.

(* any one attribute of any one process differs, neither side Automatic: unequal ... *)
Theorem c15_any_option_unequal :
  forall f a b x y, In f pc_init_fields ->
  pc_get a f = Some (FVal x) -> pc_get b f = Some (FVal y) -> x <> y ->
  pc_py_eq a b = false.
Proof. exact any_option_detected. Qed.
Print Assumptions c15_any_option_unequal.

(* ... and the group is reported as changed.  pc_init_fields is generated from
   ProcessConfig.__init__ (req_param_names ++ optional_param_names). *)
Theorem c15_any_option_detected :
  forall new cur g o ps ps' i p q f x y,
  NoDup (names cur) -> Forall g_wf new ->
  In g new -> In o cur -> g_name o = g_name g -> is_group_class (g_class o) ->
  g_get g "process_configs" = Some (GProcs ps) -> g_get o "process_configs" = Some (GProcs ps') ->
  nth_error ps i = Some p -> nth_error ps' i = Some q ->
  In f pc_init_fields -> pc_get p f = Some (FVal x) -> pc_get q f = Some (FVal y) -> x <> y ->
  let '(_, c, _) := reload_answer new cur in In (g_name g) c.
Proof. exact any_option_reported. Qed.
Print Assumptions c15_any_option_detected.

(* every documented per-process option is among the compared attributes *)
Theorem c15_documented_options_compared :
  forall f, In f documented_process_attrs -> In f pc_eq_fields.
Proof. exact documented_attrs_compared. Qed.
Print Assumptions c15_documented_options_compared.

Theorem c15_numprocs_detected :
  forall new cur g o ps ps',
  NoDup (names cur) -> Forall g_wf new ->
  In g new -> In o cur -> g_name o = g_name g -> is_group_class (g_class o) ->
  g_get g "process_configs" = Some (GProcs ps) -> g_get o "process_configs" = Some (GProcs ps') ->
  List.length ps <> List.length ps' ->
  let '(_, c, _) := reload_answer new cur in In (g_name g) c.
Proof. exact numprocs_reported. Qed.
Print Assumptions c15_numprocs_detected.

(* a group's own options: priority; buffer_size, pool_events, result_handler of a listener pool *)
Theorem c15_group_option_detected :
  forall new cur g o n x y,
  NoDup (names cur) -> Forall g_wf new ->
  In g new -> In o cur -> g_name o = g_name g -> is_group_class (g_class o) ->
  In n (spec_attrs (g_class g)) -> g_get g n = Some (GVal x) -> g_get o n = Some (GVal y) -> x <> y ->
  let '(_, c, _) := reload_answer new cur in In (g_name g) c.
Proof. exact group_option_reported. Qed.
Print Assumptions c15_group_option_detected.

(* a section that changed its kind (program / fcgi-program / eventlistener) under the same name *)
Theorem c15_group_kind_detected :
  forall new cur g o,
  NoDup (names cur) -> Forall g_wf new ->
  In g new -> In o cur -> g_name o = g_name g -> is_group_class (g_class o) -> g_class g <> g_class o ->
  let '(_, c, _) := reload_answer new cur in In (g_name g) c.
Proof. exact group_kind_reported. Qed.
Print Assumptions c15_group_kind_detected.

(* an fcgi socket's url, backlog, mode, owner: all documented settings are compared ... *)
Theorem c15_documented_socket_options_compared :
  forall n, In n documented_socket_attrs -> In n (sock_eq_attrs ++ sock_eq_attrs_dflt).
Proof. exact documented_socket_attrs_compared. Qed.
Print Assumptions c15_documented_socket_options_compared.

(* ... and a difference in any compared attribute (generated lists) is reported as changed *)
Theorem c15_socket_option_detected :
  forall new cur g o s t n,
  NoDup (names cur) -> Forall g_wf new ->
  In g new -> In o cur -> g_name o = g_name g -> g_class g = FCGI -> is_group_class (g_class o) ->
  g_get g "socket_config" = Some (GSock s) -> g_get o "socket_config" = Some (GSock t) ->
  In n (sock_eq_attrs ++ sock_eq_attrs_dflt) -> s_val s n <> s_val t n ->
  let '(_, c, _) := reload_answer new cur in In (g_name g) c.
Proof. exact socket_option_reported. Qed.
Print Assumptions c15_socket_option_detected.

(* supervisorctl update, no group names (or "all"): kill never fails, no process of a reported
   group is STOPPING (stoppable): the active groups become exactly those of the file *)
Theorem c15_update_converges :
  forall kf new d args,
  (forall a b, kf a b = false) ->
  NoDup (gnames (d_groups d)) -> NoDup (names new) -> Forall g_wf new ->
  valid_names args = [] ->
  (let '(_, c, r) := reload_answer new (active_configs d) in
   forall g, In g (d_groups d) -> In (gr_name g) (c ++ r) -> stoppable g) ->
  let (s', o) := do_update kf args (ParseOk new) d in
  let d' := s_d s' in
  let '(a, c, r) := reload_answer new (active_configs d) in
  o = Done /\ d_file d' = new /\
  NoDup (gnames (d_groups d')) /\
  (forall n, In n (gnames (d_groups d')) <-> In n (names new)) /\
  (forall g', In g' (d_groups d') ->
     (In g' (d_groups d) /\ ~ In (gr_name g') (c ++ r) /\
      forall cf, In cf new -> g_name cf = gr_name g' -> g_py_ne cf (gr_cfg g') = false)
     \/ (exists cf, In cf new /\ In (g_name cf) (c ++ a) /\ g' = fresh_group cf)) /\
  (forall g, In g (d_groups d) -> ~ In (gr_name g) (c ++ r) -> In g (d_groups d')) /\
  (forall g, In g (d_groups d) -> In (gr_name g) (c ++ r) ->
     forall p, In p (gr_procs g) -> has_child p -> ~ In (p_pid p) (d_live d')).
Proof. exact update_converges. Qed.
Print Assumptions c15_update_converges.

(* Known finding C15-update-stopping: without `stoppable` the conclusion fails *)
Theorem c15_update_converges_stopping_refuted :
  exists new d,
    NoDup (gnames (d_groups d)) /\ NoDup (names new) /\
    existsb has_stopping (d_groups d) = true /\
    let (s', o) := do_update (fun _ _ => false) [] (ParseOk new) d in
    o = Escaped F_STILL_RUNNING /\
    table (s_d s') = [([115], 0, false)] /\
    ~ In [110] (gnames (d_groups (s_d s'))).
Proof. exact update_converges_stopping_refuted. Qed.
Print Assumptions c15_update_converges_stopping_refuted.

(* frame of update under no hypothesis on stop outcomes or process states: a group that was not
   reported, or that the command line does not select, keeps its record; no pid becomes live *)
Theorem c15_update_frame :
  forall kf args p d g,
  In g (d_groups d) ->
  match p with
  | ParseErr => True
  | ParseOk new =>
      let '(_, c, r) := reload_answer new (active_configs d) in
      skip (valid_names args) (gr_name g) = true \/ (~ In (gr_name g) c /\ ~ In (gr_name g) r)
  end ->
  In g (d_groups (s_d (fst (do_update kf args p d)))) /\
  (forall pid, In pid (d_live (s_d (fst (do_update kf args p d)))) -> In pid (d_live d)).
Proof. exact update_frame. Qed.
Print Assumptions c15_update_frame.

Theorem c15_update_named :
  forall kf args p d g,
  args <> [] -> ~ In ALL args ->
  In g (d_groups d) -> ~ In (gr_name g) args ->
  In g (d_groups (s_d (fst (do_update kf args p d)))).
Proof. exact update_named. Qed.
Print Assumptions c15_update_named.

(* a file that cannot be parsed: CANT_REREAD, nothing changed, update stops there *)
Theorem c15_cant_reread_frame :
  forall d,
  reload_config ParseErr d = (d, AFault F_CANT_REREAD) /\
  forall kf args, do_update kf args ParseErr d =
                  ({| s_d := d; s_log := [(CReload, AFault F_CANT_REREAD)] |}, Escaped F_CANT_REREAD).
Proof. exact cant_reread_frame. Qed.
Print Assumptions c15_cant_reread_frame.
