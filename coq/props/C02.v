(* C02 - Every child is tracked and reaped once; reported state and live child agree.
   Model: SV.Life.Model; invariant proofs: SV.Life.InvProofs / InvRun.
   Every statement holds at every main-loop boundary of every run (any configuration,
   any script of exits / requests / faults / clock readings, any length). *)
From Coq Require Import ZArith List Bool.
Import ListNotations.
Require Import SV.Life.Model SV.Life.Inv SV.Life.InvRun.
Open Scope Z_scope.

Theorem c02_state_and_pid_agree :
  forall U pconfs gconfs ops i,
    let w := Model.run U pconfs gconfs ops in
    (sts w i = STARTING \/ sts w i = RUNNING \/ sts w i = STOPPING -> pid (procs w i) <> 0) /\
    (sts w i = STOPPED \/ sts w i = EXITED \/ sts w i = FATAL \/ sts w i = BACKOFF -> pid (procs w i) = 0).
Proof. exact c02_pid_state_agree. Qed.
Print Assumptions c02_state_and_pid_agree.

(* the pid table is exactly the map pid -> process of the processes that have a child *)
Theorem c02_pid_table_exact :
  forall U pconfs gconfs ops p i,
    let w := Model.run U pconfs gconfs ops in
    In (p, i) (pidhist w) <-> pid (procs w i) = p /\ p <> 0.
Proof. exact c02_pidhist_exact. Qed.
Print Assumptions c02_pid_table_exact.

(* a pid names at most one process: an exit is attributed to the process that forked the child *)
Theorem c02_pid_names_one_process :
  forall U pconfs gconfs ops i j,
    let w := Model.run U pconfs gconfs ops in
    pid (procs w i) <> 0 -> pid (procs w i) = pid (procs w j) -> i = j.
Proof. exact c02_pids_distinct. Qed.
Print Assumptions c02_pid_names_one_process.

(* every tracked pid is a child the kernel still holds (live, or dead and not yet waited for) ... *)
Theorem c02_tracked_children_exist :
  forall U pconfs gconfs ops p,
    let w := Model.run U pconfs gconfs ops in
    In p (map fst (pidhist w)) -> In p (live w ++ map fst (zombies w)).
Proof. exact c02_pidhist_keys_known. Qed.
Print Assumptions c02_tracked_children_exist.

(* ... and each child is held at most once, so it is waited for exactly once *)
Theorem c02_each_child_once :
  forall U pconfs gconfs ops,
    let w := Model.run U pconfs gconfs ops in NoDup (live w ++ map fst (zombies w)).
Proof. exact c02_kernel_pids_distinct. Qed.
Print Assumptions c02_each_child_once.

Theorem c02_table_keys_distinct :
  forall U pconfs gconfs ops, NoDup (map fst (pidhist (Model.run U pconfs gconfs ops))).
Proof. exact c02_pidhist_keys_distinct. Qed.
Print Assumptions c02_table_keys_distinct.

(* the reaper never trips an assertion, whatever exits in whatever order (incl. unknown pids and > 100 per pass) *)
Theorem c02_reaping_never_fails :
  forall U pconfs gconfs ops, crashed (Model.run U pconfs gconfs ops) = false.
Proof. exact run_never_crashes. Qed.
Print Assumptions c02_reaping_never_fails.
