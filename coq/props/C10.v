(* C10 - Event-listener protocol safety.
   Property theorems only; each is closed by `exact <lemma>` and followed by
   Print Assumptions.  Models: SV.C10.Listener (stdout parser of a listener),
   SV.C10.Proc (stdin dispatcher, Subprocess.write, _dispatchEvent loop, life
   cycle as far as the protocol code reads it). *)
From Coq Require Import ZArith List Bool Lia.
Import ListNotations.
Require Import SV.Common SV.C10.Gen_tokens SV.C10.Listener SV.C10.Proc.
Require Import SV.C10.ListenerProofs SV.C10.ProcProofs SV.C10.Automaton SV.C10.AutomatonProofs.
Require Import SV.C10.ReadLog SV.C10.ReadLogProofs SV.C10.Pipes SV.C10.PipesProofs.
Open Scope Z_scope.

(* The interpretation of a listener's stdout depends only on the byte stream,
   not on how it is cut into reads: final state and concatenated effects agree,
   for every result handler, every well-formed state and all byte lists. *)
Theorem c10_frag_invariant :
  forall (h : handler) (maxdig : Z) (s : listener) (a b : bytes),
  wf s ->
  feed h maxdig s (a ++ b) =
  let '(s1, o1) := feed h maxdig s a in
  let '(s2, o2) := feed h maxdig s1 b in (s2, o1 ++ o2).
Proof. exact feed_frag. Qed.
Print Assumptions c10_frag_invariant.

(* handle_read_event with options.strip_ansi and a child log: the listener
   state and the protocol effects are those of the raw bytes read, for either
   value of strip_ansi and with or without a child log (escape stripping
   reaches the child log only) *)
Theorem c10_strip_ansi_independent :
  forall h maxdig strip_ansi has_childlog s data,
  fst (read_event_full h maxdig strip_ansi has_childlog s data) = read_event h maxdig s data.
Proof. exact read_event_full_protocol. Qed.
Print Assumptions c10_strip_ansi_independent.

(* well-formedness is what __init__ establishes and every read preserves *)
Theorem c10_wf_invariant :
  wf fresh_listener /\
  forall h maxdig s a, wf s -> wf (fst (feed h maxdig s a)).
Proof. split; [exact wf_fresh | exact feed_wf]. Qed.
Print Assumptions c10_wf_invariant.

(* an empty chunk changes nothing in any state a read leaves behind *)
Theorem c10_empty_chunk_identity :
  forall h maxdig s a, wf s ->
  feed h maxdig (fst (feed h maxdig s a)) [] = (fst (feed h maxdig s a), []).
Proof. exact feed_nil_after_feed. Qed.
Print Assumptions c10_empty_chunk_identity.

(* handle_listener_state_change never recurses deeper than 4 frames: no input
   can raise RecursionError, and any larger fuel gives the same result *)
Theorem c10_no_recursion_error :
  forall h maxdig s a, wf s ->
  ~ In OCrash (snd (feed h maxdig s a)) /\
  forall f, (4 <= f)%nat -> run h maxdig f (app_buf s a) = feed h maxdig s a.
Proof.
  intros h maxdig s a W. split; [apply feed_no_crash; exact W|].
  intros f F. apply feed_depth_4; assumption.
Qed.
Print Assumptions c10_no_recursion_error.

(* the documented automaton, byte at a time, is refined by the parser *)
Theorem c10_refines_automaton :
  forall h maxdig s stream, wf s -> stable s ->
  settled h (feed h maxdig s stream) =
  (let '(s0, o0) := settle h s in
   let '(a, o) := proto_ref h maxdig (abs s0) stream in (a, o0 ++ o)).
Proof. exact refines_automaton. Qed.
Print Assumptions c10_refines_automaton.

(* outside the zero-length-result delay (known finding C10-zero-length-result)
   the refinement is exact: abstract state and effects coincide *)
Theorem c10_refines_automaton_strict :
  forall h maxdig s stream, wf s -> stable s -> lagging_b s = false ->
  lagging_b (fst (feed h maxdig s stream)) = false ->
  (abs (fst (feed h maxdig s stream)), snd (feed h maxdig s stream)) = proto_ref h maxdig (abs s) stream.
Proof. exact refines_automaton_strict. Qed.
Print Assumptions c10_refines_automaton_strict.

(* and inside it the unqualified statement is false of the code as it is:
   after "RESULT 0\n" the listener is still BUSY, the automaton is ACKNOWLEDGED *)
Theorem c10_zero_length_lag_refuted :
  exists s stream, wf s /\ stable s /\ lagging_b s = false /\
    abs (fst (feed default_handler 0 s stream)) <> fst (proto_ref default_handler 0 (abs s) stream).
Proof. exact zero_length_lag_refuted. Qed.
Print Assumptions c10_zero_length_lag_refuted.

(* UNKNOWN: the data is discarded, the state is kept, nothing is emitted *)
Theorem c10_unknown_absorbing :
  forall h maxdig s a, l_state s = UNKNOWN ->
  feed h maxdig s a = (mkL UNKNOWN [] (l_rlen s) (l_result s) (l_event s) (l_closed s), []).
Proof. exact unknown_absorbing. Qed.
Print Assumptions c10_unknown_absorbing.

(* the event of a BUSY listener is given back (accepted or rejected) exactly
   once, in the read that makes the listener leave BUSY - in particular when it
   enters UNKNOWN from BUSY - and never otherwise; outside BUSY the slot is empty *)
Theorem c10_event_given_back_once :
  forall h maxdig s a, wf s ->
  let '(s', o) := feed h maxdig s a in
  answers o = (if is_busy s && negb (is_busy s') then [l_event s] else []) /\
  (is_busy s' = true -> is_busy s = true /\ l_event s' = l_event s) /\
  (slot_inv s -> slot_inv s').
Proof. exact feed_answers. Qed.
Print Assumptions c10_event_given_back_once.

(* an envelope is written only to a RUNNING, READY, live, not-stopping listener,
   which is BUSY with that event when the step ends; any other outcome leaves
   the listener record as it was *)
Theorem c10_send_only_ready :
  forall p e env w p' r, try_send p e env w = (p', r) ->
  (r = SSentOk ->
   p_state p = PS_RUNNING /\ l_state (p_l p) = READY /\ p_pid p <> 0 /\ p_killing p = false /\
   l_state (p_l p') = BUSY /\ l_event (p_l p') = Some e) /\
  (r <> SSentOk -> p_l p' = p_l p /\ p_pid p' = p_pid p).
Proof.
  intros p e env w p' r H. split.
  - intros ->. eapply try_send_only_ready. exact H.
  - intros N. eapply try_send_not_sent; eassumption.
Qed.
Print Assumptions c10_send_only_ready.

(* every history of dispatches, listener bytes, write events, spawns, stops and
   deaths over n listeners: events sent to listener i minus events it gave back
   equals the content of its event slot, so it is 0 or 1 *)
Theorem c10_at_most_one_outstanding :
  forall h maxdig n ops i,
  let '(s', o) := sys_run h maxdig (init_sys n) ops in
  bal i o = slot_at s' i /\ (bal i o = 0 \/ bal i o = 1).
Proof. exact at_most_one_outstanding. Qed.
Print Assumptions c10_at_most_one_outstanding.

(* partial writes, EAGAIN, EPIPE: what the pipe accepted is always a prefix of
   the concatenation of the whole envelopes, in order *)
Theorem c10_contiguous :
  forall h maxdig n ops p, In p (fst (sys_run h maxdig (init_sys n) ops)) ->
  (exists rest, p_accepted p ++ rest = concat (p_envs p)) /\
  (p_iclosed p = false -> p_accepted p ++ p_ibuf p = concat (p_envs p)).
Proof. exact contiguous. Qed.
Print Assumptions c10_contiguous.

(* supervisord's ends of a child's pipes are non-blocking (fact generated from
   ServerOptions.make_pipes; the correspondence runs the real make_pipes and
   checks the flags) ... *)
Theorem c10_parent_pipe_ends_nonblocking :
  PIPE_NONBLOCK_STDIN = true /\ PIPE_NONBLOCK_STDOUT = true /\ PIPE_NONBLOCK_STDERR = true.
Proof. exact parent_ends_nonblocking. Qed.
Print Assumptions c10_parent_pipe_ends_nonblocking.

(* ... hence a write to a listener's stdin never makes the main loop sleep:
   whatever room the pipe has, write(2) returns at once having taken a prefix
   (all, a part, or nothing = EAGAIN) - the answers the model of flush
   consumes - and flush keeps exactly the unsent rest (c10_contiguous goes on
   from there).  A blocking descriptor could sleep (blocking_write_can_sleep). *)
Theorem c10_write_never_blocks :
  forall p room,
  let len := zlen (p_ibuf p) in
  exists w, wres_of (kernel_write PIPE_NONBLOCK_STDIN room len) = Some w /\
            (p_broken p = false ->
             let '(p', r) := flush p w in
             r = FOk /\ p_accepted p' ++ p_ibuf p' = p_accepted p ++ p_ibuf p /\
             exists k, p_accepted p' = p_accepted p ++ k).
Proof. exact write_never_blocks. Qed.
Print Assumptions c10_write_never_blocks.

(* frame: an operation on listener i leaves every other listener's record unchanged *)
Theorem c10_no_cross_effect :
  forall h maxdig s i op j, i <> j ->
  nth_error (fst (sys_step h maxdig s (SProc i op))) j = nth_error s j.
Proof. exact no_cross_effect. Qed.
Print Assumptions c10_no_cross_effect.
