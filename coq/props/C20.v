(* C20 - supervisorctl reports what the server said.
   Property theorems only; each is closed by `exact <lemma>` and followed by
   Print Assumptions.  Model: SV.C20.Ctl (Controller.onecmd and the actions of
   DefaultControllerPlugin over a server oracle), tables SV.C20.Gen_ctl
   (regenerated from supervisorctl.py), specification SV.C20.CtlSpec.

   run_targets a sig url names answers  is  `<a> names` (a = start, stop, signal
   sig, clear) executed through onecmd's dispatch and exception net against a
   server that passes the version check and then gives answers[i] to the call
   made for names[i] (a value, a fault, a per-process result list, a socket
   error or an HTTP protocol error); names and answers are lists of ANY length. *)
From Coq Require Import ZArith List Bool String Lia.
Import ListNotations.
Require Import SV.C20.Gen_ctl SV.C20.Ctl SV.C20.CtlSpec SV.C20.CtlProofs.
Open Scope string_scope.
Open Scope Z_scope.

(* exit status 0 <=> every per-target answer is in the success class of the action
   (SUCCESS; ALREADY_STARTED for start; NOT_RUNNING for stop) *)
Theorem c20_exit_zero_iff :
  forall a sig url names answers,
  mem_str "all" names = false -> List.length names = List.length answers ->
  (ex (run_targets a sig url names answers) = 0 <-> all_success a names answers = true).
Proof. exact exit_zero_iff. Qed.
Print Assumptions c20_exit_zero_iff.

Theorem c20_exit_zero_iff_all :
  forall a sig url names rs,
  mem_str "all" names = true ->
  (ex (guarded (targets_cmd a sig url names) (init [up_ok; RVal (VResults rs)])) = 0
   <-> rs_success a rs = true).
Proof. exact exit_zero_iff_all. Qed.
Print Assumptions c20_exit_zero_iff_all.

(* add: ALREADY_ADDED counts as success; shutdown: SHUTDOWN_STATE counts as success *)
Theorem c20_exit_zero_iff_add :
  forall names answers, List.length names = List.length answers ->
  (ex (guarded (add_names names) (init (map resp_of answers))) = 0
   <-> forallb (simple_success (Some F_ALREADY_ADDED)) answers = true).
Proof. exact add_exit_zero_iff. Qed.
Print Assumptions c20_exit_zero_iff_add.

Theorem c20_exit_zero_iff_shutdown :
  forall e x,
  (ex (guarded (do_shutdown e "") (init [resp_of x])) = 0
   <-> simple_success (Some F_SHUTDOWN_STATE) x = true).
Proof. exact shutdown_exit_zero_iff. Qed.
Print Assumptions c20_exit_zero_iff_shutdown.

(* Whenever the server answers for every target - with a value, any fault of the
   single-process or group call, any per-process statuses - the printed messages are
   exactly the expected result lines, in order, one per targeted process or faulting
   group, and the RPC calls are exactly one per name, chosen by split_namespec.
   The only hypothesis left, all_answered, excludes a transport error (socket.error,
   ProtocolError) in the middle of the command: the command then ends through the
   exception net / authentication notice (Example transport_error_ends_command). *)
Theorem c20_one_line_per_target :
  forall a sig url names answers,
  mem_str "all" names = false -> all_answered a names answers = true ->
  let s := run_targets a sig url names answers in
  rev (out s) = map LText (all_expected a names answers) /\
  List.length (all_expected a names answers) = total_targets a names answers /\
  rev (calls s) = ("getVersion", []) :: map (call_for a sig) names.
Proof. exact one_line_per_target. Qed.
Print Assumptions c20_one_line_per_target.


(* The wording chains read from supervisorctl.py give every fault code the wording
   the specification prescribes and cover exactly the codes it covers (the fall-through
   wording is checked in result_text_spec, used by every theorem below) ... *)
Theorem c20_wording_tables_meet_spec :
  forall a sig c,
  option_map (norm (cfg_of a sig)) (lookup c (t_table (cfg_of a sig))) = lookup c (spec_wording a).
Proof. exact table_agrees. Qed.
Print Assumptions c20_wording_tables_meet_spec.

(* ... and every fault code, covered by a chain or not, yields exactly one line for the
   target, naming it unless the line is the server's own text; status 0 exactly for the
   success class *)
Theorem c20_wording_total :
  forall a sig url n c fs,
  is_group_target a n = false -> n <> "all" ->
  let s := run_targets a sig url [n] [AnsFault c fs] in
  out s = [LText (spec_line a (target_name n) c fs)] /\
  (ex s = 0 <-> in_success a c = true) /\
  (lookup c (spec_wording a) <> Some WFaultString ->
   prefix (target_name n ++ ": ") (spec_line a (target_name n) c fs) = true).
Proof. exact wording_total. Qed.
Print Assumptions c20_wording_total.

(* the value of the non-zero status: 7 (LSB: program is not running) for the dead-program
   faults, 1 otherwise *)
Theorem c20_exit_value_single :
  forall a sig url n c fs,
  is_group_target a n = false -> n <> "all" ->
  ex (run_targets a sig url [n] [AnsFault c fs]) = spec_fault_exit a c.
Proof. exact exit_value_single. Qed.
Print Assumptions c20_exit_value_single.

(* status: 3 when any shown process is in a stopped state, else 4 when a name matched
   nothing, else 0; 4 when there is no usable server; error line and 1 otherwise *)
Theorem c20_status_exit :
  forall url names infos,
  ex (guarded (status_cmd url names) (init [up_ok; RVal (VInfos infos)])) = spec_status_exit infos names.
Proof. exact status_exit. Qed.
Print Assumptions c20_status_exit.

Theorem c20_status_exit_noserver :
  forall url names first o, no_server first = true ->
  ex (guarded (status_cmd url names) (init (first :: o))) = LSBStatus_UNKNOWN.
Proof. exact status_exit_noserver. Qed.
Print Assumptions c20_status_exit_noserver.

Theorem c20_status_exit_other_failure :
  forall url names first o,
  (match first with
   | RSock n _ _ => negb ((n =? ECONNREFUSED) || (n =? ENOENT))
   | RFault c _ => negb (c =? F_UNKNOWN_METHOD)
   | RProto c _ _ => negb (c =? 401)
   | RVal _ => false
   end) = true ->
  let s := guarded (status_cmd url names) (init (first :: o)) in
  ex s = LSBInit_GENERIC /\ exists cls v, out s = [LErr cls v].
Proof. exact status_exit_other_failure. Qed.
Print Assumptions c20_status_exit_other_failure.

Theorem c20_unreachable_nonzero :
  forall url k first o, no_server first = true ->
  let s := guarded (with_upcheck url k) (init (first :: o)) in
  ex s <> 0 /\ (exists t, out s = [LText t]) /\ calls s = [("getVersion", [])].
Proof. exact unreachable_nonzero. Qed.
Print Assumptions c20_unreachable_nonzero.

(* the calls of c20_one_line_per_target are the ones the specification names *)
Theorem c20_calls_meet_spec : forall a sig n, call_for a sig n = spec_call a sig n.
Proof. exact call_for_spec. Qed.
Print Assumptions c20_calls_meet_spec.

(* a fault outside the success class or a transport error for any target: non-zero
   status and an error line *)
Theorem c20_never_silent :
  forall a sig url names answers,
  mem_str "all" names = false -> List.length names = List.length answers ->
  all_success a names answers = false ->
  let s := run_targets a sig url names answers in
  ex s <> 0 /\ existsb (is_error_line (fault_strings answers)) (out s) = true.
Proof. exact never_silent. Qed.
Print Assumptions c20_never_silent.

(* onecmd's net: an exception leaving any action whose effects are monotone ends in
   an error line and a non-zero status, never in a traceback *)
Theorem c20_net_total :
  forall f s e s1,
  (forall s0, mono s0 (state_of (f s0))) -> f s = Exn e s1 ->
  ex (guarded f s) <> 0 /\ existsb (is_error_line []) (out (guarded f s)) = true.
Proof. exact net_total. Qed.
Print Assumptions c20_net_total.

(* name, group:name, group:*, group:, all select what split_namespec defines *)
Theorem c20_namespec_selection :
  forall a sig,
  (forall n, has_colon n = false ->
     call_for a sig n = (t_single (cfg_of a sig), AS n :: t_extra (cfg_of a sig))) /\
  (forall g p, has_colon g = false -> (p =s "") || (p =s "*") = false ->
     call_for a sig (g ++ ":" ++ p) = (t_single (cfg_of a sig), AS (g ++ ":" ++ p) :: t_extra (cfg_of a sig))) /\
  (forall g p, has_colon g = false -> (p =s "") || (p =s "*") = true -> has_group_form a = true ->
     call_for a sig (g ++ ":" ++ p) = (t_group (cfg_of a sig), AS g :: t_extra (cfg_of a sig))) /\
  (forall url names o, mem_str "all" names = true ->
     rev (calls (state_of (targets_cmd a sig url names (init (up_ok :: o))))) =
     [("getVersion", []); (t_all (cfg_of a sig), t_extra (cfg_of a sig))]).
Proof. exact namespec_selection. Qed.
Print Assumptions c20_namespec_selection.

Theorem c20_split_namespec :
  (forall n, has_colon n = false -> split_namespec n = (n, Some n)) /\
  (forall g p, has_colon g = false ->
     split_namespec (g ++ ":" ++ p) = (g, if (p =s "") || (p =s "*") then None else Some p)).
Proof. exact (conj split_plain split_group). Qed.
Print Assumptions c20_split_namespec.

(* extra [ctlplugin:*] plugins never change a built-in action; the first plugin defining a command wins *)
Theorem c20_builtin_actions_survive_plugins :
  forall e extra cmd f, action_of e cmd = Some f -> get_do_func e extra cmd = Some f.
Proof. exact builtin_actions_survive_plugins. Qed.
Print Assumptions c20_builtin_actions_survive_plugins.
