(* C13 - start/stop/signal RPC answers agree with what happened to the process.
   Model: SV.Life.Model (start_process, stop_process, signal_process, the all/group forms).
   Refusals are pure (world unchanged); the deferred answers and the all/group
   forms are tied by the correspondence. *)
From Coq Require Import ZArith List Bool.
Import ListNotations.
Require Import SV.Life.Multicall SV.Life.MulticallProofs.
Require Import SV.Life.Model SV.Life.Shutdown SV.Life.RpcLemmas SV.Life.InvProofs SV.Life.PolicyRun SV.Life.StopRun SV.Life.RpcRun.
Open Scope Z_scope.

Theorem c13_start_already_started :
  forall U pconfs i wait w,
    mood w >= 1 -> Nat.ltb i (nprocs pconfs) = true -> c_cmd (cf pconfs i) = CmdOk ->
    in_running_states (sts w i) = true ->
    Model.start_process U pconfs i wait w = (Some (CDone F_ALREADY_STARTED), w).
Proof. exact start_already_started. Qed.
Print Assumptions c13_start_already_started.

Theorem c13_start_bad_name :
  forall U pconfs i wait w, mood w >= 1 -> Nat.ltb i (nprocs pconfs) = false ->
    Model.start_process U pconfs i wait w = (Some (CDone F_BAD_NAME), w).
Proof. exact start_bad_name. Qed.
Print Assumptions c13_start_bad_name.

Theorem c13_start_no_file :
  forall U pconfs i wait w, mood w >= 1 -> Nat.ltb i (nprocs pconfs) = true -> c_cmd (cf pconfs i) = CmdNotFound ->
    Model.start_process U pconfs i wait w = (Some (CDone F_NO_FILE), w).
Proof. exact start_no_file. Qed.
Print Assumptions c13_start_no_file.

Theorem c13_start_not_executable :
  forall U pconfs i wait w, mood w >= 1 -> Nat.ltb i (nprocs pconfs) = true -> c_cmd (cf pconfs i) = CmdNotExec ->
    Model.start_process U pconfs i wait w = (Some (CDone F_NOT_EXECUTABLE), w).
Proof. exact start_not_executable. Qed.
Print Assumptions c13_start_not_executable.

Theorem c13_start_unknown_failed :
  forall U pconfs i wait w, mood w >= 1 -> Nat.ltb i (nprocs pconfs) = true -> c_cmd (cf pconfs i) = CmdOk ->
    sts w i = UNKNOWN ->
    Model.start_process U pconfs i wait w = (Some (CDone F_FAILED), w).
Proof. exact start_unknown_failed. Qed.
Print Assumptions c13_start_unknown_failed.

Theorem c13_stop_not_running :
  forall U pconfs i wait w, mood w >= 1 -> Nat.ltb i (nprocs pconfs) = true -> in_running_states (sts w i) = false ->
    Model.stop_process U pconfs i wait w = (Some (CDone F_NOT_RUNNING), w).
Proof. exact stop_not_running. Qed.
Print Assumptions c13_stop_not_running.

Theorem c13_stop_bad_name :
  forall U pconfs i wait w, mood w >= 1 -> Nat.ltb i (nprocs pconfs) = false ->
    Model.stop_process U pconfs i wait w = (Some (CDone F_BAD_NAME), w).
Proof. exact stop_bad_name. Qed.
Print Assumptions c13_stop_bad_name.

Theorem c13_signal_not_running :
  forall U pconfs i sig w, mood w >= 1 -> Nat.ltb i (nprocs pconfs) = true -> in_signallable_states (sts w i) = false ->
    Model.signal_process U pconfs i sig true w = (Some (CDone F_NOT_RUNNING), w).
Proof. exact signal_not_running. Qed.
Print Assumptions c13_signal_not_running.

Theorem c13_signal_bad_signal :
  forall U pconfs i sig w, mood w >= 1 -> Nat.ltb i (nprocs pconfs) = true ->
    Model.signal_process U pconfs i sig false w = (Some (CDone F_BAD_SIGNAL), w).
Proof. exact signal_bad_signal. Qed.
Print Assumptions c13_signal_bad_signal.

Theorem c13_refused_while_shutting_down :
  forall U pconfs gconfs req r w, mood w < 1 ->
    Model.do_rpc U pconfs gconfs req r w = (Some tt, set_out (EAns req F_SHUTDOWN_STATE :: out w) w).
Proof. exact rpc_refused. Qed.
Print Assumptions c13_refused_while_shutting_down.

(* known finding: startProcess(wait=false) on a STOPPING process answers true although no child is forked *)
Theorem c13_start_stopping_refuted :
  let w := Model.run 2 [w_conf] [mkG 999 [0%nat]] w_ops in
  In (EAns 2 0) (out w) /\ nfork (out w) = 1%nat /\ sts w 0%nat = STOPPING.
Proof. exact c13_start_stopping_witness. Qed.
Print Assumptions c13_start_stopping_refuted.

(* startProcess answering true (or deferring) forked a child for exactly that process in this call - or the process was STOPPING (the known finding) *)
Theorem c13_start_true_implies_fork :
  forall (U : Z) (pconfs : list pconf) (w : world) (i : nat) (wait : bool) (c : callres) (w' : world),
         InvProofs.K w ->
         start_process U pconfs i wait w = (Some c, w') ->
         c = CDone 0 \/ c = CDefer ->
         sts w i = STOPPING \/
         spawnable_state (sts w i) = true /\
         (exists (np : Z) (l : list effect),
            out w' = l ++ EFork i np :: EState i (sts w i) STARTING (backoff (procs w i)) true :: out w).
Proof. exact start_true_implies_fork. Qed.
Print Assumptions c13_start_true_implies_fork.

(* signalProcess answering true delivered exactly the named signal to exactly that process's child and changed nothing else *)
Theorem c13_signal_delivers_exactly_one_kill :
  forall (U : Z) (pconfs : list pconf) (w : world) (i : nat) (sig : Z) (w' : world),
         InvProofs.K w ->
         signal_process U pconfs i sig true w = (Some (CDone 0), w') ->
         in_signallable_states (sts w i) = true /\
         pid (procs w i) <> 0 /\
         (exists r : Z,
            (r = 0 \/ r = 1) /\
            out w' = EKill (pid (procs w i)) sig r :: out w /\
            (forall j : nat, sts w' j = sts w j /\ procs w' j = procs w j)).
Proof. exact signal_delivers_exactly_one_kill. Qed.
Print Assumptions c13_signal_delivers_exactly_one_kill.

(* stopProcess(wait) answering true at once leaves the process STOPPED with no child *)
Theorem c13_stop_true_means_stopped :
  forall (U : Z) (pconfs : list pconf) (w : world) (i : nat) (w' : world),
         InvProofs.K w ->
         stop_process U pconfs i true w = (Some (CDone 0), w') ->
         InvProofs.K w' /\ sts w' i = STOPPED /\ pid (procs w' i) = 0.
Proof. exact stop_true_means_stopped. Qed.
Print Assumptions c13_stop_true_means_stopped.

(* ---- system.multicall (supervisor/xmlrpc.py): a multicall is a sequence of requests ----
   Model: SV.Life.Multicall (multi(), the closure polled by the HTTP channel).  For every list of calls - each
   answering at once or after any number of polls, with a value or a fault - and every number of polls: *)

(* what has happened so far is a prefix of the one-call-after-the-other history *)
Theorem c13_multicall_sequential :
  forall calls n, exists rest, mtrace (multicall calls n) ++ rest = seq_trace (number 0 calls).
Proof. exact multicall_sequential. Qed.
Print Assumptions c13_multicall_sequential.

(* a call is invoked only when the call before it has answered: never two requests of one multicall in progress *)
Theorem c13_multicall_one_at_a_time :
  forall calls n, invoked_before_done None (mtrace (multicall calls n)) = true.
Proof. exact multicall_one_at_a_time. Qed.
Print Assumptions c13_multicall_one_at_a_time.

(* the envelope's answer has one entry per call, in call order, each the call's own answer, and by then every call
   has been invoked and has answered, in order *)
Theorem c13_multicall_answers :
  forall calls n rs, answer (multicall calls n) = Some rs ->
    rs = map final calls /\ mtrace (multicall calls n) = seq_trace (number 0 calls).
Proof. exact multicall_answers. Qed.
Print Assumptions c13_multicall_answers.

(* it answers after exactly as many polls as its deferred calls need: not before, and then always *)
Theorem c13_multicall_terminates :
  forall calls n, (total_polls calls <= n)%nat -> answer (multicall calls n) = Some (map final calls).
Proof. exact multicall_terminates. Qed.
Print Assumptions c13_multicall_terminates.

Theorem c13_multicall_not_before :
  forall calls n, (n < total_polls calls)%nat -> answer (multicall calls n) = None.
Proof. exact multicall_not_before. Qed.
Print Assumptions c13_multicall_not_before.
