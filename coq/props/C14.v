(* C14 - A configuration file determines exactly the configured process set.
   Property theorems only; each is closed by `exact <lemma>` and followed by
   Print Assumptions.  Model: SV.C14.Config (reader), SV.C14.Gen_defaults
   (generated tables), SV.C14.Defaults (code defaults vs documentation).
   `expand` (Python's `s % dict`) is universally quantified: the structural
   laws hold for every expander, in particular for the modelled py_expand. *)
From Coq Require Import ZArith List Bool String Permutation Sorted.
Import ListNotations.
Require Import SV.C14.Strs SV.C14.Gen_defaults SV.C14.Config SV.C14.Dump SV.C14.Defaults SV.C14.Proofs.
Require Import SV.C09.Gen_EvTypes SV.C09.EvTypes SV.C14.Subscribe.
Open Scope string_scope.
Open Scope Z_scope.

(* numprocs = n, numprocs_start = s: exactly n processes; the i-th is named by
   expanding process_name in a dictionary whose process_num is s + i *)
Theorem c14_numprocs :
  forall expand c sect opts gname klass penv ps,
  env_keys_only penv ->
  processes_unsorted expand c sect opts gname klass penv = Ok ps ->
  exists k s ex0 pes,
    section_common expand c sect opts gname klass penv = Ok (k, s, ex0) /\
    map fst pes = ps /\
    List.length ps = Z.to_nat (k_numprocs k) /\
    Forall2 (numbered expand k) (zrange s (k_numprocs k)) pes /\
    (forall i, (i < Z.to_nat (k_numprocs k))%nat ->
       exists p E, nth_error ps i = Some p /\ nth_error pes i = Some (p, E) /\
                   lookup "process_num" E = Some (VI (s + Z.of_nat i)) /\
                   expand (k_pname k) E = Ok (p_name p)).
Proof. exact numprocs_law. Qed.
Print Assumptions c14_numprocs.

(* command, directory, environment and log file names are expanded per process *)
Theorem c14_per_process_expansion :
  forall expand c sect opts gname klass penv ps,
  env_keys_only penv ->
  processes_unsorted expand c sect opts gname klass penv = Ok ps ->
  exists k s ex0 pes,
    section_common expand c sect opts gname klass penv = Ok (k, s, ex0) /\ map fst pes = ps /\
    Forall2 (expanded_per_process expand c opts penv k) (zrange s (k_numprocs k)) pes.
Proof. exact per_process_expansion. Qed.
Print Assumptions c14_per_process_expansion.

(* n and s are the values of the numprocs / numprocs_start options (generated
   defaults 1 / 0), the pattern is the process_name option; the two checks *)
Theorem c14_numprocs_inputs :
  forall expand c sect opts gname klass penv k start ex0,
  section_common expand c sect opts gname klass penv = Ok (k, start, ex0) ->
  (exists pn, conv_name (GStr (after_colon sect)) = Ok pn /\
              ex0 = [("here", VS (c_here c)); ("program_name", VS pn);
                     ("host_node_name", VS (c_host c)); ("group_name", VS gname)]) /\
  (exists v, pget expand auto_names opts penv ex0 "numprocs" = Ok v /\ conv_integer v = Ok (k_numprocs k)) /\
  (exists v, pget expand auto_names opts penv ex0 "numprocs_start" = Ok v /\ conv_integer v = Ok start) /\
  (exists v, pget expand auto_names opts penv ex0 "process_name" = Ok v /\ conv_name v = Ok (k_pname k)) /\
  (exists v, pget expand auto_names opts penv ex0 "priority" = Ok v /\ conv_integer v = Ok (k_priority k)) /\
  (exists v, pget expand auto_names opts penv ex0 "stopasgroup" = Ok v /\ conv_boolean v = Ok (k_stopasgroup k)) /\
  (exists v, pget expand [("stopasgroup", GBool (k_stopasgroup k))] opts penv ex0 "killasgroup" = Ok v /\
             conv_boolean v = Ok (k_killasgroup k)) /\
  (k_numprocs k > 1 -> contains "%(process_num)" (k_pname k) = true) /\
  (k_stopasgroup k = true -> k_killasgroup k = true) /\
  k_class k = klass.
Proof. exact section_common_spec. Qed.
Print Assumptions c14_numprocs_inputs.

(* names are pairwise distinct when the expander is injective in process_num
   for the pattern (explicit hypothesis: see c14_names_distinct_refuted) *)
Theorem c14_numprocs_distinct :
  forall expand c sect opts gname klass penv ps k s ex0,
  env_keys_only penv ->
  processes_unsorted expand c sect opts gname klass penv = Ok ps ->
  section_common expand c sect opts gname klass penv = Ok (k, s, ex0) ->
  injective_in_process_num expand (k_pname k) ->
  NoDup (map p_name ps).
Proof. exact numprocs_names_distinct. Qed.
Print Assumptions c14_numprocs_distinct.

Theorem c14_names_distinct_refuted :
  exists opts ps,
    processes_unsorted py_expand ex_ctx "program:w" opts "w" PCProcess [] = Ok ps /\
    lookup "numprocs" opts = Some "3" /\
    (exists pn, lookup "process_name" opts = Some pn /\ contains "%(process_num)" pn = true /\
                defect_escaped_process_num pn = true) /\
    map p_name ps = ["x%(process_num)d"; "x%(process_num)d"; "x%(process_num)d"].
Proof. exact names_distinct_refuted. Qed.
Print Assumptions c14_names_distinct_refuted.

(* exact group set and membership *)
Theorem c14_groups :
  forall expand c secs penv h gs,
  groups_unsorted expand c secs penv h = Ok gs ->
  (forall gsec gopts, In (gsec, gopts) secs -> prefix "group:" gsec = true ->
     exists g, In g gs /\ g_section g = gsec /\ g_kind g = GHet /\
               conv_name (GStr (after_colon gsec)) = Ok (g_name g) /\
               exists v pss,
                 gget expand c code_group gopts "programs" penv [] = Ok v /\
                 Forall2 (fun prog ps =>
                            processes_from_section expand c (member_section secs prog)
                              (find_section secs (member_section secs prog)) (g_name g) PCProcess penv = Ok ps)
                         (conv_list_of_strings v) pss /\
                 g_procs g = List.concat pss) /\
  (forall s, prefix "program:" s = true \/ prefix "fcgi-program:" s = true ->
             listed expand c secs penv s -> forall g, In g gs -> g_section g <> s) /\
  (forall s o, In (s, o) secs -> prefix "program:" s = true -> ~ listed expand c secs penv s ->
     exists g, In g gs /\ g_section g = s /\ g_kind g = GHom /\
               conv_name (GStr (after_colon s)) = Ok (g_name g) /\
               processes_from_section expand c s o (g_name g) PCProcess penv = Ok (g_procs g)) /\
  (forall s o, In (s, o) secs -> prefix "eventlistener:" s = true ->
     exists g, In g gs /\ g_section g = s /\ listener_pool expand c penv h (s, o) = Ok g) /\
  (forall s o, In (s, o) secs -> prefix "fcgi-program:" s = true -> ~ listed expand c secs penv s ->
     exists g, In g gs /\ g_section g = s /\ fcgi_group expand c penv (s, o) = Ok g) /\
  (forall s, listed expand c secs penv s \/ ~ listed expand c secs penv s) /\
  (forall g, In g gs ->
     exists o, In (g_section g, o) secs /\
       (prefix "group:" (g_section g) = true \/
        (prefix "program:" (g_section g) = true /\ ~ listed expand c secs penv (g_section g)) \/
        prefix "eventlistener:" (g_section g) = true \/
        (prefix "fcgi-program:" (g_section g) = true /\ ~ listed expand c secs penv (g_section g)))).
Proof. exact groups_law. Qed.
Print Assumptions c14_groups.

(* a pool is subscribed to exactly the listed (upper-cased) types, all valid *)
Theorem c14_listener_subscription :
  forall expand c penv h sect opts g,
  listener_pool expand c penv h (sect, opts) = Ok g ->
  g_section g = sect /\ g_name g = after_colon sect /\
  processes_from_section expand c sect opts (g_name g) PCListener penv = Ok (g_procs g) /\
  exists b evs hd v,
    g_kind g = GPool b evs hd /\
    gget expand c code_eventlistener opts "events" penv [] = Ok v /\
    NoDup evs /\ evs <> [] /\
    (forall e, In e evs <-> In e (map upper (conv_list_of_strings v))) /\
    (forall e, In e evs -> In e event_type_names) /\
    b >= 1.
Proof. exact listener_subscription. Qed.
Print Assumptions c14_listener_subscription.

Theorem c14_unknown_event_rejected :
  forall expand c penv h sect opts v e,
  gget expand c code_eventlistener opts "events" penv [] = Ok v ->
  In e (map upper (conv_list_of_strings v)) -> ~ In e event_type_names ->
  forall g, listener_pool expand c penv h (sect, opts) <> Ok g.
Proof. exact unknown_event_rejected. Qed.
Print Assumptions c14_unknown_event_rejected.

(* from the listed types to what the pool made from the section receives: one
   notification of class t is handed to the pool exactly once iff t or one of its
   superclasses is listed (duplicates, orders, type/supertype pairs do not matter);
   hierarchy = C09's generated one *)
Theorem c14_subscription_routing :
  forall subs t, deliveries subs t = if existsb (fun T => subtype_b t T) subs then 1%Z else 0%Z.
Proof. exact subscription_routing. Qed.
Print Assumptions c14_subscription_routing.

(* the class tree of supervisor/events.py realises the documented name tree
   (EVENT above everything, NAME above NAME_SUFFIX): a class moved elsewhere breaks this *)
Theorem c14_class_tree_matches_names : tree_match_b = true.
Proof. exact class_tree_matches_names. Qed.
Print Assumptions c14_class_tree_matches_names.

(* so a pool listing valid names receives type n exactly once iff n or a name above it is listed *)
Theorem c14_subscription_by_names :
  forall names n,
  Forall (fun l => In l event_type_names) names -> In n event_type_names ->
  exists cn, class_of_name n = Some cn /\
             deliveries (somes (map class_of_name names)) cn = doc_deliveries names n.
Proof. exact subscription_by_names. Qed.
Print Assumptions c14_subscription_by_names.

(* booleans / autorestart: exactly the documented spellings, in any case *)
Theorem c14_boolean_spellings :
  forallb (is_ok_bool true) documented_truthy = true /\ forallb (is_ok_bool false) documented_falsy = true /\
  forallb (fun s => match conv_boolean (GStr s) with Err EBool => true | _ => false end) not_booleans = true /\
  forallb (is_ok_ar ARAlways) documented_truthy = true /\ forallb (is_ok_ar ARNever) documented_falsy = true /\
  forallb (is_ok_ar ARUnexpected) ["unexpected"; "UNEXPECTED"; "Unexpected"] = true /\
  forallb (fun s => match conv_autorestart (GStr s) with Err EAutorestart => true | _ => false end) not_booleans = true.
Proof. exact boolean_spellings. Qed.
Print Assumptions c14_boolean_spellings.

Theorem c14_event_names_are_classes :
  forallb (fun n => match class_of_name n with Some _ => true | None => false end) event_type_names = true /\
  List.length event_type_names = List.length event_types_table.
Proof. exact event_names_are_classes. Qed.
Print Assumptions c14_event_names_are_classes.

(* the result is the (priority, name)-sorted permutation of the groups made;
   likewise the processes of one section *)
Theorem c14_sorted :
  forall expand c secs penv h gs,
  process_groups expand c secs penv h = Ok gs ->
  exists gs0, groups_unsorted expand c secs penv h = Ok gs0 /\ Permutation gs gs0 /\
              Sorted (le_key group_key) gs.
Proof. exact groups_sorted. Qed.
Print Assumptions c14_sorted.

Theorem c14_sorted_processes :
  forall expand c sect opts gname klass penv ps,
  processes_from_section expand c sect opts gname klass penv = Ok ps ->
  exists ps0, processes_unsorted expand c sect opts gname klass penv = Ok ps0 /\
              Permutation ps ps0 /\ Sorted (le_key proc_key) ps.
Proof. exact processes_sorted. Qed.
Print Assumptions c14_sorted_processes.

(* child environment = [supervisord] environment overridden by the program's *)
Theorem c14_env_precedence :
  forall expand c main incs h cf,
  read_config expand c main incs h = Ok cf ->
  exists secs penv groups0,
    process_groups expand c secs penv h = Ok groups0 /\
    Forall2 (fun g0 g =>
               g_name g = g_name g0 /\ g_priority g = g_priority g0 /\ g_kind g = g_kind g0 /\
               Forall2 (fun p0 p =>
                          p_name p = p_name p0 /\ p_command p = p_command p0 /\
                          forall k, lookup k (p_environment p) =
                                    match lookup_last k (p_environment p0) with
                                    | Some v => Some v
                                    | None => lookup k (s_environment (cf_sup cf))
                                    end)
                       (g_procs g0) (g_procs g))
            groups0 (cf_groups cf).
Proof. exact env_precedence. Qed.
Print Assumptions c14_env_precedence.

(* code defaults (generated from the get(...) calls) agree with the documented
   ones, up to the explicitly listed known differences *)
Theorem c14_defaults_match_docs :
  defaults_mismatches = [] /\ documented_but_unread = [] /\ stale_known = [].
Proof. exact defaults_match_docs. Qed.
Print Assumptions c14_defaults_match_docs.

(* the dump used by the correspondence run covers every ProcessConfig parameter *)
Theorem c14_params_cover :
  forall p, map fst (dump_fields p) = (req_param_names ++ optional_param_names)%list.
Proof. exact dump_fields_cover. Qed.
Print Assumptions c14_params_cover.

(* ... and every ServerOptions attribute that process_config fills from [supervisord] *)
Theorem c14_effective_cover :
  forall s, map fst (dump_effective s) = map fst effective_options.
Proof. exact dump_effective_cover. Qed.
Print Assumptions c14_effective_cover.

(* an accepted program-like section satisfies the modelled constraints
   (contrapositive: a violated constraint => Err) *)
Theorem c14_constraints :
  forall expand c sect opts gname klass penv ps,
  processes_from_section expand c sect opts gname klass penv = Ok ps ->
  exists k s ex0,
    section_common expand c sect opts gname klass penv = Ok (k, s, ex0) /\
    (k_numprocs k > 1 -> contains "%(process_num)" (k_pname k) = true) /\
    (k_stopasgroup k = true -> k_killasgroup k = true) /\
    (k_numprocs k >= 1 -> lookup "command" opts <> None) /\
    (exists pn, conv_name (GStr (after_colon sect)) = Ok pn) /\
    first_forbidden name_forbidden_chars (k_pname k) = false.
Proof. exact section_constraints. Qed.
Print Assumptions c14_constraints.

(* and every program-like section of an accepted configuration is so checked *)
Theorem c14_constraints_everywhere :
  forall expand c secs penv h gs,
  NoDup (section_names secs) ->
  groups_unsorted expand c secs penv h = Ok gs ->
  forall s o, In (s, o) secs ->
    prefix "program:" s = true \/ prefix "eventlistener:" s = true \/ prefix "fcgi-program:" s = true ->
    exists gname klass ps, processes_from_section expand c s o gname klass penv = Ok ps.
Proof. exact every_section_checked. Qed.
Print Assumptions c14_constraints_everywhere.

(* known defects the faithful model reproduces (see known.d/C14.json) *)
Theorem c14_negative_numprocs_refuted :
  processes_from_section py_expand ex_ctx "program:w" [("numprocs", "-2")] "w" PCProcess [] = Ok [].
Proof. exact negative_numprocs_accepted. Qed.
Print Assumptions c14_negative_numprocs_refuted.

(* ---- repaired in /repo (fix commits 89ee4dd, 2aace49, cffd68d): now ordinary theorems *)

(* an accepted stopsignal is one of the numbers datatypes.SIGNUMS holds (generated
   by the source's filter); 0 and the SIG_* handler / sigmask constants are rejected *)
Theorem c14_signal_is_signal :
  forall v n, conv_signal v = Ok n -> In n signal_numbers.
Proof. exact signal_accepted_is_signal. Qed.
Print Assumptions c14_signal_is_signal.

Theorem c14_signal_constants_rejected :
  forallb rejected_as_signal
          ["0"; "_IGN"; "_DFL"; "SIG_IGN"; "SIG_DFL"; "SIG_BLOCK"; "_UNBLOCK"; "sig_setmask"; "-1"; "65"] = true /\
  conv_signal (GStr "TERM") = Ok 15 /\ conv_signal (GStr "1") = Ok 1 /\ conv_signal (GStr "sigusr2") = Ok 12.
Proof. exact signal_constants_rejected. Qed.
Print Assumptions c14_signal_constants_rejected.

(* an accepted environment string is KEY = value triples separated by commas *)
Theorem c14_env_separator_checked :
  forall s r, dict_of_key_value_pairs s = Ok r -> exists toks, shlex s = Some toks /\ kv_shape toks.
Proof. exact env_separator_checked. Qed.
Print Assumptions c14_env_separator_checked.

Theorem c14_env_separator_examples :
  dict_of_key_value_pairs "A==1" = Err EEnvSyntax /\
  dict_of_key_value_pairs "A=1;B=2" = Err EEnvSyntax /\
  dict_of_key_value_pairs "A=1," = Ok [("A", "1")] /\
  dict_of_key_value_pairs "A=1,B=""x,y""" = Ok [("A", "1"); ("B", "x,y")].
Proof. exact env_separator_examples. Qed.
Print Assumptions c14_env_separator_examples.

(* an accepted loglevel is one of the generated level names *)
Theorem c14_loglevel_is_level :
  forall v n, conv_loglevel v = Ok n -> In (lower (py_str v), n) log_levels.
Proof. exact loglevel_only_levels. Qed.
Print Assumptions c14_loglevel_is_level.

Theorem c14_loglevel_dunder_rejected :
  conv_loglevel (GStr "__module__") = Err ELogLevel /\ conv_loglevel (GStr "__doc__") = Err ELogLevel.
Proof. exact loglevel_dunder_rejected. Qed.
Print Assumptions c14_loglevel_dunder_rejected.

Theorem c14_name_characters_refuted :
  conv_name (GStr "") = Ok "" /\ conv_name (GStr "a[b") = Ok "a[b" /\ conv_name (GStr "a]b") = Ok "a]b".
Proof. exact empty_and_bracket_names_accepted. Qed.
Print Assumptions c14_name_characters_refuted.
