(* C12 - XML-RPC exposes only the public API; answers are results or documented
   faults.  Property theorems only; each is closed by `exact <lemma>` and
   followed by Print Assumptions.  Model: SV.C12.Rpc (traverse, handler call,
   _update guard, multicall) over SV.C12.Gen_rpc (attribute tables of the live
   object graph, per-method facts, Faults, docs/api.rst list; regenerated from
   the working tree on every run). *)
From Coq Require Import ZArith List Bool String Lia.
Import ListNotations.
Require Import SV.C12.RpcTypes SV.C12.Gen_rpc SV.C12.Rpc SV.C12.RpcProofs.
Open Scope Z_scope.

(* --- closure: for every string, under the handler's root and under the
   AttrDict root of system.multicall, a name that resolves is ns.m for a public
   bound method of a registered namespace, documented or an allowed alias *)
Theorem c12_closure :
  forall root name ns m,
    root = root_table \/ root = mroot_table ->
    resolve root name = RResolved ns m ->
    name = qualified ns m /\ In name public_api /\ starts_underscore m = false /\
    attr_of root ns m = AKind BoundMethod.
Proof. exact closure. Qed.
Print Assumptions c12_closure.

Theorem c12_resolvable_documented :
  forall name ns m,
    resolve root_table name = RResolved ns m ->
    In name documented_api \/ In name allowed_aliases.
Proof. exact resolvable_documented. Qed.
Print Assumptions c12_resolvable_documented.

Theorem c12_resolvable_eq_listMethods :
  forall name,
    (exists ns m, resolve root_table name = RResolved ns m) <-> In name list_methods_live.
Proof. exact resolvable_eq_listMethods. Qed.
Print Assumptions c12_resolvable_eq_listMethods.

Theorem c12_multicall_root_agrees :
  forall name, resolve mroot_table name = resolve root_table name.
Proof. exact roots_agree. Qed.
Print Assumptions c12_multicall_root_agrees.

(* --- shape: 1 or >= 3 dotted parts, empty parts, underscore names, unknown
   namespaces, attributes that are not bound methods: UNKNOWN_METHOD, state
   untouched, no method body entered - whatever the bodies would do *)
Theorem c12_shape_refused :
  forall (St Val Cb Arg : Type) (mood_of : St -> Z)
         (body : string -> list Arg -> St -> St * bres Val Cb)
         (pre_effect : string -> list Arg -> St -> St)
         root name args st,
    root = root_table \/ root = mroot_table ->
    (List.length (split_dot name) <> 2%nat \/
     exists ns m, split_dot name = [ns; m] /\
       (ns = EmptyString \/ m = EmptyString \/ starts_underscore m = true \/
        attr_of root ns m = ANoNamespace \/ attr_of root ns m = ANoAttr \/
        exists k, attr_of root ns m = AKind k /\ k <> BoundMethod)) ->
    dispatch St Val Cb Arg mood_of body pre_effect root name args st
      = (st, OFault (fault_code "UNKNOWN_METHOD"), []).
Proof. exact shape_refused. Qed.
Print Assumptions c12_shape_refused.

Theorem c12_dispatch_crash_only_from_body :
  forall (St Val Cb Arg : Type) (mood_of : St -> Z)
         (body : string -> list Arg -> St -> St * bres Val Cb)
         (pre_effect : string -> list Arg -> St -> St)
         root name args st st' tr,
    root = root_table \/ root = mroot_table ->
    dispatch St Val Cb Arg mood_of body pre_effect root name args st = (st', OCrash, tr) ->
    exists target st0 st1, body target args st0 = (st1, BCrash).
Proof. exact dispatch_crash_only_from_body. Qed.
Print Assumptions c12_dispatch_crash_only_from_body.

(* --- mood guard *)
Theorem c12_control_guarded :
  Forall (fun n => exists i, info_of_name n = Some i /\ guarded i = true) control_methods.
Proof. exact control_guarded. Qed.
Print Assumptions c12_control_guarded.

Theorem c12_unguarded_exact :
  forall name ns m,
    resolve root_table name = RResolved ns m ->
    exists i, find_info ns m method_info = Some i /\
              (guarded i = true \/ ns = "system"%string \/ In name unguarded_allowed).
Proof. exact unguarded_exact. Qed.
Print Assumptions c12_unguarded_exact.

Theorem c12_shutdown_guard :
  forall (St Val Cb Arg : Type) (mood_of : St -> Z)
         (body : string -> list Arg -> St -> St * bres Val Cb)
         (pre_effect : string -> list Arg -> St -> St)
         name args st,
    In name control_methods ->
    In (mood_of st) [mood_code "RESTARTING"; mood_code "SHUTDOWN"] ->
    exists c,
      dispatch St Val Cb Arg mood_of body pre_effect root_table name args st = (st, OFault c, [])
      /\ (c = fault_code "SHUTDOWN_STATE" \/ c = fault_code "INCORRECT_PARAMETERS").
Proof. exact shutdown_guard_moods. Qed.
Print Assumptions c12_shutdown_guard.

Theorem c12_guard_effect :
  forall (St Val Cb Arg : Type) (mood_of : St -> Z)
         (body : string -> list Arg -> St -> St * bres Val Cb)
         (pre_effect : string -> list Arg -> St -> St)
         i args st,
    guarded i = true -> mood_of st < upd_threshold ->
    invoke St Val Cb Arg mood_of body pre_effect i args st =
      (st, OFault (if arity_ok i (Z.of_nat (List.length args)) then fault_code "SHUTDOWN_STATE"
                   else fault_code "INCORRECT_PARAMETERS"), []).
Proof. exact guard_effect. Qed.
Print Assumptions c12_guard_effect.

Theorem c12_running_not_refused :
  forall (St Val Cb Arg : Type) (mood_of : St -> Z)
         (body : string -> list Arg -> St -> St * bres Val Cb)
         (pre_effect : string -> list Arg -> St -> St)
         i args st,
    mood_of st = mood_code "RUNNING" -> mi_guard i = GFirst ->
    arity_ok i (Z.of_nat (List.length args)) = true ->
    invoke St Val Cb Arg mood_of body pre_effect i args st =
      let '(st2, r) := body (mi_target i) args st in (st2, of_bres Val Cb r, [mi_target i]).
Proof. exact running_not_refused. Qed.
Print Assumptions c12_running_not_refused.

(* --- fault codes of the dispatch layer *)
Theorem c12_fault_codes :
  forall (St Val Cb Arg : Type) (mood_of : St -> Z)
         (body : string -> list Arg -> St -> St * bres Val Cb)
         (pre_effect : string -> list Arg -> St -> St)
         root name args st st' c tr,
    root = root_table \/ root = mroot_table ->
    dispatch St Val Cb Arg mood_of body pre_effect root name args st = (st', OFault c, tr) ->
    In c (map snd faults_table) \/ exists target st0 st1, body target args st0 = (st1, BFault c).
Proof. exact fault_codes_documented. Qed.
Print Assumptions c12_fault_codes.

Theorem c12_faults_referenced_exist :
  (forall n, In n faults_referenced -> exists c, lookup n faults_table = Some c) /\
  (forall f, In f dynamic_fault_sites -> In f dynamic_fault_allowed).
Proof. exact faults_referenced_exist. Qed.
Print Assumptions c12_faults_referenced_exist.

(* --- arity: what the code accepts is what the docstrings document *)
Theorem c12_arity_documented :
  forall name ns m i,
    resolve root_table name = RResolved ns m -> find_info ns m method_info = Some i ->
    arity_as_documented i = true.
Proof. exact arity_documented. Qed.
Print Assumptions c12_arity_documented.

(* --- multicall *)
Theorem c12_multicall_sequential :
  forall (St R Call Cb Env : Type)
         (start : Call -> St -> St * (R + Cb))
         (poll : Cb -> St -> St * option R)
         (env_step : Env -> St -> St)
         calls envs st,
    multicall St R Call Cb Env start poll env_step calls envs st =
    let '(s, rs, d, k) := sequential St R Call Cb Env start poll env_step calls envs st in
    (s, rs, d, S k).
Proof. exact multicall_sequential. Qed.
Print Assumptions c12_multicall_sequential.

Theorem c12_multicall_element :
  forall (St Val Cb Arg : Type) (mood_of : St -> Z)
         (body : string -> list Arg -> St -> St * bres Val Cb)
         (pre_effect : string -> list Arg -> St -> St)
         c n st,
    c_name Arg c = Some n -> n <> mc_recursion_name ->
    mc_start St Val Cb Arg mood_of body pre_effect c st =
      match handle St Val Cb Arg mood_of body pre_effect n (c_params Arg c) st with
      | (st', AValue _ _ v) => (st', inl (RVal v))
      | (st', AFaultResp _ _ f) => (st', inl (RFaultStruct f))
      | (st', ADeferred _ _ cb) => (st', inr cb)
      | (st', AHttp500 _ _) => (st', inl (RFaultStruct (fault_code "FAILED")))
      end.
Proof. exact multicall_element. Qed.
Print Assumptions c12_multicall_element.

Theorem c12_multicall_recursion_refused :
  forall (St Val Cb Arg : Type) (mood_of : St -> Z)
         (body : string -> list Arg -> St -> St * bres Val Cb)
         (pre_effect : string -> list Arg -> St -> St)
         c st,
    c_name Arg c = Some "system.multicall"%string ->
    mc_start St Val Cb Arg mood_of body pre_effect c st
      = (st, inl (RFaultStruct (fault_code "INCORRECT_PARAMETERS"))).
Proof. exact multicall_recursion_refused. Qed.
Print Assumptions c12_multicall_recursion_refused.

Theorem c12_multicall_single_name :
  forall name ns m i,
    resolve mroot_table name = RResolved ns m -> find_info ns m method_info = Some i ->
    mi_target i = "SystemNamespaceRPCInterface.multicall"%string -> name = "system.multicall"%string.
Proof. exact multicall_single_name. Qed.
Print Assumptions c12_multicall_single_name.
