(* C04 - Stop requests: right signal, right target, bounded escalation, final.
   Pure decision predicates of the model's kill/transition (SV.Life.Model:
   kill_target, kill_due, adjust_times) characterised for every input; the
   STOPPING -> STOPPED edge and the absence of restarts after a stop come from
   the lifecycle theorems (C01, C03). *)
From Coq Require Import ZArith List Bool.
Import ListNotations.
Require Import SV.Life.Model SV.Life.Policy SV.Life.Inv SV.Life.Trace.
Open Scope Z_scope.

Theorem c04_signal_target :
  forall c s pid, pid > 0 ->
    (s <> STOPPING -> (kill_target c s pid < 0 <-> c_stopasgroup c = true)) /\
    (s = STOPPING -> (kill_target c s pid < 0 <-> c_killasgroup c = true)) /\
    Z.abs (kill_target c s pid) = pid.
Proof. exact c04_target. Qed.
Print Assumptions c04_signal_target.

Theorem c04_sigkill_iff_deadline_passed :
  forall p now, kill_due p now = true <-> now >= delay p.
Proof. exact c04_kill_due_iff. Qed.
Print Assumptions c04_sigkill_iff_deadline_passed.

Theorem c04_rollback_never_postpones :
  forall U c t p, delay p > 0 ->
    delay (adjust_times U STOPPING c t p) <= Z.max (delay p) (t + c_stopwaitsecs c * U) /\
    (t < delay p - c_stopwaitsecs c * U -> delay (adjust_times U STOPPING c t p) = t + c_stopwaitsecs c * U) /\
    (t >= delay p - c_stopwaitsecs c * U -> delay (adjust_times U STOPPING c t p) = delay p).
Proof. exact c04_rollback_bound. Qed.
Print Assumptions c04_rollback_never_postpones.

Theorem c04_deadline_within_wait_after_jump :
  forall U c t p, delay p > 0 ->
    delay (adjust_times U STOPPING c t p) <= t + c_stopwaitsecs c * U \/
    delay (adjust_times U STOPPING c t p) = delay p.
Proof. exact c04_deadline_within_wait. Qed.
Print Assumptions c04_deadline_within_wait_after_jump.

(* STOPPING can only be left for STOPPED (or UNKNOWN after a failed kill): from the documented graph,
   which every notification of every run obeys (C01) *)
Theorem c04_stopping_leads_to_stopped :
  forall t, edge STOPPING t = true -> t = STOPPED.
Proof. destruct t; cbn; intro H; try discriminate; reflexivity. Qed.
Print Assumptions c04_stopping_leads_to_stopped.

Theorem c04_stopped_restarts_only_via_starting :
  forall t, edge STOPPED t = true -> t = STARTING.
Proof. destruct t; cbn; intro H; try discriminate; reflexivity. Qed.
Print Assumptions c04_stopped_restarts_only_via_starting.
