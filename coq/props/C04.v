(* C04 - Stop requests: right signal, right target, bounded escalation, final.
   Pure decision predicates of the model's kill/transition (SV.Life.Model:
   kill_target, kill_due, adjust_times) characterised for every input; the
   STOPPING -> STOPPED edge and the absence of restarts after a stop come from
   the lifecycle theorems (C01, C03). *)
From Coq Require Import ZArith List Bool.
Import ListNotations.
Require Import SV.Life.Model SV.Life.Policy SV.Life.Inv SV.Life.Trace SV.Life.InvProofs SV.Life.PolicyRun SV.Life.StopRun SV.Life.RpcRun.
Open Scope Z_scope.

Theorem c04_signal_target :
  forall c s pid, pid > 0 ->
    (s <> STOPPING -> (kill_target c s pid < 0 <-> c_stopasgroup c = true)) /\
    (s = STOPPING -> (kill_target c s pid < 0 <-> c_killasgroup c = true)) /\
    Z.abs (kill_target c s pid) = pid.
Proof. exact c04_target. Qed.
Print Assumptions c04_signal_target.

Theorem c04_sigkill_iff_deadline_passed :
  forall p now, kill_due p now = true <-> now >= delay p.
Proof. exact c04_kill_due_iff. Qed.
Print Assumptions c04_sigkill_iff_deadline_passed.

Theorem c04_rollback_never_postpones :
  forall U c t p, delay p > 0 ->
    delay (adjust_times U STOPPING c t p) <= Z.max (delay p) (t + c_stopwaitsecs c * U) /\
    (t < delay p - c_stopwaitsecs c * U -> delay (adjust_times U STOPPING c t p) = t + c_stopwaitsecs c * U) /\
    (t >= delay p - c_stopwaitsecs c * U -> delay (adjust_times U STOPPING c t p) = delay p).
Proof. exact c04_rollback_bound. Qed.
Print Assumptions c04_rollback_never_postpones.

Theorem c04_deadline_within_wait_after_jump :
  forall U c t p, delay p > 0 ->
    delay (adjust_times U STOPPING c t p) <= t + c_stopwaitsecs c * U \/
    delay (adjust_times U STOPPING c t p) = delay p.
Proof. exact c04_deadline_within_wait. Qed.
Print Assumptions c04_deadline_within_wait_after_jump.

(* STOPPING can only be left for STOPPED (or UNKNOWN after a failed kill): from the documented graph,
   which every notification of every run obeys (C01) *)
Theorem c04_stopping_leads_to_stopped :
  forall t, edge STOPPING t = true -> t = STOPPED.
Proof. destruct t; cbn; intro H; try discriminate; reflexivity. Qed.
Print Assumptions c04_stopping_leads_to_stopped.

Theorem c04_stopped_restarts_only_via_starting :
  forall t, edge STOPPED t = true -> t = STARTING.
Proof. destruct t; cbn; intro H; try discriminate; reflexivity. Qed.
Print Assumptions c04_stopped_restarts_only_via_starting.

(* a stop request on a RUNNING/STARTING process: STOPPING notification, then exactly one kill with the configured stopsignal to the child or (iff stopasgroup) its group; deadline = now + stopwaitsecs *)
Theorem c04_stop_sends_stopsignal_first :
  forall (U : Z) (pconfs : list pconf) (w : world) (i : nat),
         sts w i = RUNNING \/ sts w i = STARTING ->
         pid (procs w i) > 0 ->
         exists (b : bool) (w' : world),
           stop U pconfs i w = (Some b, w') /\
           fr i w w' /\
           (let pd := pid (procs w i) in
            let tg := kill_target (cf pconfs i) (sts w i) pd in
            Z.abs tg = pd /\
            (tg < 0 <-> c_stopasgroup (cf pconfs i) = true) /\
            (exists r : Z,
               (r = 0 \/ r = 1 \/ r = 2) /\
               b = (r =? 2) /\
               out w' =
               (if r =? 2 then EState i STOPPING UNKNOWN 0 true :: nil else nil) ++
               EKill tg (c_stopsignal (cf pconfs i)) r :: EState i (sts w i) STOPPING pd true :: out w /\
               sts w' i = (if r =? 2 then UNKNOWN else STOPPING) /\
               admin_stop (procs w' i) = true /\
               pid (procs w' i) = pd /\
               (r <> 2 ->
                killing (procs w' i) = true /\ delay (procs w' i) = now w + c_stopwaitsecs (cf pconfs i) * U))).
Proof. exact stop_sends_stopsignal_first. Qed.
Print Assumptions c04_stop_sends_stopsignal_first.

(* a pass over a STOPPING process sends SIGKILL (to the group iff killasgroup) iff the rollback-adjusted deadline has passed, and restarts the wait; otherwise only the adjustment happens *)
Theorem c04_sigkill_exactly_when_due :
  forall (U : Z) (pconfs : list pconf) (w : world) (i : nat),
         sts w i = STOPPING ->
         pid (procs w i) > 0 ->
         exists w' : world,
           transition U pconfs i w = (Some tt, w') /\
           fr i w w' /\
           (let pd := pid (procs w i) in
            let p0 := adjust_times U STOPPING (cf pconfs i) (now w) (procs w i) in
            let tg := kill_target (cf pconfs i) STOPPING pd in
            Z.abs tg = pd /\
            (tg < 0 <-> c_killasgroup (cf pconfs i) = true) /\
            (kill_due p0 (now w) = true ->
             exists r : Z,
               (r = 0 \/ r = 1 \/ r = 2) /\
               out w' =
               (if r =? 2 then EState i STOPPING UNKNOWN 0 true :: nil else nil) ++ EKill tg 9 r :: out w /\
               sts w' i = (if r =? 2 then UNKNOWN else STOPPING) /\
               (r <> 2 ->
                killing (procs w' i) = true /\ delay (procs w' i) = now w + c_stopwaitsecs (cf pconfs i) * U)) /\
            (kill_due p0 (now w) = false -> sts w' i = STOPPING /\ procs w' i = p0 /\ out w' = out w) /\
            ((exists (l : list effect) (tg' r : Z), out w' = l ++ EKill tg' 9 r :: out w) <-> now w >= delay p0)).
Proof. exact sigkill_exactly_when_due. Qed.
Print Assumptions c04_sigkill_exactly_when_due.

(* in every run, STOPPING is left only for STOPPED immediately after the child was waited for, or for UNKNOWN immediately after a kill failure *)
Theorem c04_stopping_left_only_by_reap_or_failed_kill :
  forall (U : Z) (pconfs : list pconf) (gconfs : list gconf) (ops : list passop) 
           (l : list effect) (i : nat) (t : pstate) (x : Z) (e : bool) (r : list effect),
         out (run U pconfs gconfs ops) = l ++ EState i STOPPING t x e :: r ->
         t = STOPPED /\ (exists (q s : Z) (r' : list effect), r = EWait q s :: r') \/
         t = UNKNOWN /\ (exists (tg sg : Z) (r' : list effect), r = EKill tg sg 2 :: r').
Proof. exact stopping_until_reaped_then_stopped. Qed.
Print Assumptions c04_stopping_left_only_by_reap_or_failed_kill.

(* in every run, every signal goes to a pid (or the group of a pid) that supervisord forked earlier *)
Theorem c04_signals_only_to_own_children :
  forall (U : Z) (pconfs : list pconf) (gconfs : list gconf) (ops : list passop) 
           (l : list effect) (tg sg r : Z) (rest : list effect),
         out (run U pconfs gconfs ops) = l ++ EKill tg sg r :: rest ->
         exists (j : nat) (q : Z), In (EFork j q) rest /\ (tg = q \/ tg = - q).
Proof. exact kill_effects_target_forked_child. Qed.
Print Assumptions c04_signals_only_to_own_children.
