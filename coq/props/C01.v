(* C01 - Process state changes follow the documented lifecycle graph.
   Model: SV.Life.Model (the whole main loop, RPCs, kernel oracles).
   Property theorems only. *)
From Coq Require Import ZArith List Bool String.
Import ListNotations.
Require Import SV.Life.Model SV.Life.Inv SV.Life.Trace SV.Life.Observer SV.Life.GenTie SV.C01.Gen_states.

(* the documented graph, written out as in the property text *)
Definition documented_edges : list (pstate * pstate) :=
  [ (STOPPED, STARTING);
    (STARTING, RUNNING); (STARTING, BACKOFF); (STARTING, STOPPING);
    (RUNNING, STOPPING); (RUNNING, EXITED);
    (BACKOFF, STARTING); (BACKOFF, FATAL); (BACKOFF, STOPPED);
    (STOPPING, STOPPED);
    (EXITED, STARTING);
    (FATAL, STARTING) ].

Theorem c01_edge_is_documented :
  forall f t, edge f t = true <-> In (f, t) documented_edges.
Proof.
  intros f t. split.
  - destruct f, t; cbn; intro H; try discriminate; auto 20.
  - cbn. intros H. repeat (destruct H as [H|H]; [inversion H; reflexivity|]). destruct H.
Qed.
Print Assumptions c01_edge_is_documented.

(* For every configuration, every script of passes / exits / requests / faults / clock readings:
   every PROCESS_STATE notification names the state the process was last reported in, is a
   real change, and is a documented edge or an entry into UNKNOWN immediately after a
   signal-delivery failure other than ESRCH; and replaying the notifications yields exactly
   the state every process is in. *)
Theorem c01_lifecycle_graph :
  forall U pconfs gconfs ops,
    let w := Model.run U pconfs gconfs ops in
    trace_ok (out w) /\ forall i, last_state (out w) i = sts w i.
Proof. exact TI_run. Qed.
Print Assumptions c01_lifecycle_graph.

(* The observer's view of the same fact: the states process i is reported in, read off the
   notifications alone (oldest first: STOPPED, then the state named by each notification), form a
   walk in the documented graph - consecutive reports differ and each is reached by a documented
   edge or is UNKNOWN - that starts in STOPPED and ends in the state the process is in. *)
Theorem c01_observer_walk :
  forall U pconfs gconfs ops i,
    let w := Model.run U pconfs gconfs ops in
    walk_ok (seen (out w) i) /\ hd STOPPED (seen (out w) i) = sts w i /\
    last (seen (out w) i) STOPPED = STOPPED.
Proof. exact observer_run. Qed.
Print Assumptions c01_observer_walk.

Theorem c01_eight_states :
  (forall s : pstate, In s (map snd model_states)) /\
  gen_process_states = map (fun ns => (fst ns, pstate_code (snd ns))) model_states.
Proof. exact (conj model_states_complete state_codes_match). Qed.
Print Assumptions c01_eight_states.

Theorem c01_event_map_total :
  forallb (fun ns => existsb (fun kv => String.eqb (fst kv) (fst ns) && String.eqb (snd kv) (expected_event (fst ns)))
                             gen_event_map) model_states = true
  /\ List.length gen_event_map = List.length model_states.
Proof. exact event_map_total. Qed.
Print Assumptions c01_event_map_total.

Theorem c01_assertions_match_source : gen_asserts = model_asserts.
Proof. exact asserts_match. Qed.
Print Assumptions c01_assertions_match_source.

(* non-vacuity: a reachable trace with eight notifications, one of them into UNKNOWN *)
Example c01_example :
  let w := Model.run 2 [mkConf 1 1 2 15 999 true ARUnexpected [0] false false CmdOk 0%nat] [mkG 999 [0%nat]]
                     [mkPass 10 [] [] []; mkPass 14 [] [] []; mkPass 16 [ARpc 1 (RStop 0%nat false)] [] [2%Z]] in
  sts w 0%nat = UNKNOWN /\ List.length (out w) = 8%nat /\
  seen (out w) 0%nat = [UNKNOWN; STOPPING; RUNNING; STARTING; STOPPED].
Proof. vm_compute. repeat split; reflexivity. Qed.
