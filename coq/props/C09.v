(* C09 - Events reach exactly the subscribed pools, in order, and are not lost.
   Property theorems only; each is closed by `exact <lemma>` and followed by
   Print Assumptions.  Models: SV.C09.Gen_EvTypes (generated class hierarchy and
   EventTypes table), SV.C09.EvTypes (subtyping), SV.C09.Pool (callbacks,
   notify, _subscription_types, _acceptEvent, dispatch, _dispatchEvent,
   handle_rejected; listeners are C10's process records). *)
From Coq Require Import ZArith List Bool Lia.
Import ListNotations.
Require Import SV.Common SV.C10.Listener SV.C10.Proc.
Require Import SV.C09.Gen_EvTypes SV.C09.EvTypes SV.C09.EvTypesProofs SV.C09.Pool SV.C09.PoolProofs.
Require Import SV.C09.Groups SV.C09.GroupsProofs.
Open Scope Z_scope.

(* isinstance on the generated hierarchy: the computable test used by the
   model is the reflexive-transitive closure of the base-class relation *)
Theorem c09_subtype_decidable :
  forall a b, subtype_b a b = true <-> subtype a b.
Proof. exact subtype_b_spec. Qed.
Print Assumptions c09_subtype_decidable.

(* Routing: at every point of every history, an emitted event of class t is
   offered to pool pi exactly once if pi's configuration names t or one of its
   superclasses, and not at all otherwise - also when the configuration
   repeats a type or lists a type together with its supertype. *)
Theorem c09_routing :
  forall h maxdig pools maxint gs ops e t pi p,
  let w := fst (wrun h maxdig (new_world pools maxint gs) ops) in
  nth_error (w_pools w) pi = Some p ->
  ev_lookup (w_events w) e = None ->
  offered_count pi e (snd (emit w e t)) =
  if existsb (fun T => subtype_b t T) (pl_subs p) then 1%nat else 0%nat.
Proof. exact routing_always. Qed.
Print Assumptions c09_routing.

(* Pools removed and added (Supervisor.remove_process_group / add_process_group):
   a refused removal - some listener of the pool is not stopped - changes
   nothing at all, in particular not the subscription table ... *)
Theorem c09_refused_removal_identity :
  forall w pi p e1,
  nth_error (w_pools w) pi = Some p -> subscribed w pi = true -> all_stopped p = false ->
  remove_group w pi e1 = (w, [ERefused pi]).
Proof. exact refused_removal_identity. Qed.
Print Assumptions c09_refused_removal_identity.

(* ... and over every history of operations, removal attempts (refused or
   accepted), additions and restarts of the daemon life, an emitted event is offered to pool pi exactly once
   iff pi is one of the process groups at that moment and is configured for the
   event's class or a superclass: never to a removed pool, and still to a pool
   whose removal was refused. *)
Theorem c09_routing_groups :
  forall h maxdig pools maxint gs ops e t pi p,
  let w := fst (grun h maxdig (new_world pools maxint gs) ops) in
  nth_error (w_pools w) pi = Some p ->
  ev_lookup (w_events w) e = None ->
  offered_count pi e (snd (emit w e t)) =
  if subscribed w pi && existsb (fun T => subtype_b t T) (pl_subs p) then 1%nat else 0%nat.
Proof. exact routing_groups. Qed.
Print Assumptions c09_routing_groups.

(* A new daemon life (Supervisor.run() after an in-process restart) begins with
   an empty subscription table: no pool of the previous life is subscribed; by
   c09_routing_groups (whose histories include restarts) events of the new life
   are then offered to the pools added in that life only. *)
Theorem c09_restart_clears_subscriptions :
  forall w pi, subscribed (clear_callbacks w) pi = false.
Proof. exact restart_clears. Qed.
Print Assumptions c09_restart_clears_subscriptions.

(* without removals/additions: the subscription table, the configured types, the
   buffer sizes and maxint are those of the initial pools throughout *)
Theorem c09_configuration_static :
  forall h maxdig pools maxint gs ops,
  static (fst (wrun h maxdig (new_world pools maxint gs) ops)) = static (new_world pools maxint gs).
Proof. exact static_always. Qed.
Print Assumptions c09_configuration_static.

(* Serial numbers: while at most maxint+1 events have received one (counting
   from a fresh GlobalSerial), no two events share a serial. *)
Theorem c09_serial_unique :
  forall h maxdig pools maxint ops,
  let w := fst (wrun h maxdig (new_world pools maxint (-1)) ops) in
  Z.of_nat (length (serials (w_events w))) <= maxint + 1 ->
  forall x y s, In x (w_events w) -> In y (w_events w) ->
                ei_serial x = Some s -> ei_serial y = Some s -> x = y.
Proof. exact serial_unique_always. Qed.
Print Assumptions c09_serial_unique.

(* Pool serials, stepwise: the first time a pool accepts an event it gives it
   the next number of its own counter (previous + 1 below maxint, 0 after
   maxint); accepting the same event again (re-buffering) keeps the number and
   the counter.
   (The history-level statement is c09_poolserial_monotone below.) *)
Theorem c09_poolserial_step :
  forall w pi e head p x,
  nth_error (w_pools w) pi = Some p -> ev_lookup (w_events w) e = Some x ->
  let w' := fst (accept_event w pi e head) in
  exists p' x', nth_error (w_pools w') pi = Some p' /\ ev_lookup (w_events w') e = Some x' /\
    match ps_lookup (ei_pserials x) pi with
    | Some s => pl_serial p' = pl_serial p /\ ps_lookup (ei_pserials x') pi = Some s
    | None => pl_serial p' = new_serial (w_maxint w) (pl_serial p) /\
              ps_lookup (ei_pserials x') pi = Some (pl_serial p') /\
              (pl_serial p <> w_maxint w -> pl_serial p' = pl_serial p + 1)
    end.
Proof. exact accept_event_poolserial. Qed.
Print Assumptions c09_poolserial_step.

(* Pool serials over whole histories: while pool pi (constructed fresh) has
   numbered at most maxint+1 events, the numbers it handed out are exactly
   0 .. n-1, all different, and its counter is n-1; together with the stepwise
   statement above (the next first-time acceptance gets counter+1 = n) this is
   "poolserials increase in the order the pool accepted events". *)
Theorem c09_poolserial_monotone :
  forall h maxdig cfgs maxint gs ops pi p,
  Forall (fun c => snd c = -1) cfgs ->
  let w := fst (wrun h maxdig (new_world (map pool_of_cfg cfgs) maxint gs) ops) in
  nth_error (w_pools w) pi = Some p ->
  Z.of_nat (length (pserials pi (w_events w))) <= maxint + 1 ->
  pl_serial p = Z.of_nat (length (pserials pi (w_events w))) - 1 /\
  NoDup (pserials pi (w_events w)) /\
  forall s, In s (pserials pi (w_events w)) -> 0 <= s <= pl_serial p.
Proof. exact poolserial_always. Qed.
Print Assumptions c09_poolserial_monotone.

(* FIFO: a dispatch pass sends the head of the queue, then the next one, ...:
   what was sent, in order, followed by what remains is the queue as it was.
   New events enter at the tail, rejected ones at the head (c09_overflow). *)
Theorem c09_fifo :
  forall w pi wss p,
  nth_error (w_pools w) pi = Some p -> pool_bound p ->
  let '(w', o) := dispatch w pi wss in
  raised o = false ->
  exists p', nth_error (w_pools w') pi = Some p' /\ pl_buffer p = sent_of o ++ pl_buffer p'.
Proof. exact dispatch_sends_queue_prefix. Qed.
Print Assumptions c09_fifo.

(* Bound: a pool never holds more than max(1, buffer_size) undelivered events
   (buffer_size >= 1 is enforced by the configuration parser; with 0 the code
   behaves as with 1). *)
Theorem c09_bound :
  forall h maxdig pools maxint gs ops,
  Forall (fun p => pl_buffer p = []) pools ->
  Forall (fun p => Z.of_nat (length (pl_buffer p)) <= Z.max 1 (pl_bufsize p))
         (w_pools (fst (wrun h maxdig (new_world pools maxint gs) ops))).
Proof. exact bound_always. Qed.
Print Assumptions c09_bound.

(* Overflow: _acceptEvent drops at most one event, the head of the queue, only
   when the queue is full, and reports it (EDiscard = the error log line); the
   accepted event goes to the tail, a re-buffered one to the head. *)
Theorem c09_overflow :
  forall w pi e head p x,
  nth_error (w_pools w) pi = Some p -> ev_lookup (w_events w) e = Some x ->
  let '(w', o) := accept_event w pi e head in
  exists p', nth_error (w_pools w') pi = Some p' /\
    (if pl_bufsize p <=? Z.of_nat (length (pl_buffer p)) then
       match pl_buffer p with
       | d :: rest => o = [EDiscard pi d] /\ pl_buffer p' = (if head then e :: rest else rest ++ [e])
       | [] => o = [] /\ pl_buffer p' = [e]
       end
     else o = [] /\ pl_buffer p' = (if head then e :: pl_buffer p else pl_buffer p ++ [e])).
Proof. exact accept_event_overflow. Qed.
Print Assumptions c09_overflow.

(* No loss: from freshly constructed pools, over any history of emitted events,
   listener output, write events, spawns, stops, deaths and dispatch passes in
   which no exception escaped: for every pool and event,
   accepted = buffered + in flight + acknowledged OK + discarded by overflow. *)
Theorem c09_no_loss :
  forall h maxdig cfgs maxint gs ops pi e,
  let '(w', o) := wrun h maxdig (new_world (map pool_of_cfg cfgs) maxint gs) ops in
  raised o = false ->
  n_offered pi e o = (held pi e w' + n_acked pi e o + n_discard pi e o)%nat.
Proof. exact no_loss_always. Qed.
Print Assumptions c09_no_loss.

(* A rejection (FAIL, protocol violation, handler error, death) concerns the
   owner's pool only - whatever the subscription table contains - ... *)
Theorem c09_reject_isolated :
  forall owner i e cbs w,
  let '(w', o) := notify_cbs cbs w T_EventRejectedEvent (NRejected owner i e) in
  (forall pj, pj <> owner -> nth_error (w_pools w') pj = nth_error (w_pools w) pj) /\
  rebuffered_elsewhere owner o = false.
Proof. exact reject_isolated. Qed.
Print Assumptions c09_reject_isolated.

(* ... and puts the event back at the head of the owner's queue, once. *)
Theorem c09_reject_to_head :
  forall w pi e p x,
  nth_error (w_pools w) pi = Some p -> ev_lookup (w_events w) e = Some x ->
  let '(w', o) := handle_rejected w pi pi (Some e) in
  exists p', nth_error (w_pools w') pi = Some p' /\ hd_error (pl_buffer p') = Some e /\
             rebuffered_count pi e o = 1%nat.
Proof. exact reject_to_head. Qed.
Print Assumptions c09_reject_to_head.
