(* C09 - Events reach exactly the subscribed pools, in order, and are not lost.
   Property theorems only. *)
From Coq Require Import ZArith List Bool Lia.
Import ListNotations.
Require Import SV.Common SV.C10.Listener SV.C10.Proc.
Require Import SV.C09.Gen_EvTypes SV.C09.EvTypes SV.C09.EvTypesProofs SV.C09.Pool.
Open Scope Z_scope.

(* isinstance on the generated hierarchy: the computable test used by the
   model is the reflexive-transitive closure of the base-class relation *)
Theorem c09_subtype_decidable :
  forall a b, subtype_b a b = true <-> subtype a b.
Proof. exact subtype_b_spec. Qed.
Print Assumptions c09_subtype_decidable.
