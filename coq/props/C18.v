(* C18 - A child runs the command only in the environment it was promised.
   Property theorems only; each is closed by `exact <lemma>` and followed by
   Print Assumptions.  Model: SV.C18.Child (the real _spawn_as_child, both
   _prepare_child_fds, set_uid, drop_privileges and the options wrappers,
   transcribed over an oracle deciding the outcome of every system call).
   `run exit_returns c w o` = (ordered log of attempted calls with outcomes,
   how the function ends).  All theorems hold for EVERY configuration c, world
   w and oracle o. *)
From Coq Require Import ZArith List Bool String Lia.
Import ListNotations.
Require Import SV.C18.Child SV.C18.ChildSpec SV.C18.ChildProofs SV.C18.ChildTail
               SV.C18.ChildTailFacts SV.C18.ChildMain SV.C18.ChildDrop.
Open Scope string_scope.
Open Scope list_scope.
Open Scope Z_scope.

(* Any execve attempt is preceded by exactly: setpgrp; dup2 onto 0, 1, 2 (0 from
   the FastCGI socket for fcgi programs, 2 from the stdout pipe iff
   redirect_stderr); close(i) for every 3 <= i < minfds in order; the calls of
   a successful switch to the configured user; chdir and umask when
   configured - all successful (close may fail with OSError) - and its
   arguments are the configured command and an environment whose lookup is
   `expected_lookup` (configured environment over SUPERVISOR_* over os.environ).
   No second execve attempt follows. *)
Theorem c18_order :
  forall er c w o pre x post,
    split_exec (fst (run er c w o)) = Some (pre, x, post) ->
    (exists ids e,
        expected_identity_calls c w = Some ids /\
        map fst pre = expected_fd_calls c ++ ids ++ dir_calls c ++ umask_calls c /\
        forallb benignb pre = true /\
        fst x = Execve (c_file c) (c_argv c) e /\
        forall k, lookup k e = expected_lookup c w k) /\
    forallb not_execve post = true.
Proof. exact order_thm. Qed.
Print Assumptions c18_order.

Theorem c18_close_range :
  forall c i, In (Close i) (expected_fd_calls c) <-> 3 <= i < o_minfds c.
Proof. exact close_range. Qed.
Print Assumptions c18_close_range.

(* the lookup law of the right-biased overlay used for the environment *)
Theorem c18_env_lookup_law :
  forall k e1 e2,
    lookup k (env_update e1 e2) = match lookup k e2 with Some v => Some v | None => lookup k e1 end.
Proof. exact lookup_update. Qed.
Print Assumptions c18_env_lookup_law.

(* After any call that failed for good (anything but close() with OSError), no
   execve is attempted. *)
Theorem c18_no_exec_after_failure :
  forall er c w o pre x post,
    fst (run er c w o) = pre ++ x :: post -> benignb x = false -> forallb not_execve post = true.
Proof. exact no_exec_after_failure_thm. Qed.
Print Assumptions c18_no_exec_after_failure.

(* ... and none at all when set_uid must return a message (unknown user, or a
   different user while not root). *)
Theorem c18_no_exec_without_identity :
  forall er c w o,
    expected_identity_calls c w = None -> forallb not_execve (fst (run er c w o)) = true.
Proof. exact no_exec_without_identity_thm. Qed.
Print Assumptions c18_no_exec_without_identity.

(* Assuming os._exit does not return (exit_returns = false): every run ends
   either in the successful execve, as the last call, or with _exit(127) as the
   last call; no other _exit, no successful execve before; the function never
   returns or raises into supervisord's code - also when the final write fails. *)
Theorem c18_exit_127_last :
  forall c w o,
    let '(log, e) := run false c w o in
    exists pre,
      forallb not_exit pre = true /\ forallb not_exec_succeeded pre = true /\
      ((e = EExec /\ exists env, log = pre ++ [(Execve (c_file c) (c_argv c) env, None)]) \/
       (e = EExit /\ log = pre ++ [(Exit 127, None)])).
Proof. exact exit_last_thm. Qed.
Print Assumptions c18_exit_127_last.

(* Even if _exit returned, nothing would be called after it. *)
Theorem c18_exit_is_last_call :
  forall c w o, fst (run true c w o) = fst (run false c w o).
Proof. exact exit_is_last_call_thm. Qed.
Print Assumptions c18_exit_is_last_call.

(* The reason of a failed setgroups/setgid/setuid (OSError), chdir (OSError), umask or
   execve (any exception) is the very next thing written to descriptor 2
   (and by c18_exit_127_last that is before the exit). *)
Theorem c18_msg_before_exit :
  forall er c w o pre x post m,
    fst (run er c w o) = pre ++ x :: post -> reason_for x = Some m ->
    exists r post', post = (Write 2 m, r) :: post'.
Proof. exact reason_written_thm. Qed.
Print Assumptions c18_msg_before_exit.

(* Unknown user / not root: the reason is written, unless the descriptor
   set-up had already failed. *)
Theorem c18_msg_identity :
  forall er c w o u,
    c_uid c = Some u ->
    let log := fst (run er c w o) in
    (w_pw w = None ->
       existsb (is_write_of (MSetuid RNoUid)) log = true \/ existsb fd_failed log = true) /\
    (w_pw w <> None -> w_curuid w <> u -> w_curuid w <> 0 ->
       existsb (is_write_of (MSetuid RNonRoot)) log = true \/ existsb fd_failed log = true).
Proof. exact world_reason_thm. Qed.
Print Assumptions c18_msg_identity.

(* the symbolic sources of c18_order are what descriptors 0/1/2 end up as, for
   every numbering of the pipe ends with child_stdout <> 0 and child_stderr
   not in {0, 1} (true of the numbers os.pipe() hands out in make_pipes) *)
Theorem c18_fd_table :
  forall a b c, b <> 0 -> c <> 0 -> c <> 1 ->
  after_fds a b c 0 = a /\ after_fds a b c 1 = b /\ after_fds a b c 2 = c.
Proof. exact fd_table_ok. Qed.
Print Assumptions c18_fd_table.

(* drop_privileges *)
Theorem c18_drop_none_switches :
  forall er o w u l,
    drop_privileges er o w (Some u) = (l, Val None) ->
    exists name pwuid gid,
      w_pw w = Some (name, pwuid, gid) /\
      ((w_curuid w = target_uid u pwuid /\ l = []) \/
       (w_curuid w = 0 /\ l = full_switch w gid (target_uid u pwuid))).
Proof. exact drop_none_switches. Qed.
Print Assumptions c18_drop_none_switches.

Theorem c18_drop_nonroot_refuses :
  forall er o w u name pwuid gid,
    w_pw w = Some (name, pwuid, gid) ->
    w_curuid w <> target_uid u pwuid -> w_curuid w <> 0 ->
    drop_privileges er o w (Some u) = ([], Val (Some RNonRoot)).
Proof. exact drop_nonroot_refuses. Qed.
Print Assumptions c18_drop_nonroot_refuses.

Theorem c18_drop_failure_stops :
  forall er o w u l r,
    drop_privileges er o w u = (l, r) ->
    existsb failed l = true ->
    forallb (fun e => negb (failed e)) (removelast l) = true /\ r <> Val None.
Proof. exact drop_failure_stops. Qed.
Print Assumptions c18_drop_failure_stops.

Theorem c18_drop_oserror_message :
  forall er o w u l r x e,
    drop_privileges er o w u = (l, r) -> In x l -> snd x = Some (EOS e) ->
    (exists gs, fst x = Setgroups gs /\ r = Val (Some RSetgroups)) \/
    (exists g, fst x = Setgid g /\ r = Val (Some RSetgid)) \/
    (exists n, fst x = Setuid n /\ r = Val (Some RSetuid)).
Proof. exact drop_oserror_message. Qed.
Print Assumptions c18_drop_oserror_message.
