From Coq Require Import ZArith List Bool.
Require Import SV.C19.Rotate SV.C19.RotateCheck.
Theorem c19_stub : True. Proof. exact I. Qed.
Print Assumptions c19_stub.
