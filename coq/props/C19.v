(* C19 - Rotating logs keep the newest output within the configured bounds.
   Property theorems only; each is closed by `exact <lemma>` and followed by
   Print Assumptions.  Model: SV.C19.Rotate (FileHandler / RotatingFileHandler /
   handle_file on a file system of names -> inodes -> bytes).
   `run mb bk ops` is the state after the operations, `run_eff` additionally
   carries the effective history: everything written, minus what was in the
   live log at the moment it was cleared.  `internal` operations are those of
   the handler's owner (write, clear, reopen); one handler per path. *)
From Coq Require Import ZArith List Bool Lia.
Import ListNotations.
Require Import SV.C19.Rotate SV.C19.RotateLemmas SV.C19.RotateSpec SV.C19.RotateInv
               SV.C19.RotateThms SV.C19.RotateMore SV.C19.RotateShared.
Open Scope Z_scope.

(* only the log and .1 ... .N exist *)
Theorem c19_files :
  forall mb bk, mb > 0 -> forall ops f h,
    forallb internal ops = true -> run mb bk ops = Ok f h ->
    forall j c, file f j = Some c -> 0 <= j <= Z.max 0 bk.
Proof. exact files_thm. Qed.
Print Assumptions c19_files.

(* .N ++ ... ++ .1 ++ log is a suffix of the effective history: only a prefix
   (whole oldest files) is ever dropped, nothing from the middle, order kept *)
Theorem c19_suffix :
  forall mb bk, mb > 0 -> forall ops f h E,
    forallb internal ops = true -> run_eff mb bk ops = (Ok f h, E) ->
    exists D, E = D ++ concat_files f (Z.to_nat (Z.max 0 bk)).
Proof. exact suffix_thm. Qed.
Print Assumptions c19_suffix.

(* without clear operations the effective history is simply everything written *)
Theorem c19_history_is_everything_written :
  forall mb bk ops, forallb no_clear ops = true -> snd (run_eff mb bk ops) = written ops.
Proof. exact run_eff_no_clear. Qed.
Print Assumptions c19_history_is_everything_written.

(* every backup is at least maxbytes long ... *)
Theorem c19_sizes_backups :
  forall mb bk, mb > 0 -> forall ops f h,
    forallb internal ops = true -> run mb bk ops = Ok f h ->
    forall j c, j >= 1 -> file f j = Some c -> zlen c >= mb.
Proof. exact backup_size_thm. Qed.
Print Assumptions c19_sizes_backups.

(* ... and the live log is shorter than maxbytes once a write has completed *)
Theorem c19_sizes_live :
  forall mb bk, mb > 0 -> forall ops msg f h,
    forallb internal ops = true -> run mb bk (ops ++ [Write msg]) = Ok f h ->
    exists c, file f 0 = Some c /\ zlen c < mb.
Proof. exact live_size_thm. Qed.
Print Assumptions c19_sizes_live.

(* backups = 0: the log is emptied when it reaches maxbytes, nothing else exists *)
Theorem c19_backups_zero :
  forall mb bk, mb > 0 -> forall ops msg f h,
    bk <= 0 -> forallb internal ops = true -> run mb bk ops = Ok f h ->
    exists f' h',
      step (Ok f h) (Write msg) = Ok f' h' /\
      let c := file_or_empty f 0 ++ msg in
      file f' 0 = Some (if zlen c >=? mb then [] else c) /\
      forall j, j <> 0 -> file f' j = None.
Proof. exact backups_zero_thm. Qed.
Print Assumptions c19_backups_zero.

(* maxbytes = 0 (handle_file picks the plain FileHandler): one file holding the
   whole effective history - nothing rotated, nothing dropped *)
Theorem c19_maxbytes_zero :
  forall bk ops f h E,
    forallb internal ops = true -> run_eff 0 bk ops = (Ok f h, E) ->
    forall j, file f j = if j =? 0 then Some E else None.
Proof. exact maxbytes_zero_thm. Qed.
Print Assumptions c19_maxbytes_zero.

(* after any history (in particular after clear / reopen) the handler's open
   stream is the file at the configured path: later writes land there; with
   c19_suffix, what is written after a clear is kept like any other output *)
Theorem c19_clear_reopen :
  forall mb bk, mb > 0 -> forall ops f h,
    forallb internal ops = true -> run mb bk ops = Ok f h ->
    exists ino, h_stream h = Some ino /\ get (names f) 0 = Some ino.
Proof. exact stream_at_path_thm. Qed.
Print Assumptions c19_clear_reopen.

(* files deleted or replaced behind the handler's back: no exception comes out
   of any operation and no file outside log, .1 ... .N appears *)
Theorem c19_external_tolerated :
  forall mb bk ops,
    Forall (ext_ok bk) ops ->
    exists f h, run mb bk ops = Ok f h /\ forall j c, file f j = Some c -> 0 <= j <= Z.max 0 bk.
Proof. exact external_tolerated_thm. Qed.
Print Assumptions c19_external_tolerated.

(* a failed reopen (open() raising while the log directory is missing) does not
   wedge the handler: from ANY handler state reopen() / remove()+reopen() end
   open on the file at the configured path *)
Theorem c19_reopen_any_state :
  forall f h, let '(f', h') := reopen f h in
  exists ino, h_stream h' = Some ino /\ get (names f') 0 = Some ino.
Proof. exact reopen_any_state. Qed.
Print Assumptions c19_reopen_any_state.

Theorem c19_clear_any_state :
  forall f h, let '(f', h') := clear f h in
  exists ino, h_stream h' = Some ino /\ get (names f') 0 = Some ino /\ file f' 0 = Some [].
Proof. exact clear_any_state. Qed.
Print Assumptions c19_clear_any_state.

(* a rotation that cannot be done (first remove/rename raising): the write is
   kept, nothing is raised, the handler stays open on the file at the path *)
Theorem c19_blocked_write_kept :
  forall f h msg ino,
    h_stream h = Some ino -> get (names f) 0 = Some ino -> h_append h = true ->
    exists f' h',
      step (Ok f h) (WriteBlocked msg) = Ok f' h' /\
      h_stream h' = Some ino /\ get (names f') 0 = Some ino /\
      content f' ino = content f ino ++ msg.
Proof. exact blocked_write_kept. Qed.
Print Assumptions c19_blocked_write_kept.

(* the configured maxbytes / backups are the handler's, 0 included: backups = 0
   stays 0 and maxbytes = 0 selects the plain FileHandler *)
Theorem c19_config_params :
  forall f mb bk, let h := snd (handle_file f mb bk) in
  h_maxbytes h = mb /\ h_backups h = bk /\ h_rotating h = negb (mb =? 0).
Proof. exact config_params. Qed.
Print Assumptions c19_config_params.

Theorem c19_config_zero_stays_zero : forall dflt, effective dflt (Some 0) = 0.
Proof. exact config_zero_stays_zero. Qed.
Print Assumptions c19_config_zero_stays_zero.

(* Known finding C19-shared: two handlers on one path (maxbytes 10, backups 2,
   alternating 4-byte writes) leave a backup shorter than maxbytes and a
   concatenation that is not a suffix of what was written *)
Theorem c19_shared_refuted :
  exists ops, shared_bad 10 2 (mrun 2 10 2 ops) (mwritten ops) = true.
Proof. exact shared_refuted. Qed.
Print Assumptions c19_shared_refuted.

Theorem c19_shared_not_suffix :
  forall f hs, mrun 2 10 2 shared_ops = MOk f hs ->
  ~ exists D, mwritten shared_ops = D ++ concat_files f 2.
Proof. exact shared_not_suffix. Qed.
Print Assumptions c19_shared_not_suffix.
