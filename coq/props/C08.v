(* C08 - Capture mode extracts exactly what is between the tags.
   Property theorems only.  Model: SV.C08.Stream (POutputDispatcher,
   find_prefix_at_end, BoundIO), tokens from SV.C08.Gen_tokens (generated from
   supervisor/events.py on every run).  `feed`/`run`/`ref` are the model and the
   reference splitter instantiated with those tokens and strip_ansi off
   (SV.C08.Instance).  `observe` turns the effects of a run into (bytes logged,
   enclosed bytes of each closed section, bytes of an unterminated section). *)
From Coq Require Import ZArith List Bool Lia.
Import ListNotations.
Require Import SV.Common SV.C08.Gen_tokens SV.C08.Stream SV.C08.StreamProofs SV.C08.CaptureProofs SV.C08.Instance.

(* Refinement, continuation form: after any sequence of reads, what was emitted
   followed by the reference division of (held-back buffer ++ whatever comes
   next) is the reference division of the whole unfragmented stream. *)
Theorem c08_refines : forall capmax, capmax <> 0%Z -> forall frags rest,
  exists s out, feed capmax init_d frags = Ok s out /\
    equiv (map sym_of out ++ ref (capmode s) (buf s ++ rest)) (ref false (concat frags ++ rest)).
Proof. exact refines. Qed.
Print Assumptions c08_refines.

(* All reads followed by the final flush at reap time: logged bytes, closed
   sections and the unterminated section are those of the reference splitter on
   the unfragmented stream; nothing stays in the buffer. *)
Theorem c08_refines_run : forall capmax, capmax <> 0%Z -> forall frags,
  exists s out, run capmax frags = Ok s out /\
    observe out = ref_observation (concat frags) /\ buf s = [].
Proof. exact refines_run. Qed.
Print Assumptions c08_refines_run.

Theorem c08_frag_invariant : forall capmax, capmax <> 0%Z -> forall f1 f2, concat f1 = concat f2 ->
  exists s1 o1 s2 o2, run capmax f1 = Ok s1 o1 /\ run capmax f2 = Ok s2 o2 /\ observe o1 = observe o2.
Proof. exact frag_inv. Qed.
Print Assumptions c08_frag_invariant.

(* Key lemma (DESIGN Appendix B), for arbitrary tokens: if the token does not
   occur in `data`, then cutting `data` where find_prefix_at_end says loses no
   occurrence of the token in `data ++ X`, whatever X is. *)
Theorem c08_holdback_complete : forall t data, split_tok t data = None ->
  let n := length data - find_prefix_at_end data t in
  forall X, split_tok t (firstn n data ++ skipn n data ++ X) =
            lift (firstn n data) (split_tok t (skipn n data ++ X)).
Proof. exact holdback_complete. Qed.
Print Assumptions c08_holdback_complete.

(* what find_prefix_at_end holds back is a proper prefix of the token *)
Theorem c08_holdback_prefix : forall t data,
  let k := find_prefix_at_end data t in
  k <= length t - 1 /\ k <= length data /\ skipn (length data - k) data = firstn k t.
Proof. exact holdback_is_prefix. Qed.
Print Assumptions c08_holdback_prefix.

Theorem c08_holdback_short : forall capmax, capmax <> 0%Z -> forall frags s out,
  feed capmax init_d frags = Ok s out -> length (buf s) <= length (awaited (capmode s)).
Proof. exact held_back_short. Qed.
Print Assumptions c08_holdback_short.

Theorem c08_one_event_per_section : forall capmax, capmax <> 0%Z -> forall frags s out,
  run capmax frags = Ok s out ->
  length (eff_comms out) = length (o_closed (ref_observation (concat frags))).
Proof. exact one_event_per_section. Qed.
Print Assumptions c08_one_event_per_section.

Theorem c08_excluded_from_log : forall capmax, capmax <> 0%Z -> forall frags s out,
  run capmax frags = Ok s out -> eff_logfile idtr out = o_log (ref_observation (concat frags)).
Proof. exact excluded_from_log. Qed.
Print Assumptions c08_excluded_from_log.

(* event data: a suffix of the enclosed bytes, at most capture_maxbytes long,
   and all of them when they fit *)
Theorem c08_bound : forall capmax, (0 < capmax)%Z -> forall frags s out,
  run capmax frags = Ok s out ->
  Forall2 (event_ok capmax) (o_closed (ref_observation (concat frags))) (eff_comms out).
Proof. exact event_bound. Qed.
Print Assumptions c08_bound.

Theorem c08_capmax_zero : forall frags,
  exists s, feed 0 init_d frags = Ok s (map Log (nonempty frags)) /\ buf s = [] /\ capmode s = false.
Proof. exact capture_off. Qed.
Print Assumptions c08_capmax_zero.

(* the model's recursion fuel (buffer length + 2) always suffices *)
Theorem c08_fuel_sufficient : forall capmax frags, run capmax frags <> Crash.
Proof. exact never_crashes. Qed.
Print Assumptions c08_fuel_sufficient.

(* the reference splitter is the leftmost parse: each piece ends at the first
   occurrence of the awaited tag *)
Theorem c08_reference_is_leftmost_parse : forall m s, parses BT ET m s (ref m s).
Proof. exact ref_is_leftmost_parse. Qed.
Print Assumptions c08_reference_is_leftmost_parse.

(* the tags are the documented ones (docs/logging.rst): "<!--XSUPERVISOR:BEGIN-->"
   and "<!--XSUPERVISOR:END-->" *)
Theorem c08_tokens_documented :
  begin_token = [60; 33; 45; 45; 88; 83; 85; 80; 69; 82; 86; 73; 83; 79; 82; 58; 66; 69; 71; 73; 78; 45; 45; 62]%Z /\
  end_token = [60; 33; 45; 45; 88; 83; 85; 80; 69; 82; 86; 73; 83; 79; 82; 58; 69; 78; 68; 45; 45; 62]%Z.
Proof. split; reflexivity. Qed.
Print Assumptions c08_tokens_documented.
