(* C06 - The main loop survives anything its children, listeners or the kernel do.
   What is proved: the lifecycle model (state machine, reaper, signal handling, RPC layer,
   kernel oracles incl. fork/pipe/kill failures and EPERM) never crashes - none of the
   _assertInState assertions can fire and every pass runs to completion - for every
   configuration, script and oracle; the loop ends only through ExitNow after a shutdown or
   restart request.  After any history the reaper still waits for every dead child (first 100
   per pass, oldest first), EXITED processes are restarted iff their policy says so and live
   processes are stoppable (Life/Service.v).  Output parsing (capture scanner, listener protocol) has its own
   fuel/no-crash theorems under C08/C10.  Exceptions from Python sites that are not modelled
   are reached only by the correspondence (any exception escaping the real main loop in the
   harness is a violation). *)
From Coq Require Import ZArith List Bool.
Import ListNotations.
Require Import SV.Life.Model SV.Life.Inv SV.Life.InvRun SV.Life.Shutdown SV.Life.Service.
Require Import SV.Life.Poller SV.Life.PollerProofs.
Open Scope Z_scope.

Theorem c06_model_never_crashes :
  forall U pconfs gconfs ops, crashed (Model.run U pconfs gconfs ops) = false.
Proof. exact run_never_crashes. Qed.
Print Assumptions c06_model_never_crashes.

Theorem c06_every_pass_completes :
  forall U pconfs gconfs ops o,
    fst (Model.do_pass U pconfs gconfs o (Model.run U pconfs gconfs ops)) = Some tt.
Proof. exact pass_never_crashes. Qed.
Print Assumptions c06_every_pass_completes.

Theorem c06_invariant_everywhere :
  forall U pconfs gconfs ops, Inv (Model.run U pconfs gconfs ops).
Proof. exact inv_run. Qed.
Print Assumptions c06_invariant_everywhere.

(* the loop ends only through a shutdown or restart request *)
Theorem c06_exit_only_on_request :
  forall U pconfs gconfs ops,
    let w := Model.run U pconfs gconfs ops in exited w = true -> mood w < 1.
Proof. exact exit_only_on_request. Qed.
Print Assumptions c06_exit_only_on_request.

(* "After any such disturbance every other process is still monitored": at the reap point of every
   pass of every run the reaper waits for the first 100 dead children, oldest first, leaves live
   children alone, and the pass completes (pre_reap; reap_all; post_reap is the pass) *)
Theorem c06_reaper_services_every_pass :
  forall U pconfs gconfs ops o,
    let w := Model.run U pconfs gconfs ops in
    exists w1 w2 w3,
      pre_reap U pconfs gconfs o w = (Some tt, w1) /\ Model.reap_all U pconfs w1 = (Some tt, w2) /\
      post_reap U pconfs gconfs w2 = (Some tt, w3) /\
      Model.do_pass U pconfs gconfs o w = (Some tt, w3) /\
      zombies w2 = skipn 100 (zombies w1) /\ live w2 = live w1 /\
      waits (out w2) = rev (firstn 100 (zombies w1)) ++ waits (out w1).
Proof. exact run_reap_point. Qed.
Print Assumptions c06_reaper_services_every_pass.

(* no death stays unnoticed: with at most 100 dead children at the reap point, no zombie is left
   after it and every process that still has a pid has a live child *)
Theorem c06_no_death_unnoticed :
  forall U pconfs gconfs ops o,
    let w := Model.run U pconfs gconfs ops in
    exists w1 w2,
      pre_reap U pconfs gconfs o w = (Some tt, w1) /\ Model.reap_all U pconfs w1 = (Some tt, w2) /\
      ((length (zombies w1) <= 100)%nat ->
         zombies w2 = [] /\
         waits (out w2) = rev (zombies w1) ++ waits (out w1) /\
         forall j, pid (procs w2 j) <> 0 -> In (pid (procs w2 j)) (live w2)).
Proof. exact run_all_noticed. Qed.
Print Assumptions c06_no_death_unnoticed.

(* "restarted according to its policy", after any history *)
Theorem c06_still_restarted_by_policy :
  forall U pconfs gconfs ops i,
    let w := Model.run U pconfs gconfs ops in
    sts w i = EXITED -> mood w >= 1 ->
    exists w', Model.transition U pconfs i w = (Some tt, w') /\
      ((exists l x e, out w' = l ++ EState i EXITED STARTING x e :: out w) <->
       should_restart (Model.cf pconfs i) (exitstatus (procs w i)) = true).
Proof. exact run_exited_restarted_by_policy. Qed.
Print Assumptions c06_still_restarted_by_policy.

(* "and stoppable", after any history *)
Theorem c06_still_stoppable :
  forall U pconfs gconfs ops i,
    let w := Model.run U pconfs gconfs ops in
    sts w i = RUNNING \/ sts w i = STARTING ->
    exists b w', Model.stop U pconfs i w = (Some b, w') /\
      let pd := pid (procs w i) in
      let tg := kill_target (Model.cf pconfs i) (sts w i) pd in
      Z.abs tg = pd /\
      exists r, (r = 0 \/ r = 1 \/ r = 2) /\ b = (r =? 2) /\
        out w' = (if r =? 2 then [EState i STOPPING UNKNOWN 0 true] else []) ++
                 EKill tg (c_stopsignal (Model.cf pconfs i)) r :: EState i (sts w i) STOPPING pd true :: out w /\
        sts w' i = (if r =? 2 then UNKNOWN else STOPPING).
Proof. exact run_still_stoppable. Qed.
Print Assumptions c06_still_stoppable.

(* non-vacuity of the reap point: two children and an unknown child die in one pass; all three are waited for, in order *)
Example c06_reap_example :
  let pc := [mkConf 1 0 2 15 999 true ARUnexpected [0] false false CmdOk 0%nat;
             mkConf 1 0 2 15 999 true ARUnexpected [0] false false CmdOk 0%nat] in
  let gc := [mkG 999 [0%nat; 1%nat]] in
  let w := Model.run 2 pc gc [mkPass 10 [] [] []; mkPass 14 [] [] []] in
  let o := mkPass 18 [AExit 0%nat 1; AUnknown 9; AExit 0%nat 0] [] [] in
  let w1 := snd (pre_reap 2 pc gc o w) in
  let w2 := snd (Model.reap_all 2 pc w1) in
  live w = [1000; 1001] /\ fst (pre_reap 2 pc gc o w) = Some tt /\ fst (Model.reap_all 2 pc w1) = Some tt /\
  zombies w1 = [(1000, 256); (1002, 9); (1001, 0)] /\ zombies w2 = [] /\
  waits (out w2) = [(1001, 0); (1002, 9); (1000, 256)].
Proof. vm_compute. repeat split; reflexivity. Qed.

(* ---- the readiness layer (supervisor/poller.py; model SV.Life.Poller, compared with the real PollPoller and
   SelectPoller on every run).  An interrupted poll()/select() is an empty answer, not an error; select()'s EBADF
   forgets every descriptor and is an empty answer too *)
Theorem c06_poll_interrupted_is_not_an_error :
  forall s,
    poll_step s (Poll (KErr EINTR)) = (s, OReady [] []) /\
    select_step s (Poll (KErr EINTR)) = (s, OReady [] []) /\
    select_step s (Poll (KErr EBADF)) = (mkP (reg s) [] [], OReady [] []).
Proof. exact interrupted_is_not_an_error. Qed.
Print Assumptions c06_poll_interrupted_is_not_an_error.

(* whatever the kernel reports about registered descriptors (each at most once), poll() answers *)
Theorem c06_poll_total :
  forall s l, NoDup (map fst l) -> (forall fd m, In (fd, m) l -> registered fd s = true) ->
    exists s' r w, poll_step s (Poll (KEvents l)) = (s', OReady r w).
Proof. exact poll_total. Qed.
Print Assumptions c06_poll_total.

(* a closed descriptor (POLLNVAL) is dropped from the kernel registry and from both sets: it is not polled
   for ever; and every descriptor returned was reported with a matching event *)
Theorem c06_poll_drops_invalid :
  forall s l s' r w fd m,
    poll_step s (Poll (KEvents l)) = (s', OReady r w) -> In (fd, m) l -> has m POLLNVAL = true ->
    registered fd s' = false /\ mem fd (rs s') = false /\ mem fd (ws s') = false.
Proof. exact poll_drops_invalid. Qed.
Print Assumptions c06_poll_drops_invalid.

Theorem c06_poll_sound :
  forall s l s' r w,
    poll_step s (Poll (KEvents l)) = (s', OReady r w) ->
    (forall fd, In fd r -> exists m, In (fd, m) l /\ has m READ = true /\ has m POLLNVAL = false) /\
    (forall fd, In fd w -> exists m, In (fd, m) l /\ has m WRITE = true /\ has m POLLNVAL = false).
Proof. exact poll_sound. Qed.
Print Assumptions c06_poll_sound.

(* after any sequence of poller operations the kernel registry and the two Python sets are in step *)
Theorem c06_poller_registry_in_step :
  forall ops, Sync (fst (runp poll_step p0 ops)).
Proof. exact run_sync. Qed.
Print Assumptions c06_poller_registry_in_step.

(* KQueuePoller (driven over a scripted select.kqueue): EINTR is an empty answer, EBADF on (un)registration is
   tolerated while the sets follow the request, and after daemonizing exactly the descriptors of the two sets are
   registered again, each with its own filter *)
Theorem c06_kqueue_poller :
  forall s,
    kq_step s (KPoll (KErr EINTR)) = (s, OReady [] []) /\
    (forall fd, kq_step s (KRegR fd EBADF) = (mkP (reg s) (add fd (rs s)) (ws s), ODone)) /\
    (forall fd flt, pmem (fd, flt) (reg (fst (kq_step s KDaemonize))) =
                    (mem fd (rs s) && (flt =? KQ_READ)) || (mem fd (ws s) && (flt =? KQ_WRITE))).
Proof. exact kq_all. Qed.
Print Assumptions c06_kqueue_poller.

Theorem c06_kqueue_poll_sound :
  forall s l s' r w,
    kq_step s (KPoll (KEvents l)) = (s', OReady r w) ->
    s' = s /\ (forall fd, In fd r -> In (fd, KQ_READ) l) /\ (forall fd, In fd w -> In (fd, KQ_WRITE) l).
Proof. exact kq_poll_sound. Qed.
Print Assumptions c06_kqueue_poll_sound.

(* non-vacuity: EPERM on kill, fork failure and an unknown child in one run *)
Example c06_example :
  let w := Model.run 2 [mkConf 1 1 2 15 999 true ARUnexpected [0] false false CmdOk 0%nat] [mkG 999 [0%nat]]
                     [mkPass 10 [] [3] []; mkPass 14 [AUnknown 9] [] []; mkPass 18 [ARpc 1 (RStop 0%nat false)] [] [2];
                      mkPass 20 [AExit 0%nat 1] [] []; mkPass 22 [] [] []] in
  crashed w = false /\ sts w 0%nat = UNKNOWN /\ pid (procs w 0%nat) = 0.
Proof. vm_compute. repeat split; reflexivity. Qed.
