(* C06 - The main loop survives anything its children, listeners or the kernel do.
   What is proved: the lifecycle model (state machine, reaper, signal handling, RPC layer,
   kernel oracles incl. fork/pipe/kill failures and EPERM) never crashes - none of the
   _assertInState assertions can fire and every pass runs to completion - for every
   configuration, script and oracle; the loop ends only through ExitNow after a shutdown or
   restart request.  Output parsing (capture scanner, listener protocol) has its own
   fuel/no-crash theorems under C08/C10.  Exceptions from Python sites that are not modelled
   are reached only by the correspondence (any exception escaping the real main loop in the
   harness is a violation). *)
From Coq Require Import ZArith List Bool.
Import ListNotations.
Require Import SV.Life.Model SV.Life.Inv SV.Life.InvRun SV.Life.Shutdown.
Open Scope Z_scope.

Theorem c06_model_never_crashes :
  forall U pconfs gconfs ops, crashed (Model.run U pconfs gconfs ops) = false.
Proof. exact run_never_crashes. Qed.
Print Assumptions c06_model_never_crashes.

Theorem c06_every_pass_completes :
  forall U pconfs gconfs ops o,
    fst (Model.do_pass U pconfs gconfs o (Model.run U pconfs gconfs ops)) = Some tt.
Proof. exact pass_never_crashes. Qed.
Print Assumptions c06_every_pass_completes.

Theorem c06_invariant_everywhere :
  forall U pconfs gconfs ops, Inv (Model.run U pconfs gconfs ops).
Proof. exact inv_run. Qed.
Print Assumptions c06_invariant_everywhere.

(* the loop ends only through a shutdown or restart request *)
Theorem c06_exit_only_on_request :
  forall U pconfs gconfs ops,
    let w := Model.run U pconfs gconfs ops in exited w = true -> mood w < 1.
Proof. exact exit_only_on_request. Qed.
Print Assumptions c06_exit_only_on_request.

(* non-vacuity: EPERM on kill, fork failure and an unknown child in one run *)
Example c06_example :
  let w := Model.run 2 [mkConf 1 1 2 15 999 true ARUnexpected [0] false false CmdOk 0%nat] [mkG 999 [0%nat]]
                     [mkPass 10 [] [3] []; mkPass 14 [AUnknown 9] [] []; mkPass 18 [ARpc 1 (RStop 0%nat false)] [] [2];
                      mkPass 20 [AExit 0%nat 1] [] []; mkPass 22 [] [] []] in
  crashed w = false /\ sts w 0%nat = UNKNOWN /\ pid (procs w 0%nat) = 0.
Proof. vm_compute. repeat split; reflexivity. Qed.
