(* C16 - Log retrieval returns exactly the requested bytes.
   Property theorems only; each is closed by `exact <lemma>` and followed by
   Print Assumptions.  Models: SV.C16.LogRead (readFile/tailFile and the RPC
   layer).  *)
From Coq Require Import ZArith List Bool Lia.
Import ListNotations.
Require Import SV.C16.LogRead SV.C16.LogReadProofs.
Open Scope Z_scope.

(* readLog / readProcess*Log(offset, length), for every content and all Z arguments *)
Theorem c16_read_window :
  forall c off len, 0 <= off -> 0 < len ->
  exists d, read_file c off len = RData d /\
            window c d off (Z.max 0 (Z.min (off + len) (zlen c) - Z.min off (zlen c))).
Proof. exact read_pos_len. Qed.
Print Assumptions c16_read_window.

Theorem c16_read_to_end :
  forall c off, 0 <= off ->
  exists d, read_file c off 0 = RData d /\ window c d off (Z.max 0 (zlen c - off)).
Proof. exact read_pos_zero. Qed.
Print Assumptions c16_read_to_end.

Theorem c16_read_last_bytes :
  forall c off, off < 0 ->
  exists d, read_file c off 0 = RData d /\
            window c d (Z.max 0 (zlen c + off)) (Z.min (- off) (zlen c)).
Proof. exact read_neg_zero. Qed.
Print Assumptions c16_read_last_bytes.

Theorem c16_read_bad_arguments :
  forall c off len, (off < 0 /\ len <> 0) \/ (0 <= off /\ len < 0) ->
  read_file c off len = RBadArgs.
Proof. exact read_bad_args. Qed.
Print Assumptions c16_read_bad_arguments.

(* tailProcess*Log(offset, length) *)
Theorem c16_tail_offset_overflow :
  forall c off len,
  let '(_, o, v) := tail_file c off len in
  o = zlen c /\ (v = true <-> zlen c > off + len).
Proof. exact tail_offset_overflow. Qed.
Print Assumptions c16_tail_offset_overflow.

Theorem c16_tail_data :
  forall c off len, 0 <= off -> 0 <= len ->
  let '(d, _, _) := tail_file c off len in
  if off >=? zlen c then d = []
  else window c d (zlen c - Z.min len (zlen c)) (Z.min len (zlen c)).
Proof. exact tail_data. Qed.
Print Assumptions c16_tail_data.

Theorem c16_tail_total :
  forall c off len,
  let '(d, _, _) := tail_file c off len in
  exists n, 0 <= n <= zlen c /\ window c d (zlen c - n) n.
Proof. exact tail_total. Qed.
Print Assumptions c16_tail_total.
