(* C17 - with authentication configured, no request is served without valid
   credentials.  Statements only; proofs are in SV.C17.AuthProofs. *)
From Coq Require Import ZArith List Bool.
Import ListNotations.
Require Import SV.C17.Gen_http SV.C17.Auth SV.C17.AuthProofs.
Open Scope Z_scope.

(* every handler make_http_servers installs is rebound to
   supervisor_auth_handler(users, handler) when a username is configured
   (table regenerated from the AST of /repo on every run) *)
Theorem c17_all_wrapped : Forall (fun nw => snd nw = true) installed_handlers.
Proof. exact installed_all_wrapped. Qed.
Print Assumptions c17_all_wrapped.

(* for every decoder, hash, configured (non-empty) user and stored password,
   every request block and every answer of the handlers' match():
   a Serve decision implies that the request presents, in a Basic Authorization
   line, exactly the configured user and an acceptable password *)
Theorem c17_no_serve_without_auth :
  forall (b64decode : str -> option str) (sha1hex : str -> str) (user stored : str),
  user <> [] ->
  forall text ms h,
    fst (channel b64decode sha1hex user stored text ms) = Serve h ->
    exists r u p, parse_block text = PReq r /\ presents b64decode (r_header r) u p /\
                  u = user /\ (p = stored \/ stored = sha_prefix ++ sha1hex p).
Proof. exact no_serve_without_auth_plain. Qed.
Print Assumptions c17_no_serve_without_auth.

(* the same with the exact acceptance condition: a stored entry that starts
   with {SHA} is compared as a digest only, never as a plain password *)
Theorem c17_no_serve_without_auth_exact :
  forall (b64decode : str -> option str) (sha1hex : str -> str) (user stored : str),
  user <> [] ->
  forall text ms h,
    fst (channel b64decode sha1hex user stored text ms) = Serve h ->
    exists r u p, parse_block text = PReq r /\ presents b64decode (r_header r) u p /\
                  u = user /\ password_ok sha1hex stored p.
Proof. exact no_serve_without_auth. Qed.
Print Assumptions c17_no_serve_without_auth_exact.

(* the inner handler is invoked in a Serve decision and in no other *)
Theorem c17_refusal_has_no_effect :
  forall (b64decode : str -> option str) (sha1hex : str -> str) (user stored : str),
  user <> [] ->
  forall text ms,
    match fst (channel b64decode sha1hex user stored text ms) with
    | Serve h => snd (channel b64decode sha1hex user stored text ms) = [Invoked h]
    | _ => snd (channel b64decode sha1hex user stored text ms) = []
    end.
Proof. exact refusal_has_no_effect. Qed.
Print Assumptions c17_refusal_has_no_effect.

(* any invocation of an inner handler was preceded by valid credentials *)
Theorem c17_effect_requires_auth :
  forall (b64decode : str -> option str) (sha1hex : str -> str) (user stored : str),
  user <> [] ->
  forall text ms e,
    In e (snd (channel b64decode sha1hex user stored text ms)) ->
    exists r u p, parse_block text = PReq r /\ presents b64decode (r_header r) u p /\
                  u = user /\ password_ok sha1hex stored p.
Proof. exact effect_requires_auth. Qed.
Print Assumptions c17_effect_requires_auth.

(* right credentials are served by the first handler whose match() is true *)
Theorem c17_good_credentials_served :
  forall (b64decode : str -> option str) (sha1hex : str -> str) (user stored : str),
  user <> [] -> ~ In 58 user ->
  forall text r scheme cookie p k rest,
    parse_block text = PReq r ->
    first_auth (r_header r) = Some (scheme, cookie) ->
    ci_equal scheme_literal scheme = true ->
    b64decode cookie = Some (user ++ 58 :: p) ->
    password_ok sha1hex stored p ->
    (k < length installed_handlers)%nat ->
    channel b64decode sha1hex user stored text (repeat MFalse k ++ MTrue :: rest)
    = (Serve k, [Invoked k]).
Proof. exact good_credentials_served. Qed.
Print Assumptions c17_good_credentials_served.

(* absent header, other scheme, undecodable base64, missing colon, empty user,
   wrong user or password: each lands in the stated refusal, with no effect *)
Theorem c17_malformed_refused :
  forall (b64decode : str -> option str) (sha1hex : str -> str) (user stored : str),
  user <> [] ->
  forall text r d k rest,
    parse_block text = PReq r ->
    malformed b64decode sha1hex user stored (r_header r) d ->
    (k < length installed_handlers)%nat ->
    channel b64decode sha1hex user stored text (repeat MFalse k ++ MTrue :: rest) = (d, []) /\
    (d = Refuse401 \/ d = Error400 \/ d = Error500).
Proof. exact malformed_refused. Qed.
Print Assumptions c17_malformed_refused.

(* KNOWN FINDING C17-colon-user: the hypothesis ~ In 58 user of
   c17_good_credentials_served cannot be dropped - a configured username with a
   colon is refused even with the right credentials (the decoded credential is
   split at its first colon) *)
Theorem c17_good_credentials_colon_user_refuted :
  exists (b64decode : str -> option str) (sha1hex : str -> str) user stored p cookie,
    user <> [] /\ In 58 user /\ password_ok sha1hex stored p /\
    b64decode cookie = Some (user ++ 58 :: p) /\
    first_auth [[97; 117; 116; 104; 111; 114; 73; 122; 97; 116; 105; 111; 110; 58; 32; 66; 97; 83; 105; 67; 32] ++ cookie]
      = Some ([66; 97; 83; 105; 67], cookie) /\
    channel b64decode sha1hex user stored (ex_block cookie) [MTrue] = (Refuse401, []).
Proof. exists ex_b64, ex_sha. exact colon_user_refuted. Qed.
Print Assumptions c17_good_credentials_colon_user_refuted.

(* the handler consulted last claims every request (generated from the AST of
   medusa default_handler.match), so a dispatched request always meets an
   authentication wrapper and is never answered by the bare 404 *)
Theorem c17_catch_all_last : catch_all_last = true.
Proof. reflexivity. Qed.
Print Assumptions c17_catch_all_last.

Theorem c17_never_404_behind_catch_all :
  forall (b64decode : str -> option str) (sha1hex : str -> str) (user stored : str) text r ms,
    parse_block text = PReq r ->
    nth (length installed_handlers - 1) ms MFalse = MTrue ->
    fst (channel b64decode sha1hex user stored text ms) <> Error404.
Proof. exact never_404_behind_catch_all. Qed.
Print Assumptions c17_never_404_behind_catch_all.
