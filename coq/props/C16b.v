(* C16, streaming half: /logtail and /mainlogtail streams and the chunked
   coding.  Statements only; proofs are in SV.C16.StreamProofs. *)
From Coq Require Import ZArith List Bool.
Import ListNotations.
Require Import SV.C16.TailF SV.C16.Chunked SV.C16.StreamProofs SV.C16.Channel SV.C16.ChannelProofs.
Require Import SV.C16.LogRead SV.C16.RpcFiles SV.C16.RpcFilesProofs.
Open Scope Z_scope.

(* While the followed file stays the same file and only grows, a producer that
   has caught up delivers exactly the appended bytes: in order, nothing twice,
   nothing lost, no truncation notice - for every history. *)
Theorem c16_tailf_stream :
  forall i c h apps p,
    grows i c h apps -> ino p = i -> sz p = zlen c ->
    delivered (run h p) = concat apps /\ ~ In Notice (run h p).
Proof. exact tailf_stream. Qed.
Print Assumptions c16_tailf_stream.

(* The same from any offset, as an invariant: delivered ++ still-to-come =
   everything after the offset; after one poll nothing is still to come. *)
Theorem c16_tailf_stream_from :
  forall i c h apps, grows i c h apps ->
  forall p, ino p = i -> 0 <= sz p <= zlen c ->
    delivered (run h p) ++ skipn (Z.to_nat (sz (final h p))) (c ++ concat apps)
      = skipn (Z.to_nat (sz p)) (c ++ concat apps) /\
    ~ In Notice (run h p) /\ ino (final h p) = i /\
    0 <= sz (final h p) <= zlen (c ++ concat apps) /\
    (h <> [] -> sz (final h p) = zlen (c ++ concat apps)).
Proof. exact tailf_stream_from. Qed.
Print Assumptions c16_tailf_stream_from.

(* the initial tail: the last min(head, size) bytes, then the appended bytes *)
Theorem c16_tailf_initial :
  forall i c head h apps, 0 <= head -> grows i c h apps -> h <> [] ->
    delivered (run h (init i c head)) =
    skipn (Z.to_nat (zlen c - Z.min head (zlen c))) c ++ concat apps.
Proof. exact tailf_initial. Qed.
Print Assumptions c16_tailf_initial.

(* rotation / clear (the path names a new inode): restart from offset 0 of the
   new file, then every byte of it *)
Theorem c16_tailf_rotation :
  forall j fs p c h apps,
    path_ino fs = Some j -> j <> ino p -> content fs j = c -> grows j c h apps ->
    delivered (run (fs :: h) p) = c ++ concat apps /\ ~ In Notice (run (fs :: h) p).
Proof. exact tailf_rotation. Qed.
Print Assumptions c16_tailf_rotation.

(* truncation seen by a poll: the notice, then the content from offset 0 *)
Theorem c16_tailf_truncation :
  forall i fs p c h apps,
    same_file i fs -> ino p = i -> content fs i = c -> zlen c < sz p ->
    grows i c h apps -> h <> [] ->
    delivered (run (fs :: h) p) = notice_text ++ c ++ concat apps /\
    run (fs :: h) p = Notice :: run h {| ino := i; sz := 0 |}.
Proof. exact tailf_truncation. Qed.
Print Assumptions c16_tailf_truncation.

(* CANDIDATE FINDINGS (what the stream law does not cover, with witnesses) *)
Theorem c16_tailf_truncate_regrow_refuted :
  exists p fs, ino p = 1 /\ sz p = 3 /\ same_file 1 fs /\
    content fs 1 = [120; 121; 122; 119] /\ run [fs; fs] p = [Data [119]; NotDone].
Proof. exact tailf_truncate_regrow_refuted. Qed.
Print Assumptions c16_tailf_truncate_regrow_refuted.

Theorem c16_tailf_rotation_loses_tail_refuted :
  exists p fs, ino p = 1 /\ sz p = 3 /\ path_ino fs = Some 2 /\
    content fs 1 = [97; 98; 99; 100; 101; 102] /\ content fs 2 = [] /\
    run [fs; fs] p = [NotDone; NotDone] /\ final [fs; fs] p = {| ino := 2; sz := 0 |}.
Proof. exact tailf_rotation_loses_tail_refuted. Qed.
Print Assumptions c16_tailf_rotation_loses_tail_refuted.

(* hex length line: printer / parser round trip *)
Theorem c16_hex_roundtrip : forall n, 0 <= n -> parse_size (print_hex n) = Some n.
Proof. exact parse_size_print. Qed.
Print Assumptions c16_hex_roundtrip.

(* round trip of the coding on the unsegmented stream (byte-wise machine) *)
Theorem c16_chunk_roundtrip_bytewise :
  forall chunks, Forall (fun d => d <> []) chunks ->
    received (bfeed init_state (encode chunks)) = concat chunks /\
    fed (bfeed init_state (encode chunks)) = chunks /\
    received (bfeed init_state (encode_open chunks)) = concat chunks.
Proof. exact roundtrip_bytewise. Qed.
Print Assumptions c16_chunk_roundtrip_bytewise.

(* the real read loop (async_chat.handle_read, buffer-wise, with find and
   prefix handling) computes the byte-wise machine, for every state reachable
   between reads and every received segment *)
Theorem c16_decoder_bytewise :
  forall s data, wfs s -> hr s data = bfeed s data.
Proof. exact hr_bytewise. Qed.
Print Assumptions c16_decoder_bytewise.

(* decoder fragmentation invariance *)
Theorem c16_decoder_fragmentation :
  forall s a b, wfs s -> hr (hr s a) b = hr s (a ++ b).
Proof. exact hr_fragmentation. Qed.
Print Assumptions c16_decoder_fragmentation.

Theorem c16_client_segmentation_independent :
  forall segs segs', concat segs = concat segs' -> client_feed segs = client_feed segs'.
Proof. exact client_feed_segmentation. Qed.
Print Assumptions c16_client_segmentation_independent.

(* the round trip under ANY segmentation *)
Theorem c16_chunk_roundtrip :
  forall chunks segs,
    Forall (fun d => d <> []) chunks ->
    concat segs = encode chunks ->
    received (client_feed segs) = concat chunks /\ fed (client_feed segs) = chunks.
Proof. exact chunk_roundtrip. Qed.
Print Assumptions c16_chunk_roundtrip.

(* the same for the stream that stays open, as the tail handlers produce it *)
Theorem c16_chunk_roundtrip_open :
  forall chunks segs,
    Forall (fun d => d <> []) chunks ->
    concat segs = encode_open chunks ->
    received (client_feed segs) = concat chunks /\ fed (client_feed segs) = chunks.
Proof. exact chunk_roundtrip_open. Qed.
Print Assumptions c16_chunk_roundtrip_open.

(* tail producer -> producer chain -> network fragmentation -> bundled client:
   the client receives exactly what the producer delivered *)
Theorem c16_stream_end_to_end :
  forall outs segs,
    (forall b, In (Data b) outs -> b <> []) ->
    concat segs = concat (map chain_step outs) ->
    received (client_feed segs) = delivered outs.
Proof. exact stream_end_to_end. Qed.
Print Assumptions c16_stream_end_to_end.

Theorem c16_tail_data_nonempty :
  forall fs p p' b, 0 <= sz p -> more fs p = (p', Data b) -> b <> [].
Proof. exact more_data_nonempty. Qed.
Print Assumptions c16_tail_data_nonempty.

(* ---- the output side of the channel: initiate_send / refill_buffer with a
        socket that accepts any number of bytes per send() ------------------ *)

(* For EVERY schedule of file changes, write events and partial sends:
   accepted bytes ++ waiting output buffer ++ response head not yet handed over
   = response head ++ chunk coding of the tail producer's answers.  Nothing is
   dropped, duplicated or reordered on the way to the socket. *)
Theorem c16_channel_wire :
  forall obs header fs0 p0 ops,
    let st := exec obs ops (chan0 fs0 p0 header) in
    c_wire st ++ c_out st ++ c_hdr st
      = header ++ concat (map chain_step (run (c_pollfs st) p0)) /\
    (c_hdr st <> [] -> c_pollfs st = []).
Proof. exact channel_wire. Qed.
Print Assumptions c16_channel_wire.

Theorem c16_channel_wire_prefix :
  forall obs header fs0 p0 ops,
    let st := exec obs ops (chan0 fs0 p0 header) in
    exists rest, c_wire st ++ rest = header ++ concat (map chain_step (run (c_pollfs st) p0)).
Proof. exact channel_wire_prefix. Qed.
Print Assumptions c16_channel_wire_prefix.

(* drained buffer: the client, under any fragmentation, gets what the tail
   producer delivered *)
Theorem c16_channel_end_to_end :
  forall obs header fs0 p0 ops, 0 <= sz p0 ->
    let st := exec obs ops (chan0 fs0 p0 header) in
    c_out st = [] -> c_hdr st = [] ->
    exists body, c_wire st = header ++ body /\
      forall segs, concat segs = body ->
        received (client_feed segs) = delivered (run (c_pollfs st) p0).
Proof. exact channel_drained_end_to_end. Qed.
Print Assumptions c16_channel_end_to_end.

(* a log that only grows, any interleaving of appends, write events and partial
   sends: after draining, the client has every byte from the initial offset on
   except what was appended after the last poll *)
Theorem c16_channel_stream :
  forall obs header fs0 i c0 head ops c',
    0 <= head -> same_file i fs0 -> content fs0 i = c0 -> ops_grow i c0 ops c' ->
    let p0 := init i c0 head in
    let st := exec obs ops (chan0 fs0 p0 header) in
    c_out st = [] -> c_hdr st = [] -> c_pollfs st <> [] ->
    exists body a polledc,
      c_wire st = header ++ body /\ c' = polledc ++ a /\
      forall segs, concat segs = body ->
        received (client_feed segs) = skipn (Z.to_nat (zlen c0 - Z.min head (zlen c0))) polledc.
Proof. exact channel_stream. Qed.
Print Assumptions c16_channel_stream.

(* ---- channels without a readable log (file-system oracle) ---------------- *)

(* readLog / readProcessStdoutLog / readProcessStderrLog fault NO_FILE exactly
   when no log is configured (None) or the configured name does not exist *)
Theorem c16_read_nofile_iff :
  forall fs cfg off len, rpc_read_fs fs cfg off len = RFault NO_FILE <-> no_log fs cfg.
Proof. exact read_nofile_iff. Qed.
Print Assumptions c16_read_nofile_iff.

Theorem c16_read_with_file :
  forall fs n c off len, fs n = File c -> rpc_read_fs fs (Some n) off len = rpc_read_log (Some c) off len.
Proof. exact read_with_file. Qed.
Print Assumptions c16_read_with_file.

Theorem c16_read_dir_failed :
  forall fs n off len, fs n = Dir -> rpc_read_fs fs (Some n) off len = RFault FAILED.
Proof. exact read_dir_failed. Qed.
Print Assumptions c16_read_dir_failed.

Theorem c16_tail_no_log :
  forall fs cfg off len, no_log fs cfg -> rpc_tail_fs fs cfg off len = TValue [] 0 false.
Proof. exact tail_no_log. Qed.
Print Assumptions c16_tail_no_log.

Theorem c16_tail_with_file :
  forall fs n c off len, fs n = File c -> rpc_tail_fs fs (Some n) off len = rpc_tail_log (Some c) off len.
Proof. exact tail_with_file. Qed.
Print Assumptions c16_tail_with_file.

Theorem c16_clear_nofile_iff :
  forall fs cfg, rpc_clear_main fs cfg = CFault NO_FILE <-> no_log fs cfg.
Proof. exact clear_nofile_iff. Qed.
Print Assumptions c16_clear_nofile_iff.

(* ---- RPC layer on an existing file: every outcome, and the known finding ---- *)
Theorem c16_rpc_read_valid :
  forall c off len d, read_file c off len = RData d -> utf8_valid d = true ->
    rpc_read_log (Some c) off len = RValue d.
Proof. exact rpc_read_valid. Qed.
Print Assumptions c16_rpc_read_valid.

Theorem c16_rpc_read_outcomes :
  forall c off len,
  match rpc_read_log (Some c) off len with
  | RValue d => read_file c off len = RData d /\ utf8_valid d = true
  | RFault f => f = BAD_ARGUMENTS /\ read_file c off len = RBadArgs
  | RUndecodable => exists d, read_file c off len = RData d /\ utf8_valid d = false
  end.
Proof. exact rpc_read_outcomes. Qed.
Print Assumptions c16_rpc_read_outcomes.

Theorem c16_rpc_read_succeeds_refuted :
  exists c off len, rpc_read_log (Some c) off len = RUndecodable.
Proof. exact rpc_read_succeeds_refuted. Qed.
Print Assumptions c16_rpc_read_succeeds_refuted.

Theorem c16_rpc_tail_outcomes :
  forall c off len,
  let '(d, o, v) := tail_file c off len in
  rpc_tail_log (Some c) off len = if utf8_valid d then TValue d o v else TUndecodable.
Proof. exact rpc_tail_outcomes. Qed.
Print Assumptions c16_rpc_tail_outcomes.

(* ---- the response stays open -------------------------------------------- *)
Theorem c16_stream_stays_open :
  forall chunks segs, Forall (fun d => d <> []) chunks -> concat segs = encode_open chunks ->
    client_feed segs = idle chunks.
Proof. exact stream_stays_open. Qed.
Print Assumptions c16_stream_stays_open.

Theorem c16_stream_terminated :
  forall chunks segs, Forall (fun d => d <> []) chunks -> concat segs = encode chunks ->
    pt (client_feed segs) = PTrailer.
Proof. exact stream_terminated. Qed.
Print Assumptions c16_stream_terminated.

(* ---- maintenance (kill_zombies): the stream stays open while it is in use ---- *)
Theorem c16_active_channel_survives :
  forall now tmo last_used, now - last_used <= tmo -> survives now tmo last_used = true.
Proof. exact active_channel_survives. Qed.
Print Assumptions c16_active_channel_survives.

Theorem c16_idle_channel_closed :
  forall now tmo last_used, now - last_used > tmo -> survives now tmo last_used = false.
Proof. exact idle_channel_closed. Qed.
Print Assumptions c16_idle_channel_closed.
