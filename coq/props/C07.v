(* C07 - Child output reaches the right log, complete and in order.
   Property theorems only.  One channel = the C08 dispatcher model (SV.C08.Stream)
   with the tokens and ANSI constants generated from the source; `tr` is what
   _log applies to each chunk (identity, or strip_escapes when strip_ansi);
   log_chunks = the chunks given to the channel's log, in order.  Descriptors and
   routing: SV.C07.Fds.  Several processes: SV.C07.World. *)
From Coq Require Import ZArith List Bool Lia.
Import ListNotations.
Require Import SV.Common SV.C08.Gen_tokens SV.C08.Stream SV.C08.StreamProofs SV.C08.CaptureProofs SV.C08.Instance.
Require Import SV.C07.Strip SV.C07.ChannelProofs SV.C07.Fds SV.C07.FdsProofs SV.C07.Gen_facts SV.C07.World SV.C07.WorldProofs.

(* capture off: after every read each non-empty read has been logged, through
   tr, at once and in order (nothing held back, nothing twice) *)
Theorem c07_plain : forall tr frags,
  exists s, feed_all BT ET 0 tr init_d frags = Ok s (map Log (nonempty frags)) /\
    eff_logfile tr (map Log (nonempty frags)) = concat (map tr (nonempty frags)) /\
    concat (nonempty frags) = concat frags /\ buf s = [].
Proof. exact plain_log. Qed.
Print Assumptions c07_plain.

(* capture on, any strip setting: once the child is reaped (final flush) the
   chunks given to the log concatenate to the stream minus the capture sections *)
Theorem c07_complete_at_eof : forall capmax tr, capmax <> 0%Z -> forall frags,
  exists s out, run_d BT ET capmax tr frags = Ok s out /\
    concat (log_chunks out) = o_log (ref_observation (concat frags)) /\ buf s = [].
Proof. exact complete_at_eof. Qed.
Print Assumptions c07_complete_at_eof.

(* before that, what has been logged is a prefix of it, whatever comes next *)
Theorem c07_logged_is_prefix : forall capmax tr, capmax <> 0%Z -> forall frags rest,
  exists s out, feed_all BT ET capmax tr init_d frags = Ok s out /\
    exists more, o_log (ref_observation (concat frags ++ rest)) = concat (log_chunks out) ++ more.
Proof. exact logged_is_prefix. Qed.
Print Assumptions c07_logged_is_prefix.

Theorem c07_frag_invariant : forall capmax tr, capmax <> 0%Z -> forall f1 f2, concat f1 = concat f2 ->
  exists s1 o1 s2 o2, run_d BT ET capmax tr f1 = Ok s1 o1 /\ run_d BT ET capmax tr f2 = Ok s2 o2 /\
    concat (log_chunks o1) = concat (log_chunks o2).
Proof. exact frag_invariant_log. Qed.
Print Assumptions c07_frag_invariant.

(* the bytes in the file are tr of each chunk *)
Theorem c07_logfile_is_chunks : forall tr l, eff_logfile tr l = concat (map tr (log_chunks l)).
Proof. exact logfile_chunks. Qed.
Print Assumptions c07_logfile_is_chunks.

(* strip_ansi: stripEscapes distributes over a chunk boundary that no escape
   sequence spans ... *)
Theorem c07_strip_compositional : forall a b, spans a b = false ->
  strip_escapes (a ++ b) = strip_escapes a ++ strip_escapes b.
Proof. exact strip_split_ok. Qed.
Print Assumptions c07_strip_compositional.

(* ... and fails to when one does (known finding C07-ansi-split) *)
Theorem c07_ansi_split_refuted : exists a b,
  spans a b = true /\ strip_escapes (a ++ b) <> strip_escapes a ++ strip_escapes b.
Proof. exact ansi_split_refuted. Qed.
Print Assumptions c07_ansi_split_refuted.

(* so, under the negation of the finding's signature, the log is stripEscapes of
   the stream minus the capture sections *)
Theorem c07_strip_log : forall capmax, capmax <> 0%Z -> forall frags s out,
  run_d BT ET capmax strip_escapes frags = Ok s out ->
  clean (log_chunks out) = true ->
  eff_logfile strip_escapes out = strip_escapes (o_log (ref_observation (concat frags))).
Proof. exact strip_log. Qed.
Print Assumptions c07_strip_log.

Theorem c07_plain_strip_log : forall frags, clean (nonempty frags) = true ->
  eff_logfile strip_escapes (map Log (nonempty frags)) = strip_escapes (concat frags).
Proof. exact plain_strip_log. Qed.
Print Assumptions c07_plain_strip_log.

Theorem c07_strip_no_escape_identity : forall s,
  (forall i, is_prefix esc (skipn i s) = false) -> strip_escapes s = s.
Proof. exact strip_no_escape. Qed.
Print Assumptions c07_strip_no_escape_identity.

(* PROCESS_LOG events (outside capture mode) carry the bytes written to the log *)
Theorem c07_process_log_same_bytes : forall tr l, concat (eff_plog tr false l) = eff_logfile tr l.
Proof. exact plog_is_logfile. Qed.
Print Assumptions c07_process_log_same_bytes.

(* descriptor ownership after any history of spawns (ok / fork failure / pipe
   failure), exits and unrelated opens and closes, from any set of descriptors
   open at start *)
Theorem c07_fd_ownership : forall redirect nopen ops, Inv (frun redirect (init_f nopen) ops).
Proof. exact ownership_from_start. Qed.
Print Assumptions c07_fd_ownership.

(* the dispatcher found by the main loop for a descriptor belongs to the process,
   incarnation and channel whose child holds the other end of that pipe *)
Theorem c07_route_owner : forall s n fd q c, Inv s -> route s n fd = Some (q, c) ->
  q < n /\ lookup fd (f_tab s) = Some (OParent q (p_gen (f_procs s q)) c).
Proof. exact route_owner. Qed.
Print Assumptions c07_route_owner.

Theorem c07_route_complete : forall s n p fd c, Inv s -> p < n ->
  In (fd, c) (p_disp (f_procs s p)) -> route s n fd = Some (p, c).
Proof. exact route_complete. Qed.
Print Assumptions c07_route_complete.

Theorem c07_dispatchers_disjoint : forall s p q fd c c', Inv s ->
  In (fd, c) (p_disp (f_procs s p)) -> In (fd, c') (p_disp (f_procs s q)) -> p = q /\ c = c'.
Proof. exact disp_disjoint. Qed.
Print Assumptions c07_dispatchers_disjoint.

Theorem c07_no_child_no_dispatchers : forall s p, Inv s ->
  p_pid (f_procs s p) = 0%Z -> p_disp (f_procs s p) = [].
Proof. exact no_child_no_dispatchers. Qed.
Print Assumptions c07_no_child_no_dispatchers.

(* redirect_stderr: one pipe, so the merged stream is the write order *)
Theorem c07_redirect_one_pipe : forall redirect p g t par chi t',
  redirect p = true -> make_pipes redirect p g 3 t = (par, chi, t', true) ->
  map snd par = [COut; CIn] /\ length chi = 2.
Proof. exact redirect_one_pipe. Qed.
Print Assumptions c07_redirect_one_pipe.

Theorem c07_redirect_merged_in_write_order : forall cfgs strip incap (l : list (chan * bytes)) w p,
  redirect cfgs p = true -> running w p = true -> w_exited w p = false ->
  Forall (fun e => is_out (fst e) = true) l ->
  exists w', wrun cfgs strip incap w (map (fun e => WWrite p (fst e) (snd e)) l) = Some w' /\
    w_pipe w' p COut = w_pipe w p COut ++ concat (map snd l) /\
    w_pipe w' p CErr = w_pipe w p CErr /\
    w_f w' = w_f w /\ w_logs w' = w_logs w /\ w_events w' = w_events w.
Proof. exact redirect_merged_in_write_order. Qed.
Print Assumptions c07_redirect_merged_in_write_order.

(* the ANSI constants are the ones the reference stripper of the check uses:
   ESC [ and the terminators H f A B C D R s u J K h l p m *)
Theorem c07_ansi_constants :
  ansi_escape_begin = [27; 91]%Z /\
  ansi_terminators = [72; 102; 65; 66; 67; 68; 82; 115; 117; 74; 75; 104; 108; 112; 109]%Z.
Proof. split; reflexivity. Qed.
Print Assumptions c07_ansi_constants.

(* reap time (facts generated from ServerOptions.readfd and Subprocess.finish):
   the one read drain() makes per dispatcher returns everything a 64 KiB pipe can
   hold, and it happens before the final flush *)
Theorem c07_drain_reads_whole_pipe : forall b : bytes, (zlen b <= 65536)%Z ->
  firstn (read_take readfd_size b) b = b /\ skipn (read_take readfd_size b) b = [].
Proof. exact drain_reads_whole_pipe. Qed.
Print Assumptions c07_drain_reads_whole_pipe.

Theorem c07_finish_drains_before_flush : finish_drain_first = true.
Proof. exact finish_drains_before_flush. Qed.
Print Assumptions c07_finish_drains_before_flush.
