(* C12 - types shared by the generated tables (Gen_rpc.v) and the model (Rpc.v). *)
From Coq Require Import ZArith List Bool String Ascii.
Import ListNotations.

(* What `getattr(obj, name)` returned, as far as traverse() can tell things
   apart: types.MethodType / FunctionType / BuiltinFunctionType /
   MethodWrapperType / anything else (None, classes, str, dict, ...). *)
Inductive kind := BoundMethod | Function | Builtin | MethodWrapper | Other.

Definition kind_eqb (a b : kind) : bool :=
  match a, b with
  | BoundMethod, BoundMethod | Function, Function | Builtin, Builtin
  | MethodWrapper, MethodWrapper | Other, Other => true
  | _, _ => false
  end.

Lemma kind_eqb_eq a b : kind_eqb a b = true <-> a = b.
Proof. destruct a, b; simpl; split; intro H; try reflexivity; try discriminate. Qed.

(* value of a first-level attribute of the root object: None, or an object
   with its own (second-level) attribute table *)
Inductive nsval := NsNone | NsObj (attrs : list (string * kind)).

Definition roottable := list (string * nsval).

(* Statements that precede `self._update(...)` in a method whose guard is not
   its first statement. *)
Inductive prestep :=
| PRead                       (* pure read of daemon state / closure construction *)
| PDelegate (target : string) (* calls the public method `target` for each selected process,
                                 catching RPCError per process (make_allfunc) *).

Inductive guard :=
| GFirst                      (* self._update(...) is the first statement after the docstring *)
| GLate (pre : list prestep)  (* self._update(...) at top level after these statements *)
| GNone.                      (* no call of self._update at the top level of the body *)

Record minfo := MkInfo {
  mi_ns : string;             (* namespace the method is registered under *)
  mi_name : string;           (* attribute name (aliases have their own entry) *)
  mi_target : string;         (* Class.function the attribute is bound to *)
  mi_amin : Z;                (* fewest positional arguments accepted *)
  mi_amax : option Z;         (* most positional arguments accepted; None = *args *)
  mi_guard : guard;
  mi_update_text : string     (* literal passed to _update ("" if none) *)
}.
