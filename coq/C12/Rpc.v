(* C12 - model of the XML-RPC dispatch layer of supervisor
   (supervisor/xmlrpc.py: traverse, supervisor_xmlrpc_handler.call,
   SystemNamespaceRPCInterface.multicall; supervisor/rpcinterface.py:
   SupervisorNamespaceRPCInterface._update and the position of its call in
   every public method).

   Names are Coq strings holding the UTF-8 bytes of the Python str.  The
   attribute tables, the per-method facts and the constants of traverse /
   _update / multicall come from Gen_rpc.v, regenerated from the working tree
   on every run.  Method bodies are oracles (Section variables): the model
   decides *whether* a body runs, with which guard, and what the dispatch
   layer makes of its outcome. *)
From Coq Require Import ZArith List Bool String Ascii.
Import ListNotations.
Require Import SV.Common SV.C12.RpcTypes SV.C12.Gen_rpc.
Open Scope Z_scope.

(* ------------------------------------------------------------ strings *)

Definition dot : ascii := "."%char.
Definition underscore : ascii := "_"%char.

(* Python str.split('.') *)
Fixpoint split_dot (s : string) : list string :=
  match s with
  | EmptyString => [EmptyString]
  | String c r =>
      if Ascii.eqb c dot then EmptyString :: split_dot r
      else match split_dot r with
           | [] => [String c EmptyString]
           | p :: ps => String c p :: ps
           end
  end.

(* '.'.join(parts) *)
Fixpoint join_dot (l : list string) : string :=
  match l with
  | [] => EmptyString
  | [p] => p
  | p :: r => (p ++ String dot (join_dot r))%string
  end.

Definition starts_underscore (s : string) : bool :=
  match s with
  | String c _ => Ascii.eqb c underscore
  | EmptyString => false
  end.

Fixpoint has_dot (s : string) : bool :=
  match s with
  | EmptyString => false
  | String c r => Ascii.eqb c dot || has_dot r
  end.

Fixpoint lookup {A : Type} (k : string) (t : list (string * A)) : option A :=
  match t with
  | [] => None
  | (k', v) :: r => if String.eqb k k' then Some v else lookup k r
  end.

Fixpoint mem_str (k : string) (l : list string) : bool :=
  match l with
  | [] => false
  | x :: r => String.eqb k x || mem_str k r
  end.

Fixpoint mem_z (k : Z) (l : list Z) : bool :=
  match l with
  | [] => false
  | x :: r => (k =? x) || mem_z k r
  end.

Definition qualified (ns m : string) : string := (ns ++ String dot m)%string.

(* bytes -> string, for the correspondence cases *)
Definition ascii_of_z (z : Z) : ascii := ascii_of_N (Z.to_N (Z.modulo z 256)).
Fixpoint string_of_bytes (l : list Z) : string :=
  match l with
  | [] => EmptyString
  | b :: r => String (ascii_of_z b) (string_of_bytes r)
  end.

(* ----------------------------------------------------- fault constants *)

Definition fault_code (n : string) : Z :=
  match lookup n faults_table with Some c => c | None => -1 end.

Definition fault_codes : list Z := map snd faults_table.

Definition F_refuse : Z := fault_code tr_refuse_fault.        (* UNKNOWN_METHOD *)
Definition F_typeerror : Z := fault_code tr_typeerror_fault.  (* INCORRECT_PARAMETERS *)
Definition F_shutdown : Z := fault_code upd_fault.            (* SHUTDOWN_STATE *)
Definition F_mc_recursion : Z := fault_code mc_recursion_fault.
Definition F_mc_noname : Z := fault_code mc_noname_fault.
Definition F_mc_crash : Z := fault_code mc_crash_fault.       (* FAILED *)

(* ------------------------------------------------------------ traverse *)

(* getattr(getattr(ob, ns, None), m, None), as far as traverse distinguishes *)
Inductive attr := ANoNamespace | ANoAttr | AKind (k : kind).

Definition attr_of (root : roottable) (ns m : string) : attr :=
  match lookup ns root with
  | Some (NsObj attrs) =>
      match lookup m attrs with Some k => AKind k | None => ANoAttr end
  | Some NsNone | None => ANoNamespace
  end.

Inductive resolution :=
| RRefused                     (* raise RPCError(Faults.UNKNOWN_METHOD) *)
| RResolved (ns m : string)    (* func is a bound method: it gets called *)
| RCrash.                      (* an exception other than RPCError escapes traverse *)

Definition resolve_parts (root : roottable) (ns m : string) : resolution :=
  if tr_underscore_check && starts_underscore m then RRefused else
  match attr_of root ns m with
  | ANoNamespace => if tr_none_ns_refused then RRefused else RCrash
  | ANoAttr => if tr_kind_checked then RRefused else RCrash
  | AKind k =>
      if tr_kind_checked then
        (if kind_eqb k tr_kind_required then RResolved ns m else RRefused)
      else RResolved ns m
  end.

Definition resolve (root : roottable) (name : string) : resolution :=
  let parts := split_dot name in
  if (tr_parts <? 0) || (Z.of_nat (List.length parts) =? tr_parts) then
    match parts with
    | [ns; m] => resolve_parts root ns m
    | _ => RCrash                (* namespace, method = dotted_parts  -> ValueError *)
    end
  else RRefused.

Definition resolves (root : roottable) (name : string) : option (string * string) :=
  match resolve root name with RResolved ns m => Some (ns, m) | _ => None end.

Fixpoint find_info (ns m : string) (l : list minfo) : option minfo :=
  match l with
  | [] => None
  | i :: r => if String.eqb ns (mi_ns i) && String.eqb m (mi_name i) then Some i else find_info ns m r
  end.

(* --------------------------------------------------------------- _update *)

(* raise RPCError(SHUTDOWN_STATE) ? *)
Definition below (mood : Z) (text : string) : bool :=
  upd_checks_mood && (mood <? upd_threshold) && negb (mem_str text upd_exempt).

Definition is_gfirst (i : minfo) : bool :=
  match mi_guard i with GFirst => true | _ => false end.

(* a guard that stops the method before any effect whenever `below` holds *)
Definition prestep_ok (ns : string) (s : prestep) : bool :=
  match s with
  | PRead => true
  | PDelegate t =>
      match find_info ns t method_info with
      | Some j => is_gfirst j && negb (mem_str (mi_update_text j) upd_exempt)
      | None => false
      end
  end.

Definition guarded (i : minfo) : bool :=
  negb (mem_str (mi_update_text i) upd_exempt) &&
  match mi_guard i with
  | GFirst => true
  | GLate pre => forallb (prestep_ok (mi_ns i)) pre
  | GNone => false
  end.

(* --------------------------------------------------------------- dispatch *)

Section Dispatch.
  Variables St Val Cb Arg : Type.
  (* options.mood, read from the daemon state at the moment _update runs *)
  Variable mood_of : St -> Z.

  (* outcome of a method body *)
  Inductive bres :=
  | BValue (v : Val)            (* returned a value *)
  | BFault (c : Z)              (* raised RPCError(c) *)
  | BTypeError                  (* raised TypeError inside the body *)
  | BCrash                      (* raised any other exception *)
  | BDeferred (cb : Cb).        (* returned a function: answer comes later *)

  (* oracles: what a method body does once its guard let it run, and what the
     per-process calls of a make_allfunc closure do when they are not refused *)
  Variable body : string -> list Arg -> St -> St * bres.
  Variable pre_effect : string -> list Arg -> St -> St.

  Inductive outcome :=
  | OValue (v : Val) | OFault (c : Z) | ODeferred (cb : Cb) | OCrash.

  Definition of_bres (r : bres) : outcome :=
    match r with
    | BValue v => OValue v
    | BFault c => OFault c
    | BTypeError => OFault F_typeerror
    | BCrash => OCrash
    | BDeferred cb => ODeferred cb
    end.

  Definition run_prestep (ns : string) (args : list Arg) (st : St) (s : prestep) : St :=
    match s with
    | PRead => st
    | PDelegate t =>
        match find_info ns t method_info with
        | Some j =>
            if is_gfirst j && below (mood_of st) (mi_update_text j)
            then st               (* every per-process call raises SHUTDOWN_STATE; make_allfunc records it *)
            else pre_effect t args st
        | None => pre_effect t args st
        end
    end.

  Definition arity_ok (i : minfo) (n : Z) : bool :=
    (mi_amin i <=? n) && match mi_amax i with Some mx => n <=? mx | None => true end.

  (* the call `func( *params )` for a resolved bound method; third component: bodies entered *)
  Definition invoke (i : minfo) (args : list Arg) (st : St) : St * outcome * list string :=
    if negb (arity_ok i (Z.of_nat (List.length args))) then (st, OFault F_typeerror, [])
    else
      let st1 := match mi_guard i with
                 | GLate pre => fold_left (run_prestep (mi_ns i) args) pre st
                 | _ => st
                 end in
      let stopped := match mi_guard i with
                     | GNone => false
                     | _ => below (mood_of st1) (mi_update_text i)
                     end in
      if stopped then (st1, OFault F_shutdown, [])
      else let '(st2, r) := body (mi_target i) args st1 in (st2, of_bres r, [mi_target i]).

  (* traverse(root, name, params) *)
  Definition dispatch (root : roottable) (name : string) (args : list Arg) (st : St)
    : St * outcome * list string :=
    match resolve root name with
    | RRefused => (st, OFault F_refuse, [])
    | RCrash => (st, OCrash, [])
    | RResolved ns m =>
        match find_info ns m method_info with
        | Some i => invoke i args st
        | None => (st, OCrash, [])
        end
    end.

  (* what supervisor_xmlrpc_handler.continue_request answers *)
  Inductive answer :=
  | AValue (v : Val) | AFaultResp (c : Z) | ADeferred (cb : Cb) | AHttp500.

  Definition answer_of (o : outcome) : answer :=
    match o with
    | OValue v => AValue v
    | OFault c => AFaultResp c
    | ODeferred cb => ADeferred cb
    | OCrash => AHttp500
    end.

  Definition handle (name : string) (args : list Arg) (st : St) : St * answer :=
    let '(st', o, _) := dispatch root_table name args st in (st', answer_of o).

  (* ---- one element of a system.multicall *)
  Inductive res := RVal (v : Val) | RFaultStruct (c : Z).

  Record call := MkCall { c_name : option string; c_params : list Arg }.

  Definition mc_start (c : call) (st : St) : St * (res + Cb) :=
    match c_name c with
    | None => (st, inl (RFaultStruct F_mc_noname))
    | Some n =>
        if String.eqb n mc_recursion_name then (st, inl (RFaultStruct F_mc_recursion))
        else
          let '(st', o, _) := dispatch mroot_table n (c_params c) st in
          match o with
          | OValue v => (st', inl (RVal v))
          | OFault f => (st', inl (RFaultStruct f))
          | OCrash => (st', inl (RFaultStruct F_mc_crash))
          | ODeferred cb => (st', inr cb)
          end
    end.
End Dispatch.

Arguments BValue {Val Cb}.
Arguments BFault {Val Cb}.
Arguments BTypeError {Val Cb}.
Arguments BCrash {Val Cb}.
Arguments BDeferred {Val Cb}.
Arguments OValue {Val Cb}.
Arguments OFault {Val Cb}.
Arguments ODeferred {Val Cb}.
Arguments OCrash {Val Cb}.
Arguments RVal {Val}.
Arguments RFaultStruct {Val}.

(* -------------------------------------------------------------- multicall *)

(* SystemNamespaceRPCInterface.multicall for an abstract per-call semantics:
   `start` is "traverse inside try/except" (an immediate result or a callback),
   `poll` is one invocation of a pending callback (None = NOT_DONE_YET),
   `env_step` is whatever the daemon's main loop does between two invocations
   of the deferred response. *)
Section Multi.
  Variables St R Call Cb Env : Type.
  Variable start : Call -> St -> St * (R + Cb).
  Variable poll : Cb -> St -> St * option R.
  Variable env_step : Env -> St -> St.

  Record mstate := MkM { m_callbacks : list Cb; m_remaining : list Call; m_results : list R }.

  (* while (not callbacks) and remaining_calls: ... *)
  Fixpoint mc_loop (rem : list Call) (res : list R) (st : St) : St * mstate :=
    match rem with
    | [] => (st, MkM [] [] res)
    | c :: rem' =>
        match start c st with
        | (st', inl r) => mc_loop rem' (res ++ [r])%list st'
        | (st', inr cb) => (st', MkM [cb] rem' res)
        end
    end.

  (* one invocation of multi(); Some results = done *)
  Definition multi (m : mstate) (st : St) : St * mstate * option (list R) :=
    let '(st1, cbs1, res1) :=
      match m_callbacks m with
      | cb :: rest =>
          match poll cb st with
          | (st', Some r) => (st', rest, (m_results m ++ [r])%list)
          | (st', None) => (st', m_callbacks m, m_results m)
          end
      | [] => (st, [], m_results m)
      end in
    let '(st2, m2) :=
      match cbs1 with
      | [] => mc_loop (m_remaining m) res1 st1
      | _ => (st1, MkM cbs1 (m_remaining m) res1)
      end in
    match m_callbacks m2, m_remaining m2 with
    | [], [] => (st2, m2, Some (m_results m2))
    | _, _ => (st2, m2, None)
    end.

  (* the deferred response: one main-loop step, then multi() again *)
  Fixpoint mc_deferred (envs : list Env) (m : mstate) (st : St) (polls : nat)
    : St * list R * bool * nat :=
    match envs with
    | [] => (st, m_results m, false, polls)
    | e :: envs' =>
        match multi m (env_step e st) with
        | (st', _, Some rs) => (st', rs, true, S polls)
        | (st', m', None) => mc_deferred envs' m' st' (S polls)
        end
    end.

  (* multicall(calls) followed by the polling of its deferred response along
     the schedule envs: (final state, results so far, completed?, number of
     multi() invocations) *)
  Definition multicall (calls : list Call) (envs : list Env) (st : St) : St * list R * bool * nat :=
    match multi (MkM [] calls []) st with
    | (st', _, Some rs) => (st', rs, true, 1%nat)
    | (st', m', None) => mc_deferred envs m' st' 1%nat
    end.

  (* ---- specification: the same calls issued one after another, each as soon
     as the previous one has completed *)
  Fixpoint wait (cb : Cb) (envs : list Env) (st : St) : St * option R * list Env * nat :=
    match envs with
    | [] => (st, None, [], 0%nat)
    | e :: envs' =>
        match poll cb (env_step e st) with
        | (st', Some r) => (st', Some r, envs', 1%nat)
        | (st', None) => let '(s, r, rest, k) := wait cb envs' st' in (s, r, rest, S k)
        end
    end.

  Definition single (c : Call) (envs : list Env) (st : St) : St * option R * list Env * nat :=
    match start c st with
    | (st', inl r) => (st', Some r, envs, 0%nat)
    | (st', inr cb) => wait cb envs st'
    end.

  Fixpoint sequential (calls : list Call) (envs : list Env) (st : St) : St * list R * bool * nat :=
    match calls with
    | [] => (st, [], true, 0%nat)
    | c :: cs =>
        match single c envs st with
        | (st', Some r, envs', k) =>
            let '(st'', rs, done, k') := sequential cs envs' st' in (st'', r :: rs, done, (k + k')%nat)
        | (st', None, _, k) => (st', [], false, k)
        end
    end.
End Multi.

(* ------------------------------------------ correspondence: name dispatch *)

(* the dispatch model run with trivial oracles tells which layer answers *)
Definition probe (use_mroot : bool) (mood : Z) (name : string) (nargs : Z)
  : outcome unit unit * list string :=
  let root := if use_mroot then mroot_table else root_table in
  let args := repeat tt (Z.to_nat (Z.max 0 (Z.min nargs 64))) in
  let '(_, o, tr) := dispatch Z unit unit unit (fun m => m)
                       (fun _ _ st => (st, BValue tt)) (fun _ _ st => st)
                       root name args mood in
  (o, tr).

Inductive obs :=
| ObsValue | ObsDeferred | ObsFault (c : Z) | ObsHttp (c : Z) | ObsExc.

(* case: root selector, name bytes, number of arguments, mood, what the real
   stack answered, did the daemon state change, was some _update reached *)
Definition name_case := (bool * list Z * Z * Z * obs * bool * bool)%type.

Definition check_name (c : name_case) : bool :=
  let '(use_mroot, name, nargs, mood, o, changed, reached) := c in
  match probe use_mroot mood (string_of_bytes name) nargs with
  | (_, _ :: _) =>                        (* a body ran: any value, deferred, or documented fault *)
      match o with
      | ObsValue | ObsDeferred => true
      | ObsFault f => mem_z f fault_codes
      | _ => false
      end
  | (OFault f, []) =>
      match o with
      | ObsFault f' =>
          (f =? f') && negb changed &&
          (if f =? F_shutdown then true else negb reached)
      | _ => false
      end
  | (OCrash, []) => match o with ObsHttp 500 | ObsExc => true | _ => false end
  | _ => false
  end.

(* ---------------------------------------- correspondence: multicall driver *)

(* scripted per-call semantics: the state is a clock counting main-loop steps;
   a deferred call completes k steps after it was started *)
Inductive scall :=
| SImm (r : Z)                 (* immediate result; results are small tags *)
| SDef (k : nat) (r : Z).      (* callback, done at the k-th poll after start *)

Definition s_start (c : scall) (clock : nat) : nat * (Z + (nat * Z)) :=
  match c with
  | SImm r => (clock, inl r)
  | SDef k r => (clock, inr ((clock + k)%nat, r))
  end.

Definition s_poll (cb : nat * Z) (clock : nat) : nat * option Z :=
  let '(deadline, r) := cb in
  if Nat.leb deadline clock then (clock, Some r) else (clock, None).

Definition s_env (_ : unit) (clock : nat) : nat := S clock.

(* case: the script, the results the real multicall produced (as tags), the
   number of times the real deferred response invoked multi() *)
Definition multi_case := (list scall * list Z * Z)%type.

Definition check_multi (c : multi_case) : bool :=
  let '(script, results, polls) := c in
  let budget := repeat tt 200 in
  match multicall nat Z scall (nat * Z) unit s_start s_poll s_env script budget 0%nat with
  | (_, rs, done, n) => done && zlist_eqb rs results && (Z.of_nat n =? polls)
  end.
