(* C12 - specification and theorems about the dispatch model of Rpc.v over the
   tables generated into Gen_rpc.v.

   The statements quantify over ALL name strings.  Each is obtained from a
   general lemma about the model (a name that resolves is `ns.m` for a table
   entry (ns, m) that is a bound method) plus a finite check over the generated
   table done by vm_compute and lifted with forallb_forall. *)
From Coq Require Import ZArith List Bool String Ascii Lia.
Import ListNotations.
Require Import SV.Common SV.C12.RpcTypes SV.C12.Gen_rpc SV.C12.Rpc.
Open Scope Z_scope.

(* ================================================================ spec *)

Local Open Scope string_scope.

(* b/w-compatibility aliases: reachable and listed by system.listMethods but
   not in docs/api.rst.  A NEW undocumented name fails c12_resolvable_documented. *)
Definition allowed_aliases : list string :=
  [ "supervisor.getVersion"; "supervisor.readMainLog"; "supervisor.readProcessLog";
    "supervisor.tailProcessLog"; "supervisor.clearProcessLog" ].

Definition public_api : list string := (documented_api ++ allowed_aliases)%list.

(* process-control and configuration methods (statement of C12): must answer
   SHUTDOWN_STATE and change nothing while the daemon restarts or shuts down *)
Definition control_methods : list string :=
  [ "supervisor.startProcess"; "supervisor.startProcessGroup"; "supervisor.startAllProcesses";
    "supervisor.stopProcess"; "supervisor.stopProcessGroup"; "supervisor.stopAllProcesses";
    "supervisor.signalProcess"; "supervisor.signalProcessGroup"; "supervisor.signalAllProcesses";
    "supervisor.sendProcessStdin";
    "supervisor.reloadConfig"; "supervisor.addProcessGroup"; "supervisor.removeProcessGroup";
    "supervisor.shutdown"; "supervisor.restart";
    "supervisor.clearLog"; "supervisor.clearProcessLogs"; "supervisor.clearProcessLog";
    "supervisor.clearAllProcessLogs" ].

(* the only supervisor.* method allowed to run without the mood guard *)
Definition unguarded_allowed : list string := [ "supervisor.sendRemoteCommEvent" ].

(* parameters that may be omitted (trailing, `wait`): every other documented
   parameter is required, every undocumented one is forbidden *)
Definition optional_trailing : list (string * Z) :=
  [ ("supervisor.startProcess", 1%Z); ("supervisor.startProcessGroup", 1%Z); ("supervisor.startAllProcesses", 1%Z);
    ("supervisor.stopProcess", 1%Z); ("supervisor.stopProcessGroup", 1%Z); ("supervisor.stopAllProcesses", 1%Z) ].

(* functions allowed to compute a fault code with getattr(Faults, ...) *)
Definition dynamic_fault_allowed : list string :=
  [ "_readProcessLog"; "getFaultDescription"; "readLog" ].

(* "while supervisord is shutting down or restarting" *)
Definition mood_code (n : string) : Z :=
  match lookup n moods_table with Some c => c | None => upd_threshold end.
Definition stopping_moods : list Z := [mood_code "RESTARTING"; mood_code "SHUTDOWN"].
Definition running_mood : Z := mood_code "RUNNING".

Local Close Scope string_scope.

Definition modelled_root (root : roottable) : Prop := root = root_table \/ root = mroot_table.

(* ======================================================= string lemmas *)

Lemma split_dot_nonempty s : split_dot s <> [].
Proof.
  destruct s as [|c r]; simpl; [discriminate|].
  destruct (Ascii.eqb c dot); [discriminate|].
  destruct (split_dot r); discriminate.
Qed.

Lemma join_split s : join_dot (split_dot s) = s.
Proof.
  induction s as [|c r IH]; [reflexivity|].
  simpl. destruct (Ascii.eqb c dot) eqn:E.
  - apply Ascii.eqb_eq in E. subst c.
    pose proof (split_dot_nonempty r) as NE.
    destruct (split_dot r) as [|p ps] eqn:SP; [congruence|].
    cbn [join_dot]. cbn [join_dot] in IH. simpl. rewrite IH. reflexivity.
  - pose proof (split_dot_nonempty r) as NE.
    destruct (split_dot r) as [|p ps] eqn:SP; [congruence|].
    destruct ps as [|q qs]; simpl in *; rewrite IH; reflexivity.
Qed.

Lemma split_no_dot s : Forall (fun p => has_dot p = false) (split_dot s).
Proof.
  induction s as [|c r IH]; simpl.
  - constructor; [reflexivity|constructor].
  - destruct (Ascii.eqb c dot) eqn:E.
    + constructor; [reflexivity|exact IH].
    + destruct (split_dot r) as [|p ps].
      * constructor; [simpl; rewrite E; reflexivity|constructor].
      * inversion IH; subst. constructor; [simpl; rewrite E; assumption|assumption].
Qed.

Lemma split_two s a b : split_dot s = [a; b] -> s = qualified a b.
Proof.
  intro H. rewrite <- (join_split s). rewrite H. reflexivity.
Qed.

Lemma lookup_In {A} k (t : list (string * A)) v : lookup k t = Some v -> In (k, v) t.
Proof.
  induction t as [|[k' v'] r IH]; simpl; [discriminate|].
  destruct (String.eqb k k') eqn:E.
  - intro H. inversion H; subst. apply String.eqb_eq in E. subst. left. reflexivity.
  - intro H. right. apply IH. exact H.
Qed.

Lemma lookup_notin {A} k (t : list (string * A)) : ~ In k (map fst t) -> lookup k t = None.
Proof.
  induction t as [|[k' v'] r IH]; simpl; [reflexivity|].
  intro H. destruct (String.eqb k k') eqn:E.
  - apply String.eqb_eq in E. subst. exfalso. apply H. left. reflexivity.
  - apply IH. intro X. apply H. right. exact X.
Qed.

Lemma mem_str_In k l : mem_str k l = true <-> In k l.
Proof.
  induction l as [|x r IH]; simpl; [split; [discriminate|tauto]|].
  rewrite orb_true_iff, IH, String.eqb_eq. split; intros [H|H]; auto.
Qed.

Lemma mem_z_In k l : mem_z k l = true <-> In k l.
Proof.
  induction l as [|x r IH]; simpl; [split; [discriminate|tauto]|].
  rewrite orb_true_iff, IH, Z.eqb_eq. split; intros [H|H]; auto.
Qed.

(* ==================================================== generated constants *)

(* The proofs below are about traverse() as it is now: two parts, underscore
   ban, None namespace refused, bound-method test.  If the translator reads
   different facts from the source, this lemma (and everything after it) fails. *)
Lemma traverse_facts :
  tr_parts = 2 /\ tr_underscore_check = true /\ tr_none_ns_refused = true /\
  tr_kind_checked = true /\ tr_kind_required = BoundMethod.
Proof. repeat split; reflexivity. Qed.

Lemma update_facts : upd_checks_mood = true /\ upd_exempt = [].
Proof. split; reflexivity. Qed.

Lemma fault_constants_in_table :
  In F_refuse fault_codes /\ In F_typeerror fault_codes /\ In F_shutdown fault_codes /\
  In F_mc_recursion fault_codes /\ In F_mc_noname fault_codes /\ In F_mc_crash fault_codes.
Proof. repeat split; apply mem_z_In; vm_compute; reflexivity. Qed.

(* ======================================================== name resolution *)

(* every (ns, m) of the table that is a public bound method *)
Definition resolvable_pairs (root : roottable) : list (string * string) :=
  flat_map (fun e : string * nsval =>
              match snd e with
              | NsObj attrs =>
                  map (fun a : string * kind => (fst e, fst a))
                      (filter (fun a : string * kind =>
                                 kind_eqb (snd a) BoundMethod && negb (starts_underscore (fst a))) attrs)
              | NsNone => []
              end) root.

Lemma resolve_parts_cases root ns m :
  resolve_parts root ns m = RRefused \/
  (resolve_parts root ns m = RResolved ns m /\ starts_underscore m = false /\
   attr_of root ns m = AKind BoundMethod).
Proof.
  unfold resolve_parts.
  destruct traverse_facts as (_ & U & N & K & R). rewrite U, N, K, R. simpl.
  destruct (starts_underscore m); [left; reflexivity|].
  destruct (attr_of root ns m) as [| |k]; try (left; reflexivity).
  destruct k; simpl; try (left; reflexivity). right. repeat split; reflexivity.
Qed.

Lemma resolve_cases root name :
  resolve root name = RRefused \/
  exists ns m, resolve root name = RResolved ns m /\ split_dot name = [ns; m] /\
               starts_underscore m = false /\ attr_of root ns m = AKind BoundMethod.
Proof.
  unfold resolve. destruct traverse_facts as (P & _). rewrite P.
  change (2 <? 0) with false. cbn [orb].
  destruct (split_dot name) as [|a [|b [|c r]]] eqn:SP; try (left; reflexivity).
  - cbn [List.length]. change (Z.of_nat 2 =? 2) with true. cbn iota.
    destruct (resolve_parts_cases root a b) as [H|(H & U & A)]; [left; exact H|].
    right. exists a, b. repeat split; assumption.
  - left. cbn [List.length].
    destruct (Z.of_nat (S (S (S (List.length r)))) =? 2) eqn:E; [|reflexivity].
    apply Z.eqb_eq in E. lia.
Qed.

Lemma attr_in_pairs root ns m :
  starts_underscore m = false -> attr_of root ns m = AKind BoundMethod ->
  In (ns, m) (resolvable_pairs root).
Proof.
  intros U A. unfold attr_of in A.
  destruct (lookup ns root) as [[|attrs]|] eqn:L; try discriminate.
  destruct (lookup m attrs) as [k|] eqn:L2; try discriminate.
  inversion A; subst k.
  apply lookup_In in L. apply lookup_In in L2.
  unfold resolvable_pairs. apply in_flat_map. exists (ns, NsObj attrs). split; [exact L|].
  simpl. apply in_map_iff. exists (m, BoundMethod). split; [reflexivity|].
  apply filter_In. split; [exact L2|]. simpl. rewrite U. reflexivity.
Qed.

(* a name that resolves is ns.m for a pair of the finite table *)
Lemma resolved_in_pairs root name ns m :
  resolve root name = RResolved ns m ->
  name = qualified ns m /\ In (ns, m) (resolvable_pairs root) /\
  starts_underscore m = false /\ attr_of root ns m = AKind BoundMethod /\ split_dot name = [ns; m].
Proof.
  intro H. destruct (resolve_cases root name) as [R|(a & b & R & SP & U & A)]; [congruence|].
  rewrite H in R. inversion R; subst a b.
  repeat split; try assumption.
  - apply split_two. exact SP.
  - apply attr_in_pairs; assumption.
Qed.

Lemma resolve_never_crashes root name : resolve root name <> RCrash.
Proof.
  destruct (resolve_cases root name) as [R|(a & b & R & _)]; rewrite R; discriminate.
Qed.

Definition is_resolved (r : resolution) : bool :=
  match r with RResolved _ _ => true | _ => false end.

Definition pair_name (p : string * string) : string := qualified (fst p) (snd p).

(* ---- finite checks over the generated tables (vm_compute) *)

Lemma pairs_public_root :
  forallb (fun p => mem_str (pair_name p) public_api) (resolvable_pairs root_table) = true.
Proof. vm_compute. reflexivity. Qed.

Lemma pairs_public_mroot :
  forallb (fun p => mem_str (pair_name p) public_api) (resolvable_pairs mroot_table) = true.
Proof. vm_compute. reflexivity. Qed.

Lemma pairs_listed_root :
  forallb (fun p => mem_str (pair_name p) list_methods_live) (resolvable_pairs root_table) = true.
Proof. vm_compute. reflexivity. Qed.

Lemma listed_resolve_root :
  forallb (fun n => is_resolved (resolve root_table n)) list_methods_live = true.
Proof. vm_compute. reflexivity. Qed.

Lemma pairs_root_in_mroot :
  forallb (fun p => is_resolved (resolve_parts mroot_table (fst p) (snd p))) (resolvable_pairs root_table) = true.
Proof. vm_compute. reflexivity. Qed.

Lemma pairs_mroot_in_root :
  forallb (fun p => is_resolved (resolve_parts root_table (fst p) (snd p))) (resolvable_pairs mroot_table) = true.
Proof. vm_compute. reflexivity. Qed.

Lemma pairs_have_info_root :
  forallb (fun p => match find_info (fst p) (snd p) method_info with Some _ => true | None => false end)
          (resolvable_pairs root_table) = true.
Proof. vm_compute. reflexivity. Qed.

Lemma pairs_nonempty_parts :
  forallb (fun p => negb (String.eqb (fst p) EmptyString) && negb (String.eqb (snd p) EmptyString))
          (resolvable_pairs root_table ++ resolvable_pairs mroot_table) = true.
Proof. vm_compute. reflexivity. Qed.

Lemma empty_namespace_absent :
  lookup EmptyString root_table = None /\ lookup EmptyString mroot_table = None.
Proof. split; vm_compute; reflexivity. Qed.

(* ---- closure *)

Theorem closure root name ns m :
  modelled_root root ->
  resolve root name = RResolved ns m ->
  name = qualified ns m /\ In name public_api /\ starts_underscore m = false /\
  attr_of root ns m = AKind BoundMethod.
Proof.
  intros MR H. apply resolved_in_pairs in H. destruct H as (N & I & U & A & _).
  repeat split; try assumption.
  apply mem_str_In. subst name.
  destruct MR as [->| ->].
  - exact (proj1 (forallb_forall _ _) pairs_public_root (ns, m) I).
  - exact (proj1 (forallb_forall _ _) pairs_public_mroot (ns, m) I).
Qed.

Theorem resolvable_documented name ns m :
  resolve root_table name = RResolved ns m ->
  In name documented_api \/ In name allowed_aliases.
Proof.
  intro H. apply (closure root_table) in H; [|left; reflexivity].
  destruct H as (_ & I & _). apply in_app_or. exact I.
Qed.

Theorem resolvable_eq_listMethods name :
  (exists ns m, resolve root_table name = RResolved ns m) <-> In name list_methods_live.
Proof.
  split.
  - intros (ns & m & H). apply resolved_in_pairs in H. destruct H as (N & I & _).
    subst name. apply mem_str_In.
    exact (proj1 (forallb_forall _ _) pairs_listed_root (ns, m) I).
  - intro I. pose proof (proj1 (forallb_forall _ _) listed_resolve_root name I) as R. cbv beta in R.
    destruct (resolve root_table name) as [|ns m|]; try discriminate. exists ns, m. reflexivity.
Qed.

Lemma resolve_parts_agree ns m :
  resolve_parts mroot_table ns m = resolve_parts root_table ns m.
Proof.
  destruct (resolve_parts_cases root_table ns m) as [R|(R & U & A)];
  destruct (resolve_parts_cases mroot_table ns m) as [M|(M & U' & A')]; rewrite R, M; try reflexivity.
  - exfalso. pose proof (attr_in_pairs _ _ _ U' A') as I.
    pose proof (proj1 (forallb_forall _ _) pairs_mroot_in_root (ns, m) I) as X.
    cbv beta in X; cbn [fst snd] in X. rewrite R in X. discriminate.
  - exfalso. pose proof (attr_in_pairs _ _ _ U A) as I.
    pose proof (proj1 (forallb_forall _ _) pairs_root_in_mroot (ns, m) I) as X.
    cbv beta in X; cbn [fst snd] in X. rewrite M in X. discriminate.
Qed.

Lemma resolve_alt root name :
  resolve root name =
  match split_dot name with [ns; m] => resolve_parts root ns m | _ => RRefused end.
Proof.
  unfold resolve. destruct traverse_facts as (P & _). rewrite P.
  change (2 <? 0) with false. cbn [orb].
  destruct (split_dot name) as [|a [|b [|c r]]]; try reflexivity.
  cbn [List.length].
  destruct (Z.of_nat (S (S (S (List.length r)))) =? 2) eqn:E; [|reflexivity].
  apply Z.eqb_eq in E. lia.
Qed.

(* system.multicall's AttrDict root resolves exactly what the handler's root resolves *)
Theorem roots_agree name : resolve mroot_table name = resolve root_table name.
Proof.
  rewrite !resolve_alt.
  destruct (split_dot name) as [|a [|b [|c r]]]; cbv beta iota;
    [reflexivity|reflexivity|apply resolve_parts_agree|reflexivity].
Qed.

Lemma resolved_has_info root name ns m :
  modelled_root root -> resolve root name = RResolved ns m ->
  exists i, find_info ns m method_info = Some i.
Proof.
  intros MR H.
  assert (H' : resolve root_table name = RResolved ns m).
  { destruct MR as [->| ->]; [exact H|]. rewrite <- roots_agree. exact H. }
  apply resolved_in_pairs in H'. destruct H' as (_ & I & _).
  pose proof (proj1 (forallb_forall _ _) pairs_have_info_root (ns, m) I) as X. cbv beta in X; cbn [fst snd] in X.
  destruct (find_info ns m method_info) as [i|]; [exists i; reflexivity|discriminate].
Qed.

(* ================================================================= shape *)

(* every way in which a name fails to denote a public method of a namespace *)
Definition bad_shape (root : roottable) (name : string) : Prop :=
  List.length (split_dot name) <> 2%nat \/
  exists ns m, split_dot name = [ns; m] /\
    (ns = EmptyString \/ m = EmptyString \/ starts_underscore m = true \/
     attr_of root ns m = ANoNamespace \/ attr_of root ns m = ANoAttr \/
     exists k, attr_of root ns m = AKind k /\ k <> BoundMethod).

Lemma bad_shape_refused root name :
  modelled_root root -> bad_shape root name -> resolve root name = RRefused.
Proof.
  intros MR B.
  destruct (resolve_cases root name) as [R|(a & b & R & SP & U & A)]; [exact R|].
  exfalso. destruct B as [L|(ns & m & S' & C)].
  - rewrite SP in L. apply L. reflexivity.
  - rewrite SP in S'. inversion S'; subst a b.
    pose proof (attr_in_pairs _ _ _ U A) as I.
    assert (NE : ns <> EmptyString /\ m <> EmptyString).
    { pose proof pairs_nonempty_parts as P. rewrite forallb_forall in P.
      assert (I' : In (ns, m) (resolvable_pairs root_table ++ resolvable_pairs mroot_table)).
      { apply in_or_app. destruct MR as [->| ->]; [left|right]; exact I. }
      specialize (P _ I'). cbv beta in P; cbn [fst snd] in P. apply andb_true_iff in P. destruct P as [P1 P2].
      split; intro E; subst.
      - rewrite String.eqb_refl in P1. discriminate.
      - rewrite String.eqb_refl in P2. discriminate. }
    destruct C as [C|[C|[C|[C|[C|(k & C & NK)]]]]]; try (destruct NE; congruence); try congruence.
Qed.

Section ShapeAndGuard.
  Variables St Val Cb Arg : Type.
  Variable mood_of : St -> Z.
  Variable body : string -> list Arg -> St -> St * bres Val Cb.
  Variable pre_effect : string -> list Arg -> St -> St.

  Let dispatch' := dispatch St Val Cb Arg mood_of body pre_effect.
  Let invoke' := invoke St Val Cb Arg mood_of body pre_effect.

  (* refused: the UNKNOWN_METHOD fault, the state untouched, no body entered *)
  Theorem shape_refused root name args st :
    modelled_root root -> bad_shape root name ->
    dispatch' root name args st = (st, OFault F_refuse, []).
  Proof.
    intros MR B. unfold dispatch', dispatch. rewrite (bad_shape_refused root name MR B). reflexivity.
  Qed.

  (* the dispatch layer itself never raises anything but RPCError: a crash can
     only come out of a method body *)
  Theorem dispatch_crash_only_from_body root name args st st' tr :
    modelled_root root ->
    dispatch' root name args st = (st', OCrash, tr) ->
    exists target st0 st1, body target args st0 = (st1, BCrash).
  Proof.
    intros MR. unfold dispatch', dispatch.
    destruct (resolve root name) as [|ns m|] eqn:R.
    - intro H. inversion H.
    - destruct (resolved_has_info root name ns m MR R) as (i & FI). rewrite FI.
      unfold invoke. destruct (negb _); [intro H; inversion H|].
      match goal with |- context [if ?c then _ else _] => destruct c end; [intro H; inversion H|].
      match goal with |- context [body ?t ?a ?s] => destruct (body t a s) as [s2 r] eqn:Bd end.
      intro H. inversion H. destruct r; try discriminate. eauto.
    - exfalso. exact (resolve_never_crashes root name R).
  Qed.

  (* ---- guard *)

  Definition shutting_down (st : St) : Prop := mood_of st < upd_threshold.

  Lemma below_when_shutting_down st text :
    shutting_down st -> below (mood_of st) text = true.
  Proof.
    intro H. unfold below. destruct update_facts as [C E]. rewrite C, E. simpl.
    rewrite andb_true_r. apply Z.ltb_lt. exact H.
  Qed.

  Lemma prefix_no_effect ns args pre st :
    shutting_down st -> forallb (prestep_ok ns) pre = true ->
    fold_left (run_prestep St Arg mood_of pre_effect ns args) pre st = st.
  Proof.
    intros SD. induction pre as [|s r IH]; cbn [forallb fold_left]; [reflexivity|].
    intro H. apply andb_true_iff in H. destruct H as [H1 H2].
    assert (E : run_prestep St Arg mood_of pre_effect ns args st s = st).
    { destruct s as [|t]; [reflexivity|]. unfold run_prestep. unfold prestep_ok in H1.
      destruct (find_info ns t method_info) as [j|]; [|discriminate].
      apply andb_true_iff in H1. destruct H1 as [G _]. rewrite G.
      rewrite (below_when_shutting_down st (mi_update_text j) SD). reflexivity. }
    rewrite E. apply IH. exact H2.
  Qed.

  (* a guarded method called while the daemon restarts or shuts down answers
     SHUTDOWN_STATE (or INCORRECT_PARAMETERS when the argument count is wrong),
     leaves the state as it was and enters no method body *)
  Theorem guard_effect i args st :
    guarded i = true -> shutting_down st ->
    invoke' i args st =
      (st, OFault (if arity_ok i (Z.of_nat (List.length args)) then F_shutdown else F_typeerror), []).
  Proof.
    intros G SD. unfold invoke', invoke.
    destruct (arity_ok i (Z.of_nat (List.length args))); simpl; [|reflexivity].
    unfold guarded in G. apply andb_true_iff in G. destruct G as [_ G].
    destruct (mi_guard i) as [|pre|] eqn:MG; try discriminate.
    - rewrite (below_when_shutting_down st _ SD). reflexivity.
    - rewrite (prefix_no_effect _ args pre st SD G).
      rewrite (below_when_shutting_down st _ SD). reflexivity.
  Qed.
End ShapeAndGuard.

Definition info_of_name (name : string) : option minfo :=
  match resolve root_table name with
  | RResolved ns m => find_info ns m method_info
  | _ => None
  end.

Lemma control_guarded_check :
  forallb (fun n => match info_of_name n with Some i => guarded i | None => false end) control_methods = true.
Proof. vm_compute. reflexivity. Qed.

Theorem control_guarded :
  Forall (fun n => exists i, info_of_name n = Some i /\ guarded i = true) control_methods.
Proof.
  apply Forall_forall. intros n I.
  pose proof (proj1 (forallb_forall _ _) control_guarded_check n I) as H. cbv beta in H.
  destruct (info_of_name n) as [i|]; [|discriminate]. exists i. split; [reflexivity|exact H].
Qed.

(* every resolvable method is guarded, is in the system namespace, or is the
   one explicitly allowed exception *)
Lemma unguarded_check :
  forallb (fun p => match find_info (fst p) (snd p) method_info with
                    | Some i => guarded i || String.eqb (fst p) "system" || mem_str (pair_name p) unguarded_allowed
                    | None => false
                    end) (resolvable_pairs root_table) = true.
Proof. vm_compute. reflexivity. Qed.

Theorem unguarded_exact name ns m :
  resolve root_table name = RResolved ns m ->
  exists i, find_info ns m method_info = Some i /\
            (guarded i = true \/ ns = "system"%string \/ In name unguarded_allowed).
Proof.
  intro H. apply resolved_in_pairs in H. destruct H as (N & I & _).
  pose proof (proj1 (forallb_forall _ _) unguarded_check (ns, m) I) as X. cbv beta in X; cbn [fst snd] in X.
  destruct (find_info ns m method_info) as [i|]; [|discriminate]. exists i. split; [reflexivity|].
  apply orb_true_iff in X. destruct X as [X|X].
  - apply orb_true_iff in X. destruct X as [X|X]; [left; exact X|].
    right. left. apply String.eqb_eq. exact X.
  - right. right. subst name. apply mem_str_In. exact X.
Qed.

Lemma stopping_moods_below :
  forallb (fun m => m <? upd_threshold) stopping_moods = true /\ (running_mood <? upd_threshold) = false.
Proof. split; vm_compute; reflexivity. Qed.

Section ShutdownGuard.
  Variables St Val Cb Arg : Type.
  Variable mood_of : St -> Z.
  Variable body : string -> list Arg -> St -> St * bres Val Cb.
  Variable pre_effect : string -> list Arg -> St -> St.

  Lemma stopping_is_shutting_down st :
    In (mood_of st) stopping_moods -> shutting_down St mood_of st.
  Proof.
    intro I. destruct stopping_moods_below as [B _].
    pose proof (proj1 (forallb_forall _ _) B _ I) as X. cbv beta in X.
    apply Z.ltb_lt in X. exact X.
  Qed.

  (* in the RUNNING mood the guard lets the body run *)
  Theorem running_not_refused i args st :
    mood_of st = running_mood -> mi_guard i = GFirst ->
    arity_ok i (Z.of_nat (List.length args)) = true ->
    invoke St Val Cb Arg mood_of body pre_effect i args st =
      let '(st2, r) := body (mi_target i) args st in (st2, of_bres Val Cb r, [mi_target i]).
  Proof.
    intros M G A. unfold invoke. rewrite A, G. cbn [negb].
    unfold below. rewrite M. destruct stopping_moods_below as [_ R]. rewrite R.
    rewrite andb_false_r. cbn [andb]. reflexivity.
  Qed.

  Theorem shutdown_guard_moods name args st :
    In name control_methods -> In (mood_of st) stopping_moods ->
    exists c, dispatch St Val Cb Arg mood_of body pre_effect root_table name args st = (st, OFault c, [])
              /\ (c = F_shutdown \/ c = F_typeerror).
  Proof.
    intros I M. apply stopping_is_shutting_down in M. revert I M.
    intros I SD.
    destruct (proj1 (Forall_forall _ _) control_guarded name I) as (i & FI & G).
    unfold info_of_name in FI. unfold dispatch.
    destruct (resolve root_table name) as [|ns m|]; try discriminate.
    rewrite FI. rewrite (guard_effect St Val Cb Arg mood_of body pre_effect i args st G SD).
    eexists. split; [reflexivity|]. destruct (arity_ok _ _); [left|right]; reflexivity.
  Qed.

  Theorem shutdown_guard name args st :
    In name control_methods -> shutting_down St mood_of st ->
    exists c, dispatch St Val Cb Arg mood_of body pre_effect root_table name args st = (st, OFault c, [])
              /\ (c = F_shutdown \/ c = F_typeerror).
  Proof.
    intros I SD.
    destruct (proj1 (Forall_forall _ _) control_guarded name I) as (i & FI & G).
    unfold info_of_name in FI. unfold dispatch.
    destruct (resolve root_table name) as [|ns m|]; try discriminate.
    rewrite FI. rewrite (guard_effect St Val Cb Arg mood_of body pre_effect i args st G SD).
    eexists. split; [reflexivity|]. destruct (arity_ok _ _); [left|right]; reflexivity.
  Qed.

  (* ---- fault codes *)

  Theorem fault_codes_documented root name args st st' c tr :
    modelled_root root ->
    dispatch St Val Cb Arg mood_of body pre_effect root name args st = (st', OFault c, tr) ->
    In c fault_codes \/ exists target st0 st1, body target args st0 = (st1, BFault c).
  Proof.
    intros MR. destruct fault_constants_in_table as (F1 & F2 & F3 & _).
    unfold dispatch. destruct (resolve root name) as [|ns m|] eqn:R.
    - intro H. inversion H; subst. left. exact F1.
    - destruct (find_info ns m method_info) as [i|]; [|intro H; inversion H].
      unfold invoke. destruct (negb _); [intro H; inversion H; subst; left; exact F2|].
      match goal with |- context [if ?c then _ else _] => destruct c end;
        [intro H; inversion H; subst; left; exact F3|].
      match goal with |- context [body ?t ?a ?s] => destruct (body t a s) as [s2 r] eqn:Bd end.
      intro H. inversion H. destruct r; try discriminate; simpl in *.
      + right. inversion H2; subst. eauto.
      + left. inversion H2; subst. exact F2.
    - intro H. inversion H.
  Qed.

  (* ---- one multicall element versus the same call made on its own *)

  Theorem multicall_element c n st :
    c_name Arg c = Some n -> n <> mc_recursion_name ->
    mc_start St Val Cb Arg mood_of body pre_effect c st =
      match handle St Val Cb Arg mood_of body pre_effect n (c_params Arg c) st with
      | (st', AValue _ _ v) => (st', inl (RVal v))
      | (st', AFaultResp _ _ f) => (st', inl (RFaultStruct f))
      | (st', ADeferred _ _ cb) => (st', inr cb)
      | (st', AHttp500 _ _) => (st', inl (RFaultStruct F_mc_crash))
      end.
  Proof.
    intros N NE. unfold mc_start, handle. rewrite N.
    destruct (String.eqb n mc_recursion_name) eqn:E; [apply String.eqb_eq in E; contradiction|].
    unfold dispatch. rewrite roots_agree.
    destruct (resolve root_table n) as [|ns m|]; try reflexivity.
    destruct (find_info ns m method_info) as [i|]; [|reflexivity].
    destruct (invoke St Val Cb Arg mood_of body pre_effect i (c_params Arg c) st) as [[s o] t].
    destruct o; reflexivity.
  Qed.

  Theorem multicall_recursion_refused c st :
    c_name Arg c = Some mc_recursion_name ->
    mc_start St Val Cb Arg mood_of body pre_effect c st = (st, inl (RFaultStruct F_mc_recursion)).
  Proof.
    intro N. unfold mc_start. rewrite N. rewrite String.eqb_refl. reflexivity.
  Qed.

  Theorem multicall_noname_refused c st :
    c_name Arg c = None ->
    mc_start St Val Cb Arg mood_of body pre_effect c st = (st, inl (RFaultStruct F_mc_noname)).
  Proof. intro N. unfold mc_start. rewrite N. reflexivity. Qed.
End ShutdownGuard.

(* only the name system.multicall reaches the multicall method, so the name
   test in multi() really refuses every recursion *)
Lemma multicall_single_name_check :
  forallb (fun p => match find_info (fst p) (snd p) method_info with
                    | Some i => negb (String.eqb (mi_target i) "SystemNamespaceRPCInterface.multicall")
                                || String.eqb (pair_name p) mc_recursion_name
                    | None => false
                    end) (resolvable_pairs mroot_table) = true.
Proof. vm_compute. reflexivity. Qed.

Theorem multicall_single_name name ns m i :
  resolve mroot_table name = RResolved ns m -> find_info ns m method_info = Some i ->
  mi_target i = "SystemNamespaceRPCInterface.multicall"%string -> name = mc_recursion_name.
Proof.
  intros H FI T. apply resolved_in_pairs in H. destruct H as (N & I & _).
  pose proof (proj1 (forallb_forall _ _) multicall_single_name_check (ns, m) I) as X. cbv beta in X; cbn [fst snd] in X.
  rewrite FI, T in X. rewrite String.eqb_refl in X. cbn [negb orb] in X.
  apply String.eqb_eq in X. subst name. exact X.
Qed.

(* the arity range the code accepts is the documented signature: at most the
   documented parameters, at least those not listed as optional *)
Definition arity_as_documented (i : minfo) : bool :=
  let n := qualified (mi_ns i) (mi_name i) in
  match lookup n doc_param_count with
  | Some d =>
      let opt := match lookup n optional_trailing with Some k => k | None => 0 end in
      match mi_amax i with Some mx => mx =? d | None => false end && (mi_amin i =? d - opt)
  | None => false
  end.

Lemma arity_documented_check : forallb arity_as_documented method_info = true.
Proof. vm_compute. reflexivity. Qed.

Theorem arity_documented name ns m i :
  resolve root_table name = RResolved ns m -> find_info ns m method_info = Some i ->
  arity_as_documented i = true.
Proof.
  intros _ FI. apply (proj1 (forallb_forall _ _) arity_documented_check).
  clear - FI. induction method_info as [|j r IH]; simpl in FI; [discriminate|].
  destruct (String.eqb ns (mi_ns j) && String.eqb m (mi_name j)).
  - inversion FI; subst. left. reflexivity.
  - right. apply IH. exact FI.
Qed.

Lemma faults_referenced_check :
  forallb (fun n => match lookup n faults_table with Some _ => true | None => false end) faults_referenced = true
  /\ forallb (fun n => mem_str n dynamic_fault_allowed) dynamic_fault_sites = true.
Proof. split; vm_compute; reflexivity. Qed.

(* every Faults.X named anywhere in xmlrpc.py / rpcinterface.py exists in the
   table; code computed with getattr(Faults, ...) only in the known places *)
Theorem faults_referenced_exist :
  (forall n, In n faults_referenced -> exists c, lookup n faults_table = Some c) /\
  (forall f, In f dynamic_fault_sites -> In f dynamic_fault_allowed).
Proof.
  destruct faults_referenced_check as [A B]. split.
  - intros n I. pose proof (proj1 (forallb_forall _ _) A n I) as X. cbv beta in X.
    destruct (lookup n faults_table) as [c|]; [exists c; reflexivity|discriminate].
  - intros f I. apply mem_str_In. exact (proj1 (forallb_forall _ _) B f I).
Qed.

(* ============================================================= multicall *)

Section MultiProofs.
  Variables St R Call Cb Env : Type.
  Variable start : Call -> St -> St * (R + Cb).
  Variable poll : Cb -> St -> St * option R.
  Variable env_step : Env -> St -> St.

  Let mstate' := mstate R Call Cb.
  Let mc_loop' := mc_loop St R Call Cb start.
  Let multi' := multi St R Call Cb start poll.
  Let mc_deferred' := mc_deferred St R Call Cb Env start poll env_step.
  Let sequential' := sequential St R Call Cb Env start poll env_step.
  Let wait' := wait St R Cb Env poll env_step.

  (* what happens after the loop of multi() stopped in state (st, m) *)
  Definition finish (x : St * mstate') (envs : list Env) (polls : nat) : St * list R * bool * nat :=
    let '(st, m) := x in
    match m_callbacks _ _ _ m, m_remaining _ _ _ m with
    | [], [] => (st, m_results _ _ _ m, true, polls)
    | _, _ => mc_deferred' envs m st polls
    end.

  Lemma loop_sequential :
    forall rem res st envs polls,
      finish (mc_loop' rem res st) envs polls =
      let '(s, rs, d, k) := sequential' rem envs st in (s, (res ++ rs)%list, d, (polls + k)%nat).
  Proof.
    induction rem as [|c rem IH]; intros res st envs polls.
    - simpl. rewrite app_nil_r, Nat.add_0_r. reflexivity.
    - (* a pending callback of c, then the rest *)
      assert (L2 : forall envs cb res st polls,
        mc_deferred' envs (MkM R Call Cb [cb] rem res) st polls =
        match wait' cb envs st with
        | (s1, Some r, envs', k) =>
            let '(s, rs, d, k') := sequential' rem envs' s1 in
            (s, (res ++ r :: rs)%list, d, (polls + (k + k'))%nat)
        | (s1, None, _, k) => (s1, res, false, (polls + k)%nat)
        end).
      { clear envs res st polls.
        induction envs as [|e envs IHe]; intros cb res st polls.
        - simpl. rewrite Nat.add_0_r. reflexivity.
        - unfold mc_deferred'. simpl. unfold multi. simpl.
          destruct (poll cb (env_step e st)) as [s1 [r|]] eqn:P.
          + (* callback done: the loop continues in the same invocation *)
            specialize (IH (res ++ [r])%list s1 envs (S polls)).
            unfold finish, mc_loop' in IH.
            destruct (mc_loop St R Call Cb start rem (res ++ [r])%list s1) as [s2 m2] eqn:ML.
            fold sequential' in IH |- *.
            destruct (sequential' rem envs s1) as [[[s rs] d] k'] eqn:SQ.
            rewrite <- app_assoc in IH. simpl in IH.
            replace (polls + (1 + k'))%nat with (S polls + k')%nat by lia.
            destruct (m_callbacks R Call Cb m2) as [|cb2 cbs2] eqn:C2;
              [destruct (m_remaining R Call Cb m2) as [|r2 rem2] eqn:R2|]; exact IH.
          + (* still pending *)
            specialize (IHe cb res s1 (S polls)). unfold mc_deferred' in IHe. simpl. rewrite IHe.
            unfold wait'.
            destruct (wait St R Cb Env poll env_step cb envs s1) as [[[s ro] rest] k].
            destruct ro as [r|].
            * fold sequential'. destruct (sequential' rem rest s) as [[[s' rs] d] k'].
              replace (S polls + (k + k'))%nat with (polls + (S k + k'))%nat by lia. reflexivity.
            * replace (S polls + k)%nat with (polls + S k)%nat by lia. reflexivity. }
      unfold mc_loop'. simpl. unfold sequential'. simpl. unfold single.
      destruct (start c st) as [st' [r|cb]] eqn:SP.
      + specialize (IH (res ++ [r])%list st' envs polls). unfold mc_loop' in IH. rewrite IH.
        fold sequential'. destruct (sequential' rem envs st') as [[[s rs] d] k].
        rewrite <- app_assoc. reflexivity.
      + unfold finish. simpl. rewrite L2. unfold wait'.
        destruct (wait St R Cb Env poll env_step cb envs st') as [[[s1 ro] rest] k].
        destruct ro as [r|].
        * fold sequential'. destruct (sequential' rem rest s1) as [[[s rs] d] k']. reflexivity.
        * rewrite app_nil_r. reflexivity.
  Qed.

  (* system.multicall = the same calls issued one after another: same final
     state, same results element for element, same completion, and exactly one
     more invocation of multi() than the callbacks were polled *)
  Theorem multicall_sequential calls envs st :
    multicall St R Call Cb Env start poll env_step calls envs st =
    let '(s, rs, d, k) := sequential' calls envs st in (s, rs, d, S k).
  Proof.
    unfold multicall, multi. simpl.
    pose proof (loop_sequential calls [] st envs 1%nat) as L.
    unfold finish, mc_loop' in L.
    destruct (mc_loop St R Call Cb start calls [] st) as [s2 m2].
    destruct (sequential' calls envs st) as [[[s rs] d] k]. simpl in L.
    destruct (m_callbacks R Call Cb m2) as [|cb2 cbs2];
      [destruct (m_remaining R Call Cb m2) as [|r2 rem2]|]; exact L.
  Qed.
End MultiProofs.

(* ============================================================== examples *)

Local Open Scope string_scope.

Example ex_closure_nonvacuous :
  resolve root_table "supervisor.startProcess" = RResolved "supervisor" "startProcess" /\
  resolve mroot_table "system.listMethods" = RResolved "system" "listMethods".
Proof. split; vm_compute; reflexivity. Qed.

Example ex_alias_resolves_undocumented :
  is_resolved (resolve root_table "supervisor.readMainLog") = true /\
  mem_str "supervisor.readMainLog" documented_api = false.
Proof. split; vm_compute; reflexivity. Qed.

Example ex_bad_shapes :
  bad_shape root_table "supervisor" /\ bad_shape root_table "supervisor.getState.__call__" /\
  bad_shape root_table "supervisor._update" /\ bad_shape root_table "supervisor." /\
  bad_shape root_table ".getState" /\ bad_shape root_table "supervisor.supervisord" /\
  bad_shape mroot_table "keys.__call__" /\ bad_shape root_table "__class__.__init__" /\
  bad_shape root_table "".
Proof.
  repeat split;
    try (left; vm_compute; discriminate);
    try (right; eexists; eexists; split; [vm_compute; reflexivity|]).
  - right; right; left. reflexivity.
  - right; left. reflexivity.
  - left. reflexivity.
  - do 5 right. exists Other. split; [vm_compute; reflexivity|discriminate].
  - right; right; left. reflexivity.
  - right; right; left. reflexivity.
Qed.

Example ex_guard_constants : F_shutdown = 6 /\ F_refuse = 1 /\ F_typeerror = 2 /\ upd_threshold = 1 /\ F_mc_crash = 30.
Proof. repeat split; vm_compute; reflexivity. Qed.

Example ex_shutting_down_moods :
  map (fun m => below (snd m) "startProcess") moods_table = [false; false; true; true].
Proof. vm_compute. reflexivity. Qed.

Example ex_late_guard :
  match info_of_name "supervisor.signalAllProcesses" with
  | Some i => mi_guard i = GLate [PRead; PRead; PDelegate "signalProcess"] /\ guarded i = true
  | None => False
  end.
Proof. vm_compute. split; reflexivity. Qed.

Example ex_unguarded :
  match info_of_name "supervisor.sendRemoteCommEvent" with
  | Some i => guarded i = false
  | None => False
  end.
Proof. vm_compute. reflexivity. Qed.

Example ex_multicall_script :
  multicall nat Z scall (nat * Z) unit s_start s_poll s_env
            [SImm 1; SDef 2 5; SImm 3; SDef 1 4] (repeat tt 10) 0%nat = (3%nat, [1; 5; 3; 4], true, 4%nat) /\
  multicall nat Z scall (nat * Z) unit s_start s_poll s_env
            [SImm 1; SDef 5 5; SImm 3] (repeat tt 2) 0%nat = (2%nat, [1], false, 3%nat).
Proof. split; vm_compute; reflexivity. Qed.
