import sys
sys.path[:0]=['/verif/lib','/verif/harness']
import vlib; vlib.ensure_impl_path()
import life_driver
P=dict(startsecs=1,startretries=2,stopwaitsecs=2,stopsignal=15,priority=999,autostart=1,autorestart=1,exitcodes=[0],stopasgroup=0,killasgroup=0,cmd=0,group=0)
script={'U':2,'procs':[P],'groups':[{'priority':999,'procs':[0]}],
 'ops':[{'now':10,'acts':[]},{'now':12,'acts':[]},{'now':14,'acts':[]},{'now':16,'acts':[['exit',0,1]]},{'now':18,'acts':[]},{'now':20,'acts':[['rpc',1,'stop',0,1]]},{'now':22,'acts':[['poll']]},{'now':30,'acts':[['signal',15]]},{'now':32,'acts':[]},{'now':34,'acts':[]}]}
r=life_driver.run_script(script)
for s in r['snaps']: print(s)
for t in r['trace']: print(t)
print(r['ended'], r['crash'])
