"""C15 helper, run as a subprocess under a given PYTHONHASHSEED: an [eventlistener:x] whose
events= line lists the same event types in another order is not a change.  For every
permutation of a few event sets: boot with the first order, rewrite the file with the permuted
order, reread through the real XML-RPC handler -> must answer [[], [], []] and the freshly parsed
pool must subscribe to the same list as the active one.  Prints a JSON list of failures
{old_file, new_file, answer, hashseed}.

usage: c15_evorder.py <scratch dir> [max permutations per set]
"""
import itertools
import json
import os
import sys


def main():
    import vlib
    vlib.ensure_impl_path()
    import c15_real
    wd = sys.argv[1]
    limit = int(sys.argv[2]) if len(sys.argv) > 2 else 0
    if not os.path.isdir(wd):
        os.makedirs(wd)
    base = c15_real.base_text(wd)
    w = c15_real.RealWorld(wd)
    sets = [['PROCESS_COMMUNICATION', 'SUPERVISOR_STATE_CHANGE', 'EVENT'],
            ['TICK_5', 'PROCESS_LOG', 'PROCESS_STATE', 'TICK_60'],
            ['PROCESS_STATE_RUNNING', 'PROCESS_STATE_EXITED', 'REMOTE_COMMUNICATION', 'TICK_3600', 'PROCESS_GROUP_ADDED']]
    fails = []
    n = 0
    mk = lambda es: base + '[eventlistener:l]\ncommand=/bin/cat\nevents=%s\n\n[program:zz]\ncommand=/bin/true\n' % ','.join(es)
    for evs in sets:
        perms = list(itertools.permutations(evs))
        if limit and len(perms) > limit:
            step = len(perms) // limit
            perms = perms[::step]
        for a in (perms[0], perms[-1]):
            for pm in perms:
                if pm == a:
                    continue
                old, new = mk(a), mk(pm)
                w.boot(old)
                w.write(new)
                r = w.reload()
                n += 1
                if r != ('ok', [[[], [], []]]):
                    fails.append({'old_file': old, 'new_file': new, 'answer': repr(r),
                                  'hashseed': os.environ.get('PYTHONHASHSEED')})
    w.close()
    print(json.dumps({'runs': n, 'fails': fails[:5], 'nfails': len(fails)}))


if __name__ == '__main__':
    main()
