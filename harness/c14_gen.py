"""C14 generators: well-formed structured configurations drawn from the
documented option space, a deterministic small-scope sweep, and the stream
of single-point corruptions."""
import copy

NAMES = ['a', 'web', 'cat1', 'x_y', 'w-1', 'A.b', 'zz', 'n0', 'Pool', 'b2', 'q', 'svc-2', 'M', 'k9', 'dd']

PROCESS_NAMES_MULTI = [
    '%(program_name)s_%(process_num)02d', '%(process_num)d', 'p%(process_num)s',
    '%(group_name)s-%(process_num)03d', 'w_%(process_num)d_of_%(numprocs)d',
    '%(program_name)s-%(ENV_C14_A)s-%(process_num)d', '%(process_num)-3dx', '%(process_num)5d'.replace('5', '0'),
    '%(program_name)s.%(process_num)i', '%(process_num)ld',
]
PROCESS_NAMES_SINGLE = ['%(program_name)s', 'only', '%(group_name)s_%(program_name)s', '%(ENV_C14_B)s',
                        'n-%(numprocs)d', '100%%']

COMMANDS = [
    '/bin/cat', '/bin/prog --n=%(process_num)d', '%(here)s/run/%(program_name)s', '/bin/echo %(ENV_C14_A)s',
    '/usr/bin/env "quoted arg" x', '/bin/sh -c "sleep %(process_num)d; exit %(numprocs)d"',
    '/bin/x --pct=100%% --g=%(group_name)s', '/bin/y --host=%(host_node_name)s', 'relative/cmd -a -b',
    '/bin/z %(process_num)04d %(program_name)10s|%(program_name)-6s|',
]

BOOL_T = ['true', 'yes', 'on', '1', 'True', 'YES', 'On']
BOOL_F = ['false', 'no', 'off', '0', 'False', 'NO', 'Off']
AUTORESTART = BOOL_T[:4] + BOOL_F[:4] + ['unexpected', 'Unexpected', 'UNEXPECTED']
SIGNALS = ['TERM', 'HUP', 'INT', 'QUIT', 'KILL', 'USR1', 'USR2', 'SIGTERM', 'term', 'sigusr2', '15', '9', '1', '10']
SIZES = ['0', '1MB', '10kb', '2GB', '100', '50MB', '1Kb', '3mB', '7', '001kb']
INTS = ['0', '1', '2', '3', '10', '60', '999', '-1', '+5', '007', '1_000', '12345678901']
EXITCODES = ['0', '0,2', '1, 2 ,3', '', '255', '0,0', '2,+3']
UMASKS = ['022', '077', '0', '777', '0o22', '002']
EVENTS = ['EVENT', 'PROCESS_STATE', 'PROCESS_STATE_STOPPED', 'PROCESS_STATE_EXITED', 'PROCESS_STATE_STARTING',
          'PROCESS_STATE_RUNNING', 'PROCESS_COMMUNICATION', 'PROCESS_LOG', 'PROCESS_LOG_STDOUT',
          'REMOTE_COMMUNICATION', 'SUPERVISOR_STATE_CHANGE', 'TICK', 'TICK_5', 'TICK_60', 'TICK_3600',
          'PROCESS_GROUP', 'PROCESS_GROUP_ADDED', 'PROCESS_GROUP_REMOVED']
ENVIRONMENTS = [
    'A="1"', "A='one two',B=2", 'KEY=val,OTHER="x,y"', 'P=/usr/bin:/bin,Q="%(ENV_C14_A)s"',
    'N="%(process_num)d",M="%(program_name)s_%(process_num)02d"', 'A="1",\nB="2",\nC=three',
    'G="%(group_name)s",H="%(here)s/x"', 'A=1,A=2', 'X="",Y=\'\'', 'SUP="override",B=b', 'PCT="100%%"',
    'Z=%(ENV_C14_N)s', 'SELF="%(numprocs)d"', 'K%(process_num)d=v', 'T=1,', 'T="a",U=b,',
]
SUP_ENVIRONMENTS = ['SUP="base"', 'SUP=base,B="supb",S2=x', 'A="from_sup"', 'H="%(here)s"', 'E=%(ENV_C14_B)s',
                    'PCT="50%%%%"', 'A=1,\nB=2']


def logfile_values(here):
    return ['AUTO', 'NONE', 'off', 'auto', 'None', 'syslog', 'SYSLOG',
            '%(here)s/logs/%(program_name)s.log', '%(here)s/logs/%(program_name)s_%(process_num)02d.log',
            here + '/logs/abs.log', 'rel.log', '/tmp/c14_%(group_name)s.log', '/tmp/pct%%%%.log']


def program_options(rng, here, kind, multi_ok=True, rich=0.25):
    """Options of one program-like section (kind: program|eventlistener|fcgi-program)."""
    o = []

    def maybe(p, k, vals):
        if rng.random() < p:
            o.append((k, rng.choice(vals)))
    o.append(('command', rng.choice(COMMANDS)))
    n = 1
    if multi_ok and rng.random() < 0.45:
        r = rng.random()
        n = rng.choice([2, 2, 3, 3, 4, 5]) if r < 0.8 else (rng.randrange(6, 13) if r < 0.95 else rng.randrange(13, 41))
        o.append(('numprocs', str(n)))
        o.append(('process_name', rng.choice(PROCESS_NAMES_MULTI)))
    else:
        if rng.random() < 0.15:
            o.append(('numprocs', rng.choice(['1', '0', '01'])))
        maybe(0.3, 'process_name', PROCESS_NAMES_SINGLE + PROCESS_NAMES_MULTI[:3])
    maybe(0.35, 'numprocs_start', ['0', '1', '3', '8', '20', '-2', '98'])
    maybe(rich * 1.6, 'priority', ['1', '5', '999', '1000', '-1', '50', '500', '0', '0', '-20'])
    maybe(rich, 'autostart', BOOL_T + BOOL_F)
    maybe(rich, 'autorestart', AUTORESTART)
    maybe(rich, 'startsecs', INTS)
    maybe(rich, 'startretries', INTS)
    maybe(rich, 'stopsignal', SIGNALS)
    maybe(rich, 'stopwaitsecs', INTS)
    r = rng.random()
    if r < rich * 0.5:
        o.append(('stopasgroup', rng.choice(BOOL_T)))
        if rng.random() < 0.5:
            o.append(('killasgroup', rng.choice(BOOL_T)))
    elif r < rich:
        o.append(('killasgroup', rng.choice(BOOL_T + BOOL_F)))
        if rng.random() < 0.3:
            o.append(('stopasgroup', rng.choice(BOOL_F)))
    maybe(rich, 'exitcodes', EXITCODES)
    if kind != 'eventlistener':
        maybe(rich, 'redirect_stderr', BOOL_T + BOOL_F)
    else:
        maybe(rich * 0.5, 'redirect_stderr', BOOL_F)
    maybe(0.35, 'environment', ENVIRONMENTS)
    maybe(rich, 'directory', ['%(here)s', '/tmp', '/nonexistent/%(program_name)s', '%(here)s/run/%(process_num)d'])
    maybe(rich, 'umask', UMASKS)
    maybe(rich * 0.6, 'user', ['root', '0', 'daemon', '1'])
    maybe(rich, 'serverurl', ['AUTO', 'auto', 'Auto', 'http://localhost:9001', 'unix:///tmp/s.sock'])
    for ch in ('stdout', 'stderr'):
        maybe(rich * 1.4, ch + '_logfile', logfile_values(here))
        maybe(rich, ch + '_logfile_maxbytes', SIZES)
        maybe(rich, ch + '_logfile_backups', INTS[:7])
        maybe(rich, ch + '_capture_maxbytes', SIZES)
        maybe(rich, ch + '_events_enabled', BOOL_T + BOOL_F)
        maybe(rich, ch + '_syslog', BOOL_T + BOOL_F)
    # K%(process_num)d=v as environment only makes sense with process_num available: always is
    rng.shuffle(o)
    return o, n


def supervisord_options(rng, here, rich=0.3):
    o = []

    def maybe(p, k, vals):
        if rng.random() < p:
            o.append((k, rng.choice(vals)))
    maybe(rich, 'logfile', ['%(here)s/logs/sd.log', here + '/logs/s.log', 'sd.log', '/tmp/c14sd.log'])
    maybe(rich, 'logfile_maxbytes', SIZES)
    maybe(rich, 'logfile_backups', INTS[:7])
    maybe(rich, 'loglevel', ['info', 'debug', 'warn', 'error', 'critical', 'trace', 'blather', 'INFO', 'Debug'])
    maybe(rich, 'pidfile', ['%(here)s/run/sd.pid', 'sd.pid', '/tmp/c14sd.pid'])
    maybe(rich, 'umask', UMASKS)
    maybe(rich, 'nodaemon', BOOL_T + BOOL_F)
    maybe(rich, 'silent', BOOL_T + BOOL_F)
    maybe(rich, 'minfds', ['1024', '100', '0', '65536'])
    maybe(rich, 'minprocs', ['200', '1', '0'])
    maybe(rich, 'nocleanup', BOOL_T + BOOL_F)
    maybe(rich, 'childlogdir', ['%(here)s/logs', '/tmp', here + '/run'])
    maybe(rich * 0.5, 'user', ['root', 'nobody', 'someone'])
    maybe(rich, 'directory', ['%(here)s', '/tmp', here + '/run'])
    maybe(rich, 'strip_ansi', BOOL_T + BOOL_F)
    maybe(0.5, 'environment', SUP_ENVIRONMENTS)
    maybe(rich, 'identifier', ['supervisor', 'sup-%(here)s', 'id_%(ENV_C14_N)s'])
    rng.shuffle(o)
    return o


class _Ordered(list):
    pats = ()


def include_layout(rng, layout, files):
    """Place {file name: sections} into directories and return the included
    files in the order the reader reads them (patterns in order; within one
    pattern sorted(glob(...)), i.e. by path) with the patterns as .pats.

    flat/sub/both: every pattern matches files of one directory.
    multi: ONE pattern whose wildcard is in a directory component matches
    files that live in different directories (conf.d/d1, d2, d3)."""
    incs = []
    pats = []
    names = sorted(files)
    if layout == 'multi':
        dirs = ['d1', 'd2', 'd3']
        shape = rng.choice(['same-name', 'any-name'])
        if shape == 'same-name':
            # conf.d/d1/app.conf, conf.d/d2/app.conf, ...
            pats.append(rng.choice(['conf.d/*/app.conf', '%(here)s/conf.d/d?/app.conf', 'conf.d/d[123]/app.conf']))
            for i, fn in enumerate(names[:3]):
                incs.append(('conf.d/%s/app.conf' % dirs[i], files[fn]))
        else:
            pats.append(rng.choice(['conf.d/d*/*.conf', 'conf.d/d?/?.conf']))
            start = rng.randrange(3)
            for i, fn in enumerate(names):
                incs.append(('conf.d/%s/%s' % (dirs[(start + i) % 3], fn), files[fn]))
        ordered = _Ordered(sorted(incs))
        ordered.pats = pats
        return ordered
    if layout in ('flat', 'both'):
        pats.append(rng.choice(['conf.d/*.conf', '%(here)s/conf.d/*.conf', 'conf.d/?.conf']))
    if layout in ('sub', 'both'):
        pats.append('conf.d/sub/*.conf')
    for i, fn in enumerate(names):
        if layout == 'flat' or (layout == 'both' and i % 2 == 0):
            incs.append(('conf.d/' + fn, files[fn]))
        else:
            incs.append(('conf.d/sub/' + fn, files[fn]))
    ordered = _Ordered()
    for pat in pats:
        d = 'conf.d/sub/' if 'sub' in pat else 'conf.d/'
        ordered += sorted([x for x in incs if x[0].startswith(d) and x[0].count('/') == d.count('/')])
    ordered.pats = pats
    return ordered


def valid_config(rng, here, thorough=False):
    """A well-formed structured configuration."""
    rich = 0.35 if thorough else 0.22
    nprog = rng.choice([0, 1, 1, 2, 2, 3, 4] + ([5, 6] if thorough else []))
    nfcgi = rng.choice([0, 0, 0, 1, 1, 2] if thorough else [0, 0, 0, 1])
    nlist = rng.choice([0, 0, 1, 1, 2])
    ngroup = rng.choice([0, 0, 1, 1, 2])
    names = list(NAMES)
    rng.shuffle(names)
    progs = [names.pop() for _ in range(nprog)]
    fcgis = [names.pop() for _ in range(nfcgi)]
    lists = [names.pop() for _ in range(nlist)]
    secs = []
    for p in progs:
        o, _ = program_options(rng, here, 'program', rich=rich)
        secs.append(('program:' + p, o))
    for p in fcgis:
        o, _ = program_options(rng, here, 'fcgi-program', rich=rich)
        sock = rng.choice(['unix://%(here)s/sock/%(program_name)s.sock', 'unix:///tmp/c14.sock',
                           'tcp://localhost:9002', 'tcp://Example.COM:65535', 'tcp://127.0.0.1:1'])
        o.append(('socket', sock))
        if sock.startswith('unix') and rng.random() < 0.4:
            o.append(('socket_mode', rng.choice(['0700', '0660', '777'])))
        if sock.startswith('unix') and rng.random() < 0.3:
            o.append(('socket_owner', rng.choice(['root', 'root:root', 'daemon:daemon', '0:0', 'daemon'])))
        if rng.random() < 0.3:
            o.append(('socket_backlog', rng.choice(['1', '128', '65535'])))
        rng.shuffle(o)
        secs.append(('fcgi-program:' + p, o))
    for p in lists:
        o, _ = program_options(rng, here, 'eventlistener', rich=rich)
        evs = [rng.choice(EVENTS) for _ in range(rng.choice([1, 1, 2, 3, 5]))]
        evs = [e if rng.random() < 0.8 else e.lower() for e in evs]
        o.append(('events', rng.choice([',', ', ', ' ,']).join(evs)))
        if rng.random() < 0.3:
            o.append(('buffer_size', rng.choice(['1', '10', '100', '5000'])))
        if rng.random() < 0.2:
            o.append(('result_handler', 'supervisor.dispatchers:default_handler'))
        if rng.random() < 0.3:
            o.append(('priority', rng.choice(['-1', '0', '5', '999'])))
        rng.shuffle(o)
        secs.append(('eventlistener:' + p, o))
    members = progs + fcgis
    for _ in range(ngroup):
        if not members:
            break
        g = names.pop()
        k = rng.randrange(1, min(3, len(members)) + 1)
        chosen = rng.sample(members, k)
        o = [('programs', rng.choice([',', ', ', ' , ']).join(chosen))]
        if rng.random() < 0.5:
            o.append(('priority', rng.choice(['1', '5', '999', '1000', '-1', '50'])))
        rng.shuffle(o)
        secs.append(('group:' + g, o))
    rng.shuffle(secs)
    sup = ('supervisord', supervisord_options(rng, here, rich=rich + 0.05))
    extra = []
    if rng.random() < 0.3:
        extra.append(('supervisorctl', [('serverurl', 'unix://%(here)s/run/s.sock')]))
    if rng.random() < 0.3:
        extra.append(('rpcinterface:supervisor',
                      [('supervisor.rpcinterface_factory', 'supervisor.rpcinterface:make_main_rpcinterface')]))
    if rng.random() < 0.2:
        extra.append(('unix_http_server', [('file', '%(here)s/run/s.sock')]))
    if rng.random() < 0.15:
        extra.append(('inet_http_server', [('port', '127.0.0.1:9001')]))
    allsecs = [sup] + extra + secs
    if rng.random() < 0.6:
        rng.shuffle(allsecs)
    cfg = {'main': allsecs, 'incs': []}
    # ---- include files: move some sections out
    if rng.random() < (0.45 if thorough else 0.3) and len(secs) >= 1:
        movable = [s for s in allsecs if s[0] != 'supervisord' or rng.random() < 0.15]
        rng.shuffle(movable)
        nfiles = rng.choice([1, 2, 3, 3] if thorough else [1, 2, 2, 3])
        files = {}
        for s in movable[:rng.randrange(1, len(movable) + 1)]:
            fn = rng.choice(['a.conf', 'b.conf', 'c.conf'][:nfiles])
            files.setdefault(fn, []).append(s)
            allsecs.remove(s)
        layout = rng.choice(['flat', 'sub', 'both', 'multi', 'multi'] if thorough else ['flat', 'sub', 'multi', 'multi'])
        ordered = include_layout(rng, layout, files)
        pats = ordered.pats
        # a section also present in the main file: the included file overrides key by key
        if ordered and rng.random() < 0.3 and secs:
            name, opts = rng.choice(secs)
            if any(s[0] == name for s in allsecs):
                ordered[-1][1].append((name, [('priority', rng.choice(['7', '77']))]))
        # nested [include] inside an included file is never followed
        if ordered and rng.random() < 0.25:
            ordered[0][1].append(('include', [('files', 'nested/*.conf')]))
        allsecs.insert(rng.randrange(0, len(allsecs) + 1), ('include', [('files', rng.choice([' ', '\n']).join(pats))]))
        cfg = {'main': allsecs, 'incs': list(ordered)}
    return cfg


def sweep_configs(here, thorough=False):
    """Deterministic small scope, exhaustive in the listed dimensions: two
    programs a, b; group membership; numprocs x numprocs_start x process_name
    template x priorities; environment override."""
    out = []
    nps = [1, 2, 3, 11] if not thorough else [0, 1, 2, 3, 4, 10, 11, 12, 40]
    starts = [0, 1, -1, 9] if not thorough else [0, 1, -1, 5, 9, 95, 99, 100]
    tmpls = ['%(program_name)s_%(process_num)02d', '%(process_num)d', 'x%(process_num)s']
    for n in nps:
        for s in starts:
            for t in tmpls:
                a = [('command', '/bin/a %(process_num)d'), ('numprocs', str(n)), ('numprocs_start', str(s)),
                     ('process_name', t), ('environment', 'I="%(process_num)d"')]
                out.append({'main': [('supervisord', [('environment', 'I="sup",J="j"')]), ('program:a', a)], 'incs': []})
    # ---- included files in one or several directories, each using %(here)s in command,
    # directory, environment and log file names; per-process environments; a [group:x]
    # of programs with different environments
    def app(name, n):
        return ('program:' + name,
                [('command', '%(here)s/run.sh --app=' + name + ' --config %(here)s/srv.ini --lib=%(here)s/lib --slot=%(process_num)d'),
                 ('process_name', '%(program_name)s_%(process_num)d'), ('numprocs', str(n)),
                 ('environment', 'APP_HOME="%(here)s",CONF="%(here)s/etc:%(here)s/lib",APP="' + name + '",SLOT="%(process_num)d"'),
                 ('stdout_logfile', '%(here)s/logs/%(program_name)s_%(process_num)d.out'),
                 ('stderr_logfile', '%(here)s/logs/%(program_name)s.err'),
                 ('directory', '%(here)s')])
    for pats, places in [
        (['conf.d/*/app.conf'], ['conf.d/d1/app.conf', 'conf.d/d2/app.conf', 'conf.d/d3/app.conf']),
        (['conf.d/d?/*.conf'], ['conf.d/d1/z.conf', 'conf.d/d2/a.conf', 'conf.d/d3/m.conf']),
        (['conf.d/d1/*.conf', 'conf.d/d2/*.conf', 'conf.d/d3/*.conf'],
         ['conf.d/d1/app.conf', 'conf.d/d2/app.conf', 'conf.d/d3/app.conf']),
        (['conf.d/d3/*.conf', 'conf.d/d*/a*.conf'], ['conf.d/d3/z.conf', 'conf.d/d1/app.conf', 'conf.d/d2/app.conf']),
        (['conf.d/*.conf', 'conf.d/sub/*.conf'], ['conf.d/a.conf', 'conf.d/b.conf', 'conf.d/sub/c.conf']),
    ]:
        for n in ([2] if not thorough else [1, 2, 3]):
            for grouped in (False, True):
                names = ['alpha', 'beta', 'gamma']
                main = [('supervisord', [('logfile', '%(here)s/logs/sd.log'), ('childlogdir', '%(here)s/logs'),
                                         ('environment', 'SHARED="base",TIER="global",APP="none"')]),
                        ('program:solo', [('command', '%(here)s/run/solo'), ('directory', '%(here)s')]),
                        ('include', [('files', ' '.join(pats))])]
                if grouped:
                    main.append(('group:site', [('programs', 'alpha,solo,gamma')]))
                incs = [(rel, [app(nm, n)]) for rel, nm in zip(places, names)]
                out.append({'main': main, 'incs': incs})
    # ---- ordering: priorities 0 and negative beside small positive ones and the default, on
    # programs, groups, listener pools and fcgi programs, written in scrambled order
    for perm in ([(5, 0, 1, None, -1), (0, 999, -1, 5, 1)] if not thorough else
                 [(5, 0, 1, None, -1), (0, 999, -1, 5, 1), (None, 0, 0, -7, 1000), (1, 0, -1, -2, 2), (0, None, 0, None, 0)]):
        names = ['web', 'db', 'cron', 'misc', 'lis']
        secs = [('supervisord', [])]
        for nm, pr in zip(names, perm):
            kind = 'eventlistener' if nm == 'lis' else 'program'
            o = [('command', '/bin/' + nm)] + ([('priority', str(pr))] if pr is not None else [])
            if kind == 'eventlistener':
                o.append(('events', 'TICK_5'))
            secs.append(('%s:%s' % (kind, nm), o))
        out.append({'main': secs, 'incs': []})
        # the same priorities on [group:x] sections holding the programs, and inside one group
        gsecs = [('supervisord', [])]
        for nm, pr in zip(names[:4], perm):
            gsecs.append(('program:' + nm, [('command', '/bin/' + nm), ('priority', str(pr if pr is not None else 999)),
                                            ('numprocs', '2'), ('process_name', '%(program_name)s_%(process_num)d')]))
            gsecs.append(('group:g_' + nm, [('programs', nm)] + ([('priority', str(pr))] if pr is not None else [])))
        gsecs.append(('fcgi-program:fc', [('command', '/bin/fc'), ('socket', 'tcp://localhost:9000'), ('priority', '0')]))
        out.append({'main': gsecs, 'incs': []})
    memberships = [None, 'a', 'b', 'a,b', 'b,a', 'a,a']
    for m1 in memberships:
        for m2 in ([None, 'a', 'b'] if not thorough else memberships):
            for pa, pb, pg in ([(999, 999, 999), (1, 999, 5), (5, 5, 5), (0, 5, 1), (-1, 0, 998)] if not thorough else
                               [(999, 999, 999), (1, 999, 5), (5, 5, 5), (2, 1, 0), (999, 1, 1000), (0, 5, 1), (-1, 0, 998),
                                (0, 0, 0), (5, 0, -3)]):
                secs = [('supervisord', []),
                        ('program:b', [('command', '/bin/b'), ('priority', str(pb))]),
                        ('program:a', [('command', '/bin/a'), ('priority', str(pa)), ('numprocs', '2'),
                                       ('process_name', '%(group_name)s.%(program_name)s.%(process_num)d')]),
                        ('eventlistener:l', [('command', '/bin/l'), ('events', 'TICK_5,tick_5,PROCESS_STATE')])]
                if m1:
                    secs.append(('group:g', [('programs', m1), ('priority', str(pg))]))
                if m2:
                    secs.insert(1, ('group:b', [('programs', m2)]))
                out.append({'main': secs, 'incs': []})
    return out


# ----------------------------------------------------------------- corruptions

def base_config(here):
    """The valid configuration every corruption starts from."""
    return {'main': [
        ('supervisord', [('logfile', '%(here)s/logs/sd.log'), ('environment', 'S="sup"')]),
        ('program:web', [('command', '/bin/web --port=80%(process_num)02d'), ('numprocs', '3'),
                         ('process_name', '%(program_name)s_%(process_num)02d'), ('priority', '10'),
                         ('stopsignal', 'TERM'), ('exitcodes', '0,2'), ('autorestart', 'unexpected'),
                         ('stdout_logfile', '%(here)s/logs/%(program_name)s_%(process_num)d.log'),
                         ('stdout_logfile_maxbytes', '10MB'), ('umask', '022'),
                         ('environment', 'A="1",B="%(ENV_C14_A)s"'), ('stopasgroup', 'true'),
                         ('killasgroup', 'true'), ('startsecs', '2')]),
        ('program:db', [('command', '/bin/db')]),
        ('group:g', [('programs', 'db'), ('priority', '5')]),
        ('eventlistener:lis', [('command', '/bin/lis'), ('events', 'TICK_5,PROCESS_STATE'), ('buffer_size', '20')]),
        ('fcgi-program:fc', [('command', '/bin/fc'), ('socket', 'unix://%(here)s/sock/fc.sock'),
                             ('socket_mode', '0700')]),
    ], 'incs': []}


def _set(cfg, sec, key, val):
    cfg = copy.deepcopy(cfg)
    for i, (n, opts) in enumerate(cfg['main']):
        if n == sec:
            opts2 = [(k, v) for k, v in opts if k != key]
            if val is not None:
                opts2.append((key, val))
            cfg['main'][i] = (n, opts2)
            return cfg
    raise KeyError(sec)


def _rename(cfg, sec, new):
    cfg = copy.deepcopy(cfg)
    cfg['main'] = [((new if n == sec else n), o) for n, o in cfg['main']]
    return cfg


def corruptions(here, thorough=False):
    """[(label, documented constraint, cfg)]: every entry is the base
    configuration with exactly one point changed so that it violates a
    documented constraint; the reader must answer each with ValueError."""
    b = base_config(here)
    out = []

    def add(label, constraint, cfg):
        out.append((label, constraint, cfg))
    P, L, F, G, S = 'program:web', 'eventlistener:lis', 'fcgi-program:fc', 'group:g', 'supervisord'
    # unknown event type
    for v in ['TICK_5,NOPE', 'tick_7', 'PROCESS_STATE,', 'PROCESS-STATE', 'EVENT TICK', '__doc__', 'mro']:
        add('events=' + v, 'unknown event type', _set(b, L, 'events', v))
    add('events missing', 'unknown event type', _set(b, L, 'events', None))
    add('events empty', 'unknown event type', _set(b, L, 'events', ''))
    # numprocs > 1 without process_num
    for v in ['%(program_name)s', 'fixed', '%(group_name)s', '%(numprocs)d']:
        add('numprocs=3 process_name=' + v, 'numprocs>1 without process_num', _set(b, P, 'process_name', v))
    add('numprocs=3 process_name default', 'numprocs>1 without process_num', _set(b, P, 'process_name', None))
    add('numprocs=2 on listener without process_num', 'numprocs>1 without process_num', _set(b, L, 'numprocs', '2'))
    # process_num mentioned but not expanded into the name
    for v in ['x%%(process_num)d', '%(process_num).0s', 'x%(process_num).0sy']:
        add('numprocs=3 process_name=' + v, 'numprocs>1 without process_num (escaped or cut away)',
            _set(b, P, 'process_name', v))
    # stopasgroup without killasgroup
    for v in ['false', 'no', '0', 'off']:
        add('stopasgroup=true killasgroup=' + v, 'stopasgroup without killasgroup', _set(b, P, 'killasgroup', v))
    # forbidden characters in names
    for nm in ['we:b', 'we b', 'we/b', ':', '/x', 'a b:c']:
        add('[program:%s]' % nm, 'forbidden name characters', _rename(b, P, 'program:' + nm))
        add('[group:%s]' % nm, 'forbidden name characters', _rename(b, G, 'group:' + nm))
        add('[eventlistener:%s]' % nm, 'forbidden name characters', _rename(b, L, 'eventlistener:' + nm))
        add('[fcgi-program:%s]' % nm, 'forbidden name characters', _rename(b, F, 'fcgi-program:' + nm))
    for v in ['a b_%(process_num)d', 'a:%(process_num)d', 'a/%(process_num)d']:
        add('process_name=' + v, 'forbidden name characters', _set(b, P, 'process_name', v))
    # missing command
    for sec in (P, 'program:db', L, F):
        add('no command in [%s]' % sec, 'missing command', _set(b, sec, 'command', None))
    # malformed numbers
    for key in ['numprocs', 'numprocs_start', 'priority', 'startsecs', 'startretries', 'stopwaitsecs',
                'stdout_logfile_backups', 'stderr_logfile_backups']:
        for v in (['x', '1.5', '', '1e3', '0x10', '3 4', '--1', '1_', 'ten'] if thorough or key == 'numprocs'
                  else ['x', '1.5', '']):
            add('%s=%s' % (key, v), 'malformed number', _set(b, P, key, v))
    for v in ['x', '1.5', '']:
        add('group priority=' + v, 'malformed number', _set(b, G, 'priority', v))
        add('listener priority=' + v, 'malformed number', _set(b, L, 'priority', v))
        add('buffer_size=' + v, 'malformed number', _set(b, L, 'buffer_size', v))
        add('minfds=' + v, 'malformed number', _set(b, S, 'minfds', v))
        add('minprocs=' + v, 'malformed number', _set(b, S, 'minprocs', v))
        add('logfile_backups=' + v, 'malformed number', _set(b, S, 'logfile_backups', v))
        add('socket_backlog=' + v, 'malformed number', _set(b, F, 'socket_backlog', v))
    # decimal fractions, exponents, inf / nan on every integer-valued option of every table
    import c14_defaults as _cd
    _tables, _ = _cd.code_tables()
    fractions = ['2.7', '1.5', '1e1', '1E3', 'inf', '-inf', 'nan', 'Infinity', '1e400', '0.0', '3.', '.5', '1_0.0']
    for sec, tab in ((P, 'program'), (S, 'supervisord'), (G, 'group'), (L, 'eventlistener'), (F, 'fcgi-program')):
        for opt in sorted(set(r[0] for r in _tables[tab] if r[1] == 'integer')) + (['socket_backlog'] if tab == 'fcgi-program' else []):
            for v in (fractions if thorough or opt in ('numprocs', 'priority', 'startsecs') else fractions[:6]):
                add('[%s] %s=%s' % (sec, opt, v), 'malformed number (fraction / exponent / inf / nan)', _set(b, sec, opt, v))
    for v in ['0', '-1', '-5']:
        add('buffer_size=' + v, 'malformed number', _set(b, L, 'buffer_size', v))
    for v in ['0', '65536', '-1']:
        add('socket_backlog=' + v, 'malformed number', _set(b, F, 'socket_backlog', v))
    # negative numprocs
    for v in ['-1', '-3']:
        add('numprocs=' + v, 'negative numprocs', _set(b, P, 'numprocs', v))
        add('listener numprocs=' + v, 'negative numprocs', _set(b, L, 'numprocs', v))
    # malformed booleans
    for key in ['autostart', 'stopasgroup', 'killasgroup', 'redirect_stderr', 'stdout_events_enabled',
                'stderr_events_enabled', 'stdout_syslog', 'stderr_syslog']:
        for v in (['maybe', '2', '', 'tru', 'yes please', 't', 'y', '-1'] if thorough or key == 'autostart'
                  else ['maybe', '2', '']):
            add('%s=%s' % (key, v), 'malformed boolean', _set(b, P, key, v))
    for key in ['nodaemon', 'silent', 'nocleanup', 'strip_ansi']:
        for v in ['maybe', '']:
            add('%s=%s' % (key, v), 'malformed boolean', _set(b, S, key, v))
    add('listener redirect_stderr=true', 'redirect_stderr on a listener', _set(b, L, 'redirect_stderr', 'true'))
    add('listener redirect_stderr=maybe', 'malformed boolean', _set(b, L, 'redirect_stderr', 'maybe'))
    # bad autorestart
    for v in ['sometimes', '', '2', 'unexpected!', 'un expected', 'always']:
        add('autorestart=' + v, 'bad autorestart', _set(b, P, 'autorestart', v))
    # malformed signals
    for v in ['FOO', 'SIGFOO', '', '1.5', '999', '-1', 'TERM,KILL', 'SIG', '65', 'RTMIN+1']:
        add('stopsignal=' + v, 'malformed signal', _set(b, P, 'stopsignal', v))
    for v in ['0', '_IGN', 'SIG_DFL', '_BLOCK', 'sig_setmask']:
        add('stopsignal=' + v, 'malformed signal (not a signal: handler / sigmask constant)', _set(b, P, 'stopsignal', v))
    # malformed sizes
    for key in ['stdout_logfile_maxbytes', 'stderr_logfile_maxbytes', 'stdout_capture_maxbytes',
                'stderr_capture_maxbytes']:
        for v in (['10XB', 'MB', '', '1.5MB', '10 M B', '10B', '1TB', 'kb', '0x1kb'] if thorough or key.startswith('stdout_logfile')
                  else ['10XB', 'MB', '']):
            add('%s=%s' % (key, v), 'malformed size', _set(b, P, key, v))
    for v in ['10XB', 'MB', '']:
        add('logfile_maxbytes=' + v, 'malformed size', _set(b, S, 'logfile_maxbytes', v))
    # doubled suffix letters, suffix twice, suffix only, embedded blanks, decimal point, hex ... on every byte_size key
    import c14_defaults
    tables, _ = c14_defaults.code_tables()
    bad_sizes = ['10KKB', '2GGB', '50MMB', '1kbkb', '12bkb', 'kbkb', 'kb', '10k b', '1 0kb', '1.5gb', '0x10kb', '10kbb',
                 '10bk', '1e3kb', '10kbmb', '10k', '10kib', '1,000kb', '7mmb', '5gbb']
    for sec, tab in ((P, 'program'), (S, 'supervisord')):
        for opt in sorted(set(r[0] for r in tables[tab] if r[1] == 'byte_size')):
            for v in (bad_sizes if thorough or opt.endswith('logfile_maxbytes') else bad_sizes[:6]):
                add('%s=%s' % (opt, v), 'malformed size', _set(b, sec, opt, v))
    # malformed exit codes
    for v in ['a', '0,,2', '256', '-1', '0;2', '1.0', '0,2,', ',', '0 2', '300,0']:
        add('exitcodes=' + v, 'malformed exit codes', _set(b, P, 'exitcodes', v))
    # umask
    for v in ['999', '8', 'abc', '', '-', '0x12', '0b1', '08']:
        add('umask=' + v, 'malformed umask', _set(b, P, 'umask', v))
    for v in ['999', 'abc', '']:
        add('supervisord umask=' + v, 'malformed umask', _set(b, S, 'umask', v))
        add('socket_mode=' + v, 'malformed umask', _set(b, F, 'socket_mode', v))
    # malformed expansions
    bad_exp = ['%(', '%(here', '%(nope)s', '%(ENV_C14_NOPE)s', '%(here)', '%(here)z', '%', 'x %', '%(process_num)q',
               '%(program_name)d', '%(here)*d', '%d', '%(process_num)', '%()s', '%((here)s', '%(group_name', '% d']
    for v in bad_exp:
        add('command=/bin/x ' + v, 'malformed expansion', _set(b, P, 'command', '/bin/x ' + v))
    for key in ['process_name', 'environment', 'stdout_logfile', 'directory', 'priority', 'autostart', 'umask',
                'stopsignal', 'serverurl', 'user', 'numprocs', 'stderr_logfile', 'exitcodes']:
        for v in (bad_exp if thorough else bad_exp[:6]):
            vv = {'process_name': 'p%(process_num)d' + v, 'environment': 'K="' + v + '"',
                  'stdout_logfile': '/tmp/' + v, 'stderr_logfile': '/tmp/' + v}.get(key, v)
            add('%s=%s' % (key, vv), 'malformed expansion', _set(b, P, key, vv))
    for v in bad_exp[:8]:
        add('supervisord environment=K="%s"' % v, 'malformed expansion', _set(b, S, 'environment', 'K="%s"' % v))
        add('supervisord logfile=/tmp/' + v, 'malformed expansion', _set(b, S, 'logfile', '/tmp/' + v))
        add('group programs=' + v, 'malformed expansion', _set(b, G, 'programs', v))
        add('listener events=' + v, 'malformed expansion', _set(b, L, 'events', v))
        add('fcgi socket=' + v, 'malformed expansion', _set(b, F, 'socket', 'unix:///tmp/' + v))
    for v in ['%(process_num)d', '%(group_name)s', '%(numprocs)d']:
        add('priority=' + v, 'malformed expansion (name not available for this option)', _set(b, P, 'priority', v))
    for v in ['%(program_name)s', '%(process_num)d', '%(host_node_name)s']:
        add('supervisord identifier=' + v, 'malformed expansion (name not available for this option)',
            _set(b, S, 'identifier', v))
    # a format expression without a name formats the whole dictionary
    for v in ['%s', '%r', '%5s', 'x%sy', '%a']:
        add('command=/bin/x ' + v, 'malformed expansion (conversion without a name)', _set(b, P, 'command', '/bin/x ' + v))
        add('directory=' + v, 'malformed expansion (conversion without a name)', _set(b, P, 'directory', '/tmp/' + v))
    # environment syntax
    for v in ['KEY', 'KEY=', 'A=1,B', '=1', 'A="unclosed', "A='x", 'A=1 B=2 C', 'A==1', ',', 'A=1,,B=2',
              'A=1;B=2', 'A=1 B=2', 'A=1=B', 'A="x""y"', 'A=1,B=2 C=3']:
        add('environment=' + v, 'malformed environment', _set(b, P, 'environment', v))
        add('supervisord environment=' + v, 'malformed environment', _set(b, S, 'environment', v))
    # groups
    for v in ['nope', 'db,nope', 'web,,db', 'fc2', ',']:
        add('group programs=' + v, 'group names unknown program', _set(b, G, 'programs', v))
    # log files in directories that do not exist
    for key in ['stdout_logfile', 'stderr_logfile']:
        add(key + ' in missing dir', 'log directory must exist', _set(b, P, key, '/nonexistent_c14/x.log'))
    add('supervisord logfile in missing dir', 'log directory must exist', _set(b, S, 'logfile', '/nonexistent_c14/x.log'))
    add('supervisord pidfile in missing dir', 'log directory must exist', _set(b, S, 'pidfile', '/nonexistent_c14/x.pid'))
    add('supervisord childlogdir missing', 'directory must exist', _set(b, S, 'childlogdir', '/nonexistent_c14'))
    add('supervisord directory missing', 'directory must exist', _set(b, S, 'directory', '/nonexistent_c14'))
    for v in ['nope', 'WARNING', '', '20', '__doc__']:
        add('loglevel=' + v, 'bad log level', _set(b, S, 'loglevel', v))
    add('loglevel=__module__', 'bad log level (class attribute that is not a level)', _set(b, S, 'loglevel', '__module__'))
    # users
    for v in ['no_such_user_c14', '99999', '-1', '']:
        add('user=' + v, 'unknown user', _set(b, P, 'user', v))
        add('fcgi user=' + v, 'unknown user', _set(b, F, 'user', v))
    for v in ['no_such_user_c14', 'root:no_such_group_c14', ':', 'root:']:
        add('socket_owner=' + v, 'unknown user', _set(b, F, 'socket_owner', v))
    # fcgi socket
    for v in ['', 'unix://relative/path', 'tcp://localhost', 'tcp://localhost:0', 'tcp://localhost:65536',
              'tcp://localhost:http', 'http://localhost:9000', 'tcp://a b:80', 'tcp://:80', 'localhost:9000']:
        add('socket=' + v, 'malformed socket', _set(b, F, 'socket', v))
    add('socket missing', 'malformed socket', _set(b, F, 'socket', None))
    add('tcp socket with socket_mode', 'malformed socket', _set(b, F, 'socket', 'tcp://localhost:9000'))
    add('result_handler unresolvable', 'bad result_handler', _set(b, L, 'result_handler', 'supervisor.nope:handler'))
    add('result_handler attribute missing', 'bad result_handler', _set(b, L, 'result_handler', 'supervisor.dispatchers:nope'))
    add('result_handler without colon', 'bad result_handler', _set(b, L, 'result_handler', 'supervisor.dispatchers'))
    # no [supervisord]
    c = copy.deepcopy(b)
    c['main'] = [s for s in c['main'] if s[0] != 'supervisord']
    add('no [supervisord] section', 'supervisord section required', c)
    # include without files
    c = copy.deepcopy(b)
    c['main'].append(('include', [('other', 'x')]))
    add('[include] without files', 'include requires files', c)
    c = copy.deepcopy(b)
    c['main'].append(('include', [('files', '%(nope)s/*.conf')]))
    add('[include] files with unknown name', 'malformed expansion', c)
    return out


# ------------------------------------------------ option-table and expansion grids

def grid_base(here):
    return {'main': [
        ('supervisord', []),
        ('program:web', [('command', '/bin/web'), ('numprocs', '2'),
                         ('process_name', '%(program_name)s_%(process_num)d')]),
        ('group:grp', [('programs', 'web')]),
        ('eventlistener:lis', [('command', '/bin/lis'), ('events', 'TICK_5')]),
        ('fcgi-program:fc', [('command', '/bin/fc'), ('socket', 'unix://%(here)s/sock/fc.sock')]),
    ], 'incs': []}


def option_tables():
    """{section of grid_base: [(option, converter)]} from the translator's reading
    of the get(...) calls, so that a new option gets its grid rows by itself."""
    import c14_defaults
    tables, _ = c14_defaults.code_tables()
    uniq = lambda rows: list(dict((r[0], r[1]) for r in rows).items())
    prog = uniq(tables['program'])
    return {
        'supervisord': uniq(tables['supervisord']),
        'program:web': prog,
        'group:grp': uniq(tables['group']),
        'eventlistener:lis': uniq(tables['eventlistener']) + [r for r in prog if r[0] in
                                                              ('command', 'numprocs', 'process_name', 'stdout_capture_maxbytes',
                                                               'autostart', 'environment', 'stderr_logfile')],
        'fcgi-program:fc': uniq(tables['fcgi-program']) + [r for r in prog if r[0] in
                                                           ('command', 'numprocs', 'process_name', 'environment', 'directory')],
    }


def table_grid(here, thorough=False):
    """Every key of every option table set to its configured-but-falsy values
    (0, false, 000, empty) and to a bad value, one key at a time, plus every
    [supervisord] key falsy at once: [(label, cfg)]."""
    b = grid_base(here)
    out = []
    # values carry no leading/trailing blanks: the tokeniser strips them
    for sec, rows in option_tables().items():
        for opt, conv in rows:
            for v in ['0', 'false', '', 'x!'] + (['000', 'none', '-0', '0 0'] if thorough else []):
                out.append(('%s %s=%r' % (sec, opt, v), _set(b, sec, opt, v)))
    allfalsy = [('logfile_maxbytes', '0'), ('logfile_backups', '0'), ('minfds', '0'), ('minprocs', '0'),
                ('umask', '000'), ('nodaemon', 'false'), ('silent', '0'), ('nocleanup', 'no'), ('strip_ansi', 'off'),
                ('identifier', ''), ('environment', ''), ('logfile', ''), ('pidfile', ''), ('user', '')]
    c = copy.deepcopy(b)
    c['main'][0] = ('supervisord', allfalsy)
    out.append(('supervisord: every option falsy', c))
    for i in range(len(allfalsy)):
        c = copy.deepcopy(b)
        c['main'][0] = ('supervisord', allfalsy[i:i + 1] + [('loglevel', 'debug')])
        out.append(('supervisord: %s=%r only' % allfalsy[i], c))
    return out


VARS = ['here', 'program_name', 'group_name', 'host_node_name', 'process_num', 'numprocs', 'ENV']


def _var_text(var, conv, opt):
    if var == 'process_num' or var == 'numprocs':
        return '%%(%s)d' % var
    if var == 'ENV':
        name = {'integer': 'N', 'byte_size': 'N', 'boolean': 'T', 'signal_number': 'S', 'octal_type': 'N',
                'list_of_exitcodes': 'N', 'auto_restart': 'T', 'logging_level': 'A'}.get(conv, 'A')
        if opt == 'events':
            name = 'E'
        if opt == 'programs':
            name = 'W'
        if opt in ('umask', 'socket_mode', 'socket_backlog', 'buffer_size'):
            name = 'N'
        return '%%(ENV_C14_%s)s' % name
    return '%%(%s)s' % var


def expansion_grid(here, thorough=False):
    """Every expansion variable in every key of every option table:
    [(label, cfg)].  Whether the variable is available for the key (and whether
    the expanded text converts) is what the model has to predict."""
    b = grid_base(here)
    out = []
    for sec, rows in option_tables().items():
        for opt, conv in rows:
            for var in VARS:
                t = _var_text(var, conv, opt)
                if opt == 'command':
                    v = '/bin/x --v=' + t
                elif opt == 'process_name':
                    v = ('p_%s' % t) if var == 'process_num' else 'p_%s_%%(process_num)d' % t
                elif opt == 'environment':
                    v = 'K="%s",L=%s' % (t, t) if var not in ('here',) else 'K="%s"' % t
                elif opt.endswith('_logfile') or opt in ('logfile', 'pidfile'):
                    v = '/tmp/c14_%s.log' % t if var != 'here' else '%s/logs/x.log' % t
                elif opt in ('directory', 'childlogdir'):
                    v = '/tmp/%s' % t if var != 'here' else t
                elif opt == 'serverurl':
                    v = 'http://h/' + t
                elif opt == 'socket':
                    v = 'unix:///tmp/c14_%s.sock' % t if var != 'here' else 'unix://%s/sock/x.sock' % t
                elif opt == 'identifier':
                    v = 'id-' + t
                else:
                    v = t
                out.append(('%s %s=%s' % (sec, opt, v), _set(b, sec, opt, v)))
    strkeys = ('command', 'environment', 'directory', 'stdout_logfile', 'stderr_logfile', 'serverurl', 'process_name',
               'identifier', 'logfile', 'socket')
    for sec, rows in option_tables().items():
        for opt, conv in rows:
            if opt not in strkeys:
                continue
            for nm in ('F', 'X', 'Q'):
                t = '%%(ENV_C14_%s)s' % nm
                v = {'command': '/bin/x --fmt=' + t + ' --again ' + t, 'environment': 'K="%s",L="x"' % t,
                     'process_name': 'p_%s_%%(process_num)d' % t, 'directory': '/tmp/' + t, 'serverurl': 'http://h/' + t,
                     'identifier': 'id-' + t, 'socket': 'unix:///tmp/c14_%s.sock' % t}.get(opt, '/tmp/c14_%s.log' % t)
                out.append(('%s %s=%s' % (sec, opt, v), _set(b, sec, opt, v)))
    for var in ['here', 'host_node_name', 'ENV', 'program_name', 'process_num']:
        c = copy.deepcopy(b)
        c['main'].append(('include', [('files', '%s/none/*.conf' % _var_text(var, '', 'files'))]))
        out.append(('include files=%s' % var, c))
    return out


def text_corruptions(here):
    """Corruptions of the ini text itself (tokeniser level, not modelled):
    the reader must still answer with ValueError."""
    from c14_cfg import render_sections
    good = render_sections(base_config(here)['main'])
    out = []
    out.append(('line before any section', 'command=/bin/x\n' + good))
    out.append(('key without value or delimiter', good.replace('numprocs=3', 'numprocs')))
    out.append(('unterminated section header', good.replace('[program:db]', '[program:db')))
    out.append(('garbage line', good.replace('[group:g]', 'this is not ini\n[group:g]')))
    out.append(('continuation line as first line of a section', good.replace('[group:g]\n', '[group:g]\n  orphan\n')))
    out.append(('empty file', ''))
    out.append(('only comments', '; nothing\n# here\n'))
    out.append(('NUL byte', good.replace('/bin/db', '/bin/d\x00b')))
    out.append(('invalid utf-8', None))   # written as bytes by the caller
    out.append(('section header with trailing junk', good.replace('[program:db]', '[program:db] junk')))
    out.append(('empty section name', good.replace('[program:db]', '[]')))
    out.append(('program section without name', good.replace('[program:db]', '[program:]').replace('programs=db', 'programs=')))
    return out
