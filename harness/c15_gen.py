"""C15 generators: pairs (old file, new file) of supervisord configurations.

A configuration is a list of sections [(header, [(key, value), ...]), ...]; the
[supervisord] section is added by the harness.  Every single-option case carries
a *file-level expectation* derived from the hand-written tables below (not from
the implementation): whether the change alters the meaning of the option.
"""
import copy

# Every path or port a generated file names is a placeholder until the check has chosen the
# run's own scratch directory and free TCP ports (fcgi groups really bind their sockets when
# they are made): @TMP@ -> directory under the run's work directory, @P2@/@P3@/@P9@ -> ports.
SUBST = {'@TMP@': '/nonexistent-c15-not-configured', '@P2@': '0', '@P3@': '0', '@P9@': '0'}


def configure(tmpdir, ports):
    SUBST['@TMP@'] = tmpdir
    SUBST['@P2@'], SUBST['@P3@'], SUBST['@P9@'] = [str(x) for x in ports]


def subst(t):
    if t is None:
        return None
    if isinstance(t, bytes):
        for k, v in SUBST.items():
            t = t.replace(k.encode(), v.encode())
        return t
    for k, v in SUBST.items():
        t = t.replace(k, v)
    return t

MULTI = '%(program_name)s_%(process_num)d'

# option -> list of (text or None for "line absent", semantic key).  Equal keys
# mean "same meaning" (absent vs. documented default, spelling variants).
PROGRAM_OPTIONS = {
    'command': [('/bin/cat', 'cat'), ('/bin/cat -u', 'cat-u'), ('/bin/echo hi', 'echo')],
    'process_name': [(None, 'dflt'), ('%(program_name)s', 'dflt'), ('zz', 'zz'), ('%(group_name)s_x', 'gx')],
    'directory': [(None, None), ('@TMP@', '/tmp'), ('/', '/')],
    'umask': [(None, None), ('022', 18), ('22', 18), ('077', 63), ('000', 0), ('777', 511)],
    'priority': [(None, 999), ('999', 999), ('1', 1), ('998', 998), ('0', 0), ('-1', -1), ('2147483647', 2147483647)],
    'autostart': [(None, True), ('true', True), ('false', False)],
    'autorestart': [(None, 'u'), ('unexpected', 'u'), ('true', 't'), ('false', 'f')],
    'startsecs': [(None, 1), ('1', 1), ('0', 0), ('5', 5), ('86400', 86400)],
    'startretries': [(None, 3), ('3', 3), ('0', 0), ('10', 10), ('1000000', 1000000)],
    'stopsignal': [(None, 15), ('TERM', 15), ('15', 15), ('INT', 2), ('KILL', 9), ('USR1', 10), ('1', 1), ('64', 64), ('31', 31)],
    'stopwaitsecs': [(None, 10), ('10', 10), ('1', 1), ('30', 30), ('0', 0)],
    'stopasgroup': [(None, False), ('false', False), ('true', True)],
    'killasgroup': [(None, False), ('false', False), ('true', True)],
    'exitcodes': [(None, '0'), ('0', '0'), ('0,2', '0,2'), ('1', '1'), ('0,255', '0,255'), ('255', '255')],
    'redirect_stderr': [(None, False), ('false', False), ('true', True)],
    'user': [(None, None), ('nobody', 65534), ('daemon', 1), ('1', 1)],
    'stdout_logfile': [(None, 'AUTO'), ('AUTO', 'AUTO'), ('NONE', None), ('@TMP@/c15_a.log', 'a'), ('@TMP@/c15_b.log', 'b')],
    'stdout_logfile_maxbytes': [(None, 50), ('50MB', 50), ('1MB', 1), ('0', 0), ('2GB', 2048)],
    'stdout_logfile_backups': [(None, 10), ('10', 10), ('0', 0), ('3', 3)],
    'stdout_capture_maxbytes': [(None, 0), ('0', 0), ('1KB', 1024), ('1024', 1024), ('7', 7)],
    'stdout_events_enabled': [(None, False), ('false', False), ('true', True)],
    'stdout_syslog': [(None, False), ('false', False), ('true', True)],
    'stderr_logfile': [(None, 'AUTO'), ('AUTO', 'AUTO'), ('NONE', None), ('@TMP@/c15_a.log', 'a'), ('@TMP@/c15_b.log', 'b')],
    'stderr_logfile_maxbytes': [(None, 50), ('50MB', 50), ('1MB', 1), ('0', 0)],
    'stderr_logfile_backups': [(None, 10), ('10', 10), ('0', 0), ('3', 3)],
    'stderr_capture_maxbytes': [(None, 0), ('0', 0), ('1KB', 1024), ('7', 7)],
    'stderr_events_enabled': [(None, False), ('false', False), ('true', True)],
    'stderr_syslog': [(None, False), ('false', False), ('true', True)],
    'environment': [(None, ()), ('A="1"', (('A', '1'),)), ('A="2"', (('A', '2'),)),
                    ('A="1",B="2"', (('A', '1'), ('B', '2'))), ('B="2",A="1"', (('A', '1'), ('B', '2')))],
    'serverurl': [(None, None), ('AUTO', None), ('http://localhost:9001', 'h'), ('unix://@TMP@/c15_s.sock', 'u')],
}
# options that need a process_name with %(process_num)d
MULTI_OPTIONS = {
    'numprocs': [(None, 1), ('1', 1), ('2', 2), ('3', 3), ('40', 40)],
    'numprocs_start': [(None, 0), ('0', 0), ('1', 1), ('5', 5)],
}
LOGFILE_OPTIONS = ('stdout_logfile', 'stderr_logfile')

POOL_OPTIONS = {
    'buffer_size': [(None, 10), ('10', 10), ('20', 20), ('1', 1), ('1000000', 1000000)],
    'events': [('TICK_5', ('TICK_5',)), ('TICK_5,TICK_60', ('TICK_5', 'TICK_60')), ('TICK_60,TICK_5', ('TICK_5', 'TICK_60')),
               ('PROCESS_STATE', ('PROCESS_STATE',)), ('tick_5', ('TICK_5',)),
               ('PROCESS_STATE,PROCESS_STATE_RUNNING', ('PROCESS_STATE', 'PROCESS_STATE_RUNNING')),
               ('PROCESS_COMMUNICATION,SUPERVISOR_STATE_CHANGE,EVENT', ('EVENT', 'PROCESS_COMMUNICATION', 'SUPERVISOR_STATE_CHANGE')),
               ('EVENT,SUPERVISOR_STATE_CHANGE,PROCESS_COMMUNICATION', ('EVENT', 'PROCESS_COMMUNICATION', 'SUPERVISOR_STATE_CHANGE'))],
    'result_handler': [(None, 'd'), ('supervisor.dispatchers:default_handler', 'd'),
                       ('supervisor.childutils:get_asctime', 'g')],
    # absent: pool -1 and its processes 999; given: both take the value
    'priority': [(None, 'dflt'), ('-1', -1), ('999', 999), ('5', 5), ('0', 0)],
}
FCGI_OPTIONS = {
    'socket': [('unix://@TMP@/c15.sock', 'u1'), ('unix://@TMP@/c15b.sock', 'u2'), ('tcp://localhost:@P2@', 't1'),
               ('tcp://localhost:@P3@', 't2'), ('tcp://127.0.0.1:@P2@', 't3')],
    'socket_owner': [(None, None), ('nobody', 'n'), ('daemon:daemon', 'd')],
    'socket_mode': [(None, 0o700), ('0700', 0o700), ('0777', 0o777), ('0600', 0o600), ('0000', 0), ('0', 0)],
    'socket_backlog': [(None, None), ('5', 5), ('10', 10), ('1', 1), ('65535', 65535)],
}
GROUP_OPTIONS = {
    'priority': [(None, 999), ('999', 999), ('5', 5), ('0', 0)],
    'programs': [('a,b', 'ab'), ('a', 'a'), ('b,a', 'ba'), ('a,b,c', 'abc')],
}

BYSTANDER = ('program:zz', [('command', '/bin/true'), ('autostart', 'false')])


def _opts(base, option, text):
    o = [(k, v) for k, v in base if k != option]
    if text is not None:
        o.append((option, text))
    return o


def host(kind, option, text):
    """(sections, name of the group the option belongs to) for one host kind"""
    if kind == 'program':
        return [('program:a', _opts([('command', '/bin/cat')], option, text)), BYSTANDER], 'a'
    if kind == 'program_n':
        return [('program:a', _opts([('command', '/bin/cat'), ('numprocs', '2'), ('process_name', MULTI)], option, text)),
                BYSTANDER], 'a'
    if kind == 'member':
        return [('group:g', [('programs', 'a,b')]),
                ('program:a', _opts([('command', '/bin/cat')], option, text)),
                ('program:b', [('command', '/bin/true')]), BYSTANDER], 'g'
    if kind == 'listener':
        return [('eventlistener:a', _opts([('command', '/bin/cat'), ('events', 'TICK_5')], option, text)), BYSTANDER], 'a'
    if kind == 'fcgi':
        return [('fcgi-program:a', _opts([('command', '/bin/cat'), ('socket', 'unix://@TMP@/c15.sock')], option, text)),
                BYSTANDER], 'a'
    if kind == 'fcgi_tcp':
        return [('fcgi-program:a', _opts([('command', '/bin/cat'), ('socket', 'tcp://localhost:@P2@')], option, text)),
                BYSTANDER], 'a'
    if kind == 'fcgi_member':
        return [('group:g', [('programs', 'a,b')]),
                ('fcgi-program:a', _opts([('command', '/bin/cat'), ('socket', 'unix://@TMP@/c15.sock')], option, text)),
                ('program:b', [('command', '/bin/true')]), BYSTANDER], 'g'
    if kind == 'group':
        return [('group:g', _opts([('programs', 'a,b')], option, text)),
                ('program:a', [('command', '/bin/cat')]), ('program:b', [('command', '/bin/true')]),
                ('program:c', [('command', '/bin/false')]), BYSTANDER], 'g'
    raise ValueError(kind)


def single_option_cases(tier):
    """Every ordered pair of values of every option, in every host kind where the
    option is legal.  Yields dict(old, new, target, option, host, expect) where expect is
    'changed' | 'same' (file-level expectation for the target group)."""
    out = []
    full_hosts = ['program', 'member', 'listener', 'fcgi'] + (['program_n'] if tier != 'quick' else [])

    def pairs(vals):
        allp = [(a, b) for a in vals for b in vals if a is not b]
        if tier != 'quick' or len(vals) <= 4:
            return allp
        # quick: every pair among the first four values; a further (boundary) value against absent and one other
        keep = set(id(v) for v in vals[:4])
        return [(a, b) for a, b in allp if (id(a) in keep and id(b) in keep)
                or (id(a) not in keep and b in (vals[0], vals[2])) or (id(b) not in keep and a is vals[0])]

    for option, vals in sorted(PROGRAM_OPTIONS.items()):
        hosts = list(full_hosts)
        if tier == 'quick' and option not in ('command', 'environment', 'stdout_logfile', 'stderr_logfile', 'priority'):
            hosts = ['program', 'listener'] if len(vals) > 3 else hosts
        for h in hosts:
            if option == 'redirect_stderr' and h == 'listener':
                continue
            if option == 'process_name' and h == 'program_n':
                continue
            if option == 'priority' and h == 'listener':
                continue          # a pool's own default priority differs: see POOL_OPTIONS
            for (t1, k1), (t2, k2) in pairs(vals):
                if option in LOGFILE_OPTIONS:
                    # active config has a concrete name where the old file said AUTO
                    exp = 'same' if k2 == 'AUTO' else ('changed' if k1 != k2 else 'same')
                else:
                    exp = 'changed' if k1 != k2 else 'same'
                so, target = host(h, option, t1)
                sn, _ = host(h, option, t2)
                out.append({'old': so, 'new': sn, 'target': target, 'option': option, 'host': h, 'expect': exp,
                            'values': [t1, t2]})
    for option, vals in sorted(MULTI_OPTIONS.items()):
        for h in ('program_n', 'listener_n', 'member_n'):
            for (t1, k1), (t2, k2) in pairs(vals):
                def mk(t):
                    base = [('command', '/bin/cat'), ('process_name', MULTI)]
                    if h == 'listener_n':
                        return [('eventlistener:a', _opts(base + [('events', 'TICK_5')], option, t)), BYSTANDER], 'a'
                    if h == 'member_n':
                        return [('group:g', [('programs', 'a,b')]), ('program:a', _opts(base, option, t)),
                                ('program:b', [('command', '/bin/true')]), BYSTANDER], 'g'
                    return [('program:a', _opts(base, option, t)), BYSTANDER], 'a'
                so, target = mk(t1)
                sn, _ = mk(t2)
                # with numprocs 1 the start number still names the process
                out.append({'old': so, 'new': sn, 'target': target, 'option': option, 'host': h,
                            'expect': 'changed' if k1 != k2 else 'same', 'values': [t1, t2]})
    for table, hosts in ((POOL_OPTIONS, ['listener']), (FCGI_OPTIONS, ['fcgi', 'fcgi_tcp']), (GROUP_OPTIONS, ['group'])):
        for option, vals in sorted(table.items()):
            for h in hosts:
                for (t1, k1), (t2, k2) in pairs(vals):
                    if h.startswith('fcgi') and option in ('socket_owner', 'socket_mode'):
                        if h == 'fcgi_tcp':
                            continue      # only legal with a unix socket
                    if h.startswith('fcgi') and option == 'socket':
                        if h == 'fcgi_tcp':
                            continue
                    so, target = host(h, option, t1)
                    sn, _ = host(h, option, t2)
                    out.append({'old': so, 'new': sn, 'target': target, 'option': option, 'host': h,
                                'expect': 'changed' if k1 != k2 else 'same', 'values': [t1, t2]})
    return out


# ------------------------------------------------------------ structural cases

def P(name, *extra):
    return ('program:%s' % name, [('command', '/bin/cat')] + list(extra))


def L(name, *extra):
    return ('eventlistener:%s' % name, [('command', '/bin/cat'), ('events', 'TICK_5')] + list(extra))


def F(name, *extra):
    return ('fcgi-program:%s' % name, [('command', '/bin/cat'), ('socket', 'tcp://localhost:@P2@')] + list(extra))


def G(name, programs, *extra):
    return ('group:%s' % name, [('programs', programs)] + list(extra))


def structural_cases():
    """(label, old, new, expected (added, changed, removed) or None when left to the judge)"""
    n2 = [('numprocs', '2'), ('process_name', MULTI)]
    n3 = [('numprocs', '3'), ('process_name', MULTI)]
    C = []
    a = C.append
    a(('nothing', [P('a'), L('l'), F('f')], [P('a'), L('l'), F('f')], ([], [], [])))
    a(('empty-empty', [], [], ([], [], [])))
    a(('all-added', [], [P('a'), L('l'), F('f')], (['l', 'a', 'f'], [], [])))
    a(('all-removed', [P('a'), L('l'), F('f')], [], ([], [], ['l', 'a', 'f'])))
    a(('add-one', [P('a')], [P('a'), P('b')], (['b'], [], [])))
    a(('remove-one', [P('a'), P('b')], [P('a')], ([], [], ['b'])))
    a(('rename', [P('a'), P('keep')], [P('a2'), P('keep')], (['a2'], [], ['a'])))
    a(('reorder-sections', [P('a'), P('b'), L('l')], [L('l'), P('b'), P('a')], ([], [], [])))
    a(('reorder-options', [P('a', ('startsecs', '3'), ('autostart', 'false'))],
       [('program:a', [('autostart', 'false'), ('startsecs', '3'), ('command', '/bin/cat')])], ([], [], [])))
    a(('add-remove-change', [P('a'), P('b'), P('c')], [P('b', ('startsecs', '9')), P('c'), P('d')],
       (['d'], ['b'], ['a'])))
    a(('numprocs-grow', [P('a', *n2)], [P('a', *n3)], ([], ['a'], [])))
    a(('numprocs-shrink', [P('a', *n3)], [P('a', *n2)], ([], ['a'], [])))
    a(('numprocs-1-to-2', [P('a', ('process_name', MULTI))], [P('a', *n2)], ([], ['a'], [])))
    a(('program-to-fcgi', [P('a')], [F('a')], ([], ['a'], [])))
    a(('fcgi-to-program', [F('a')], [P('a')], ([], ['a'], [])))
    a(('program-to-listener', [P('a')], [L('a', ('priority', '999'))], ([], ['a'], [])))
    a(('listener-to-program', [L('a', ('priority', '999'))], [P('a')], ([], ['a'], [])))
    a(('fcgi-to-listener', [F('a')], [L('a', ('priority', '999'))], ([], ['a'], [])))
    a(('program-to-group-of-one', [P('a')], [G('a', 'a'), P('a')], ([], [], [])))
    a(('group-of-one-to-program', [G('a', 'a'), P('a')], [P('a')], ([], [], [])))
    a(('program-into-group', [P('a'), P('b')], [G('g', 'a,b'), P('a'), P('b')], (['g'], [], ['a', 'b'])))
    a(('program-out-of-group', [G('g', 'a,b'), P('a'), P('b')], [G('g', 'a'), P('a'), P('b')], (['b'], ['g'], [])))
    a(('group-member-order', [G('g', 'a,b'), P('a'), P('b')], [G('g', 'b,a'), P('a'), P('b')], ([], ['g'], [])))
    a(('group-member-option', [G('g', 'a,b'), P('a'), P('b')], [G('g', 'a,b'), P('a'), P('b', ('umask', '027'))],
       ([], ['g'], [])))
    a(('group-fcgi-member', [G('g', 'a,b'), P('a'), P('b')], [G('g', 'a,b'), P('a'), F('b')], None))
    a(('group-member-numprocs', [G('g', 'a'), P('a', *n2)], [G('g', 'a'), P('a', *n3)], ([], ['g'], [])))
    a(('group-priority', [G('g', 'a'), P('a')], [G('g', 'a', ('priority', '3')), P('a')], ([], ['g'], [])))
    a(('group-rename', [G('g', 'a'), P('a')], [G('h', 'a'), P('a')], (['h'], [], ['g'])))
    a(('member-moves-between-groups', [G('g1', 'a,b'), G('g2', 'c'), P('a'), P('b'), P('c')],
       [G('g1', 'a'), G('g2', 'c,b'), P('a'), P('b'), P('c')], ([], ['g1', 'g2'], [])))
    a(('member-moves-to-new-group', [G('g1', 'a,b'), P('a'), P('b')], [G('g1', 'a'), G('g2', 'b'), P('a'), P('b')],
       (['g2'], ['g1'], [])))
    a(('members-swap-groups', [G('g1', 'a'), G('g2', 'b'), P('a'), P('b')], [G('g1', 'b'), G('g2', 'a'), P('a'), P('b')],
       ([], ['g1', 'g2'], [])))
    a(('priority-only-program', [P('a'), P('b')], [P('a', ('priority', '5')), P('b')], ([], ['a'], [])))
    a(('priority-only-pool', [L('l'), P('b')], [L('l', ('priority', '5')), P('b')], ([], ['l'], [])))
    a(('priority-only-member', [G('g', 'a,b'), P('a'), P('b')], [G('g', 'a,b'), P('a'), P('b', ('priority', '5'))], ([], ['g'], [])))
    a(('pool-buffer', [L('l')], [L('l', ('buffer_size', '50'))], ([], ['l'], [])))
    a(('pool-events-more', [L('l')], [('eventlistener:l', [('command', '/bin/cat'), ('events', 'TICK_5,PROCESS_STATE')])],
       ([], ['l'], [])))
    a(('pool-handler', [L('l')], [L('l', ('result_handler', 'supervisor.childutils:get_asctime'))], ([], ['l'], [])))
    a(('pool-numprocs', [L('l', *n2)], [L('l', *n3)], ([], ['l'], [])))
    a(('fcgi-socket', [F('f')], [('fcgi-program:f', [('command', '/bin/cat'), ('socket', 'tcp://localhost:@P9@')])],
       ([], ['f'], [])))
    a(('fcgi-socket-kind', [F('f')], [('fcgi-program:f', [('command', '/bin/cat'), ('socket', 'unix://@TMP@/c15.sock')])],
       ([], ['f'], [])))
    a(('priority-reorders-groups', [P('a'), P('b')], [P('a'), P('b', ('priority', '1'))], ([], ['b'], [])))
    a(('auto-to-explicit', [P('a')], [P('a', ('stdout_logfile', '@TMP@/c15_a.log'))], ([], ['a'], [])))
    a(('explicit-to-auto', [P('a', ('stdout_logfile', '@TMP@/c15_a.log'))], [P('a')], ([], [], [])))
    a(('explicit-to-explicit', [P('a', ('stdout_logfile', '@TMP@/c15_a.log'))], [P('a', ('stdout_logfile', '@TMP@/c15_b.log'))],
       ([], ['a'], [])))
    a(('sup-environment', [P('a'), L('l')], [P('a'), L('l')], None))   # harness varies [supervisord] environment
    a(('many', [P('p%d' % i) for i in range(12)], [P('p%d' % i, ('startsecs', str(i % 3))) for i in range(3, 15)], None))
    a(('dup-name-added', [P('x')], [P('x'), P('y'), L('y')], None))
    a(('dup-name-active', [P('y'), L('y')], [P('y'), L('y')], None))
    a(('dup-name-changed', [P('y'), L('y', ('priority', '999'))], [P('y', ('startsecs', '4')), L('y', ('priority', '999'))], None))
    return C


# --------------------------------------------------------------- random pairs

def _rand_opts(rng, table, p):
    out = []
    for k in sorted(table):
        if rng.random() < p:
            t = rng.choice(table[k])[0]
            if t is not None:
                out.append((k, t))
    return out


def random_group(rng, name, kind=None):
    """sections of one random group named `name`"""
    kind = kind or rng.choice(['program', 'program', 'program', 'listener', 'fcgi', 'group'])
    def popts(listener=False):
        tab = dict(PROGRAM_OPTIONS)
        tab.pop('process_name')
        tab.pop('command')
        if listener:
            tab.pop('redirect_stderr')
        o = [('command', rng.choice(['/bin/cat', '/bin/true', '/bin/sleep 9']))] + _rand_opts(rng, tab, 0.12)
        d = dict(o)
        if d.get('stopasgroup') == 'true' and d.get('killasgroup') == 'false':
            o = [(k, v) for k, v in o if k != 'killasgroup']
        if rng.random() < 0.3:
            o += [('numprocs', str(rng.choice([1, 2, 3]))), ('process_name', MULTI)]
            if rng.random() < 0.3:
                o.append(('numprocs_start', str(rng.choice([0, 1, 4]))))
        return o
    if kind == 'program':
        return [('program:%s' % name, popts())]
    if kind == 'listener':
        tab = dict(POOL_OPTIONS)
        ev = rng.choice(tab.pop('events'))[0]
        return [('eventlistener:%s' % name, popts(True) + [('events', ev)] + _rand_opts(rng, tab, 0.3))]
    if kind == 'fcgi':
        sock = rng.choice(FCGI_OPTIONS['socket'])[0]
        o = popts() + [('socket', sock)]
        if sock.startswith('unix'):
            o += _rand_opts(rng, {'socket_owner': FCGI_OPTIONS['socket_owner'], 'socket_mode': FCGI_OPTIONS['socket_mode']}, 0.3)
        o += _rand_opts(rng, {'socket_backlog': FCGI_OPTIONS['socket_backlog']}, 0.3)
        return [('fcgi-program:%s' % name, o)]
    members = ['%s_m%d' % (name, i) for i in range(rng.choice([1, 2, 3]))]
    secs = [('group:%s' % name, [('programs', ','.join(members))] + _rand_opts(rng, {'priority': GROUP_OPTIONS['priority']}, 0.3))]
    for m in members:
        if rng.random() < 0.2:
            secs.append(('fcgi-program:%s' % m, popts() + [('socket', 'tcp://localhost:@P2@')]))
        else:
            secs.append(('program:%s' % m, popts()))
    return secs


def group_name_of(sections):
    return sections[0][0].split(':', 1)[1]


def random_pair(rng):
    """old and new lists of groups (each a list of sections), new derived from old by a few edits"""
    names = ['a', 'b', 'c', 'd', 'e', 'f']
    rng.shuffle(names)
    old = [random_group(rng, n) for n in names[:rng.choice([0, 1, 2, 3, 4])]]
    new = copy.deepcopy(old)
    edits = _random_edits(rng, new, names, rng.choice([0, 1, 1, 2, 3]))
    flat = lambda gs: [s for g in gs for s in g]
    return flat(old), flat(new), edits


def random_chain(rng, steps):
    """a start configuration and `steps` successive small edits of it (each a list of sections)"""
    names = ['a', 'b', 'c', 'd', 'e', 'f']
    rng.shuffle(names)
    cur = [random_group(rng, n) for n in names[:rng.choice([1, 2, 3])]]
    flat = lambda gs: [s for g in gs for s in g]
    out = [flat(cur)]
    labels = []
    for _ in range(steps):
        cur = copy.deepcopy(cur)
        labels += _random_edits(rng, cur, names, rng.choice([1, 1, 1, 2]), kinds=['option', 'option', 'option', 'option', 'add',
                                                                                  'remove', 'numprocs'])
        out.append(flat(cur))
    return out, labels


def _random_edits(rng, new, names, count, kinds=None):
    """edit the list of groups `new` in place; returns the kinds of edits made"""
    edits = []
    for _ in range(count):
        k = rng.choice(kinds or ['option', 'option', 'option', 'add', 'remove', 'rename', 'regen', 'shuffle', 'numprocs'])
        edits.append(k)
        if k == 'add' or not new:
            free = [n for n in names if n not in [group_name_of(g) for g in new]]
            if free:
                new.insert(rng.randrange(len(new) + 1), random_group(rng, free[0]))
            continue
        i = rng.randrange(len(new))
        if k == 'remove':
            new.pop(i)
        elif k == 'rename':
            free = [n for n in names if n not in [group_name_of(g) for g in new]]
            if free:
                g = new[i]
                oldn = group_name_of(g)
                kind = g[0][0].split(':', 1)[0]
                if kind != 'group':
                    new[i] = [('%s:%s' % (kind, free[0]), g[0][1])]
                else:
                    # members are named after their group: rename them too
                    members = [m.replace(oldn + '_m', free[0] + '_m') for m in dict(g[0][1])['programs'].split(',')]
                    hdr_opts = [(k, ','.join(members) if k == 'programs' else v) for k, v in g[0][1]]
                    new[i] = [('group:%s' % free[0], hdr_opts)] + [
                        (h.split(':', 1)[0] + ':' + h.split(':', 1)[1].replace(oldn + '_m', free[0] + '_m'), o) for h, o in g[1:]]
        elif k == 'regen':
            new[i] = random_group(rng, group_name_of(new[i]))
        elif k == 'shuffle':
            rng.shuffle(new)
        elif k == 'numprocs':
            g = new[i]
            j = rng.randrange(len(g))
            if not g[j][0].startswith('group:'):
                o = [(kk, v) for kk, v in g[j][1] if kk not in ('numprocs', 'process_name')]
                g[j] = (g[j][0], o + [('numprocs', str(rng.choice([1, 2, 3, 4]))), ('process_name', MULTI)])
        else:
            g = new[i]
            j = rng.randrange(len(g))
            hdr, o = g[j]
            kind = hdr.split(':', 1)[0]
            tab = dict(PROGRAM_OPTIONS)
            tab.pop('process_name')
            if kind == 'eventlistener':
                tab.pop('redirect_stderr')
                tab.update(POOL_OPTIONS)
            elif kind == 'fcgi-program':
                tab['socket_backlog'] = FCGI_OPTIONS['socket_backlog']
            elif kind == 'group':
                tab = {'priority': GROUP_OPTIONS['priority']}
            opt = rng.choice(sorted(tab))
            t = rng.choice(tab[opt])[0]
            o = [(kk, v) for kk, v in o if kk != opt]
            if t is not None:
                o.append((opt, t))
            d = dict(o)
            if d.get('stopasgroup') == 'true' and d.get('killasgroup') == 'false':
                o = [(kk, v) for kk, v in o if kk != 'killasgroup']
            if 'command' not in d:
                o.append(('command', '/bin/cat'))
            if kind == 'eventlistener' and 'events' not in d:
                o.append(('events', 'TICK_5'))
            g[j] = (hdr, o)
    return edits


# ------------------------------------------------------------------ corruption

BAD_OPTIONS = [
    ('program', 'numprocs', 'zz'), ('program', 'autostart', 'maybe'), ('program', 'stopsignal', 'FOO'),
    ('program', 'exitcodes', 'x'), ('program', 'umask', '9'), ('program', 'priority', 'high'),
    ('program', 'startsecs', '-'), ('program', 'command', None), ('program', 'autorestart', 'sometimes'),
    ('program', 'stdout_logfile', '/nonexistent-dir-c15/x.log'), ('program', 'user', 'no-such-user-c15'),
    ('program', 'numprocs', '2'), ('program', 'environment', 'A='), ('program', 'environment', 'A="unterminated'),
    ('program', 'command', '/bin/cat %(nosuch)s'), ('program', 'stdout_logfile_maxbytes', '1XB'),
    ('program', 'stopasgroup+', 'true'), ('program', 'process_name', 'a:b'), ('program', 'process_name', 'a b'),
    ('listener', 'events', None), ('listener', 'events', 'NO_SUCH_EVENT'), ('listener', 'buffer_size', '0'),
    ('listener', 'result_handler', 'nosuchmodule_c15:x'), ('listener', 'result_handler', 'supervisor.dispatchers:nosuch'),
    ('listener', 'redirect_stderr', 'true'), ('listener', 'buffer_size', 'many'),
    ('fcgi', 'socket', None), ('fcgi', 'socket', 'bogus://x'), ('fcgi', 'socket', 'unix://relative/path'),
    ('fcgi', 'socket_mode', '99x'), ('fcgi', 'socket_owner', 'no-such-user-c15'), ('fcgi', 'socket_backlog', '0'),
    ('fcgi_tcp', 'socket_mode', '0700'), ('fcgi_tcp', 'socket_owner', 'nobody'),
    ('group', 'programs', 'a,nosuch'), ('group', 'priority', 'x'),
    # just outside the range of a numeric option
    ('program', 'exitcodes', '256'), ('program', 'exitcodes', '-1'), ('program', 'exitcodes', '0,256'),
    ('program', 'umask', '778'), ('program', 'umask', '8'), ('program', 'stopsignal', '0'), ('program', 'stopsignal', '65'),
    ('program', 'stopsignal', '32'), ('program', 'stopsignal', '-1'),
    ('fcgi', 'socket_backlog', '65536'), ('fcgi', 'socket_backlog', '-1'), ('fcgi', 'socket_mode', '0778'),
    ('fcgi_tcp', 'socket', 'tcp://localhost:0'), ('fcgi_tcp', 'socket', 'tcp://localhost:65536'),
    ('listener', 'buffer_size', '-1'),
]


def corrupt_option_cases():
    out = []
    for h, option, text in BAD_OPTIONS:
        good, target = host(h, None, None)
        if option == 'stopasgroup+':
            bad, _ = host(h, 'stopasgroup', 'true')
            bad[0] = (bad[0][0], bad[0][1] + [('killasgroup', 'false')])
        else:
            bad, _ = host(h, option, text)
        out.append({'old': good, 'bad': bad, 'label': '%s:%s=%r' % (h, option, text)})
    return out


def render(sections):
    out = []
    for hdr, opts in sections:
        out.append('[%s]' % hdr)
        for k, v in opts:
            out.append('%s=%s' % (k, v))
        out.append('')
    return subst('\n'.join(out) + '\n')


def text_corruptions(rng, base, body):
    """(label, bytes or None) corruptions of a whole file"""
    good = (base + body).encode('utf-8')
    out = [
        ('deleted', None),
        ('empty', b''),
        ('no-supervisord-section', body.encode('utf-8')),
        ('garbage-before-sections', b'this is not ini\n' + good),
        ('line-without-delimiter', good + b'[program:q]\ncommand=/bin/cat\nthis line has no delimiter\n'),
        ('invalid-utf8', good + b'[program:q]\ncommand=/bin/\xff\xfe\n'),
        ('nul-bytes', good + b'\x00\x00\x00'),
        ('unterminated-header', good + b'[program:q\ncommand=/bin/cat\n'),
        ('bad-include', good + b'[include]\n'),
        ('bad-supervisord-option', good.replace(b'[supervisord]\n', b'[supervisord]\nminfds=lots\n', 1)),
        ('bad-inet-server', good + b'[inet_http_server]\nport=notaport\n'),
        ('bad-unix-server', good + b'[unix_http_server]\nchmod=9z9\nfile=@TMP@/c15_u.sock\n'),
        ('bad-rpcinterface', good + b'[rpcinterface:x]\nsupervisor.rpcinterface_factory=nosuch_c15:f\n'),
    ]
    for i in range(6):
        b = bytearray(good)
        k = rng.choice(['flip', 'cut', 'dup', 'ins'])
        pos = rng.randrange(len(b))
        if k == 'flip':
            b[pos] = rng.choice(b'[]=%\n:;#\x00\xff(')
        elif k == 'cut':
            del b[pos:pos + rng.randrange(1, 12)]
        elif k == 'dup':
            b[pos:pos] = b[pos:pos + rng.randrange(1, 12)]
        else:
            b[pos:pos] = rng.choice([b'%(', b'\n[', b'=\n', b'%(x)s', b'\n\t'])
        out.append(('byte-%s@%d' % (k, pos), bytes(b)))
    return out


# ------------------------------------------------------------ update scenarios

RECIPES = ['running', 'starting', 'stopped', 'fatal', 'backoff', 'exited', 'stopping']
FATES = ['keep', 'change', 'remove']


def _m(name, recipe, stubborn=False, killfail=False):
    return {'name': name, 'recipe': recipe, 'stubborn': stubborn, 'killfail': killfail}


def _g(name, kind, fate, members):
    return {'name': name, 'kind': kind, 'fate': fate, 'members': members}


def update_scenarios_exhaustive(tier):
    """one group under test in every (recipe, fate, child behaviour), next to an untouched running
    group, an untouched stopped group and one added group; then group kinds; then named updates"""
    out = []
    by = lambda: [_g('by', 'program', 'keep', [_m('by', 'running')]), _g('idle', 'program', 'keep', [_m('idle', 'stopped')])]
    for recipe in RECIPES:
        for fate in FATES:
            for stubborn in (False, True):
                if stubborn and recipe not in ('running', 'starting'):
                    continue
                out.append({'groups': by() + [_g('t', 'program', fate, [_m('t', recipe, stubborn)])],
                            'added': ['n1'], 'args': [], 'corrupt': False, 'label': 'one:%s:%s:%s' % (recipe, fate, stubborn)})
    for kind in ('listener', 'fcgi', 'group'):
        for fate in FATES:
            for recipe in ('running', 'stopped', 'starting'):
                ms = [_m('t', recipe)] if kind != 'group' else [_m('t1', recipe), _m('t2', 'running', True), _m('t3', 'exited')]
                out.append({'groups': by() + [_g('t', kind, fate, ms)], 'added': [], 'args': [], 'corrupt': False,
                            'label': 'kind:%s:%s:%s' % (kind, fate, recipe)})
    # mixtures inside one heterogeneous group
    for fate in ('change', 'remove'):
        ms = [_m('m%d' % i, r, stubborn=(i % 2 == 1)) for i, r in enumerate(RECIPES[:-1])]
        out.append({'groups': by() + [_g('mix', 'group', fate, ms)], 'added': ['n1', 'n2'], 'args': [], 'corrupt': False,
                    'label': 'mix:%s' % fate})
        out.append({'groups': by() + [_g('mix', 'group', fate, ms + [_m('ms', 'stopping')])], 'added': ['n1'], 'args': [],
                    'corrupt': False, 'label': 'mix-stopping:%s' % fate})
    # named updates
    base = lambda: [_g('a', 'program', 'change', [_m('a', 'running')]), _g('b', 'program', 'change', [_m('b', 'running', True)]),
                    _g('c', 'program', 'remove', [_m('c', 'running')]), _g('d', 'program', 'remove', [_m('d', 'starting')]),
                    _g('k', 'program', 'keep', [_m('k', 'running')])]
    for args in ([], ['all'], ['a'], ['c'], ['n1'], ['k'], ['a', 'c', 'n1'], ['zzz'], ['a', 'zzz'], ['b', 'd'], ['all', 'a'],
                 ['a', 'a'], ['n2', 'n1']):
        out.append({'groups': base(), 'added': ['n1', 'n2'], 'args': args, 'corrupt': False, 'label': 'named:%s' % ' '.join(args)})
    # kill failures (outside the hypotheses of convergence; the RPC sequence must still agree)
    for fate in ('change', 'remove'):
        out.append({'groups': by() + [_g('t', 'program', fate, [_m('t', 'running', killfail=True)])], 'added': ['n1'],
                    'args': [], 'corrupt': False, 'label': 'killfail:%s' % fate})
        out.append({'groups': by() + [_g('t', 'group', fate, [_m('t1', 'running', killfail=True), _m('t2', 'running')])],
                    'added': [], 'args': [], 'corrupt': False, 'label': 'killfail-group:%s' % fate})
    # corrupt file at update time
    out.append({'groups': base(), 'added': ['n1'], 'args': [], 'corrupt': True, 'label': 'corrupt'})
    out.append({'groups': base(), 'added': ['n1'], 'args': ['a'], 'corrupt': True, 'label': 'corrupt-named'})
    # other ways a group changes: its own options, its priority, its members
    for kind, how in (('fcgi', 'socket_mode'), ('fcgi', 'socket_backlog'), ('listener', 'buffer_size'), ('listener', 'events'),
                      ('program', 'priority'), ('group', 'priority'), ('listener', 'priority'), ('program', 'environment'),
                      ('program', 'stdout_logfile')):
        for recipe in ('running', 'starting'):
            ms = [_m('t', recipe)] if kind != 'group' else [_m('t1', recipe), _m('t2', 'backoff')]
            g = _g('t', kind, 'change', ms)
            g['change_opt'] = how
            out.append({'groups': by() + [g], 'added': [], 'args': [], 'corrupt': False, 'label': 'how:%s:%s:%s' % (kind, how, recipe)})
    for args in ([], ['g1'], ['all']):
        out.append({'groups': by() + [_g('g1', 'group', 'change', [_m('a', 'running'), _m('b', 'running', True)]),
                                      _g('g2', 'group', 'change', [_m('c', 'starting')])],
                    'moves': [('b', 'g1', 'g2')], 'added': [], 'args': args, 'corrupt': False, 'label': 'move-member:%s' % ' '.join(args)})
    # a pool subscribed to an event type and to one of its subtypes is changed / removed
    for fate in ('change', 'remove'):
        for evs in (['PROCESS_STATE', 'PROCESS_STATE_RUNNING'], ['EVENT', 'TICK_5'], ['PROCESS_LOG_STDOUT', 'PROCESS_LOG']):
            g = _g('t', 'listener', fate, [_m('t', 'running')])
            g['events'] = evs
            out.append({'groups': by() + [g], 'added': ['n1'], 'args': [], 'corrupt': False,
                        'label': 'pool-type-and-subtype:%s:%s' % (fate, ','.join(evs))})
    # the edit is the subscription list: supertype + subtype pairs in both directions
    SUBS = [(['PROCESS_STATE_RUNNING'], ['PROCESS_STATE', 'PROCESS_STATE_RUNNING']),
            (['PROCESS_STATE', 'PROCESS_STATE_RUNNING'], ['PROCESS_STATE_RUNNING']),
            (['PROCESS_STATE'], ['PROCESS_STATE_EXITED', 'PROCESS_STATE']),
            (['TICK_5'], ['TICK', 'TICK_5']), (['TICK', 'TICK_5'], ['TICK_60']),
            (['PROCESS_LOG_STDOUT'], ['PROCESS_LOG', 'PROCESS_LOG_STDOUT']), (['PROCESS_LOG'], ['PROCESS_LOG_STDERR']),
            (['TICK_5'], ['EVENT', 'TICK_5']), (['EVENT'], ['PROCESS_COMMUNICATION', 'SUPERVISOR_STATE_CHANGE']),
            (['PROCESS_COMMUNICATION_STDOUT'], ['PROCESS_COMMUNICATION_STDOUT', 'PROCESS_COMMUNICATION']),
            (['PROCESS_GROUP_ADDED'], ['PROCESS_GROUP', 'PROCESS_GROUP_ADDED', 'PROCESS_STATE_STARTING'])]
    for k, (e0, e1) in enumerate(SUBS):
        g = _g('t', 'listener', 'change', [_m('t', 'running' if k % 2 else 'stopped')])
        g['events'] = e0
        g['events_new'] = e1
        g['change_opt'] = 'none'
        out.append({'groups': by() + [g], 'added': [], 'args': [], 'corrupt': False,
                    'label': 'subscriptions:%s->%s' % (','.join(e0), ','.join(e1))})
        g2 = _g('t', 'listener', 'keep', [_m('t', 'running')])
        g2['events'] = e1
        out.append({'groups': [g2], 'added': ['n1'], 'args': [], 'corrupt': False, 'label': 'subscriptions-kept:%s' % ','.join(e1)})
    # first update meets a STOPPING process in a changed/removed group (refused, known finding); the
    # child then exits and a second update must converge; meanwhile the refused pool stays subscribed
    for kind in ('listener', 'program', 'group'):
        for fate in ('change', 'remove'):
            ms = [_m('t', 'stopping')] if kind != 'group' else [_m('t1', 'stopping'), _m('t2', 'running')]
            g = _g('t', kind, fate, ms)
            if kind == 'listener':
                g['events'] = ['PROCESS_STATE', 'TICK_5']
            out.append({'groups': by() + [g, _g('l2', 'listener', 'keep', [_m('l2', 'running')])], 'added': ['n1'], 'args': [],
                        'corrupt': False, 'second_update': True, 'label': 'second-update:%s:%s' % (kind, fate)})
    # a listener pool whose events= line is only reordered is left alone
    for recipe in ('running', 'stopped'):
        for evs in (['PROCESS_COMMUNICATION', 'SUPERVISOR_STATE_CHANGE', 'EVENT'], ['TICK_5', 'PROCESS_LOG', 'PROCESS_STATE', 'TICK_60']):
            g = _g('t', 'listener', 'keep', [_m('t', recipe)])
            g['events'] = evs
            g['reorder'] = True
            out.append({'groups': by() + [g], 'added': ['n1'], 'args': [], 'corrupt': False,
                        'label': 'events-reordered:%s' % recipe})
    # reread of an intermediate version, a further edit, then update
    for args in ([], ['n1'], ['all']):
        out.append({'groups': by(), 'added': ['n1', 'n2'], 'args': args, 'corrupt': False, 'two_step': True,
                    'label': 'two-step:%s' % ' '.join(args)})
    out.append({'groups': base(), 'added': ['n1'], 'args': [], 'corrupt': False, 'two_step': True, 'label': 'two-step:mixed'})
    # nothing to do
    out.append({'groups': by(), 'added': [], 'args': [], 'corrupt': False, 'label': 'noop'})
    return out


def random_update_scenario(rng):
    names = ['a', 'b', 'c', 'd', 'e', 'f']
    rng.shuffle(names)
    groups = []
    pn = [0]

    def member(prefix):
        pn[0] += 1
        r = rng.choice(RECIPES[:-1] * 3 + ['stopping'])
        return _m('%s%d' % (prefix, pn[0]), r, stubborn=rng.random() < 0.3, killfail=rng.random() < 0.04)
    for n in names[:rng.choice([1, 2, 3, 4, 5])]:
        kind = rng.choice(['program', 'program', 'program', 'group', 'listener', 'fcgi'])
        fate = rng.choice(FATES)
        if kind == 'group':
            ms = [member(n + '_') for _ in range(rng.choice([1, 2, 3]))]
        else:
            m = member('x')
            m['name'] = n
            ms = [m]
        groups.append(_g(n, kind, fate, ms))
        groups[-1]['change_opt'] = rng.choice({'program': ['umask', 'priority', 'environment', 'stdout_logfile'],
                                               'group': ['umask', 'priority'], 'fcgi': ['umask', 'socket_mode', 'socket_backlog'],
                                               'listener': ['umask', 'buffer_size', 'events', 'priority']}[kind])
        if kind == 'listener' and rng.random() < 0.5:
            groups[-1]['events'] = rng.sample(['TICK_5', 'PROCESS_LOG', 'PROCESS_STATE', 'TICK_60', 'EVENT', 'PROCESS_COMMUNICATION'], 3)
            groups[-1]['reorder'] = True
    added = ['n%d' % i for i in range(rng.choice([0, 0, 1, 2]))]
    k = rng.random()
    if k < 0.6:
        args = []
    elif k < 0.7:
        args = ['all']
    else:
        pool = [g['name'] for g in groups] + added + ['zzz']
        args = [rng.choice(pool) for _ in range(rng.choice([1, 1, 2, 3]))]
    return {'groups': groups, 'added': added, 'args': args, 'corrupt': rng.random() < 0.05, 'label': 'random',
            'two_step': bool(added) and rng.random() < 0.3,
            'second_update': any(m['recipe'] == 'stopping' for g in groups for m in g['members']) and rng.random() < 0.6}


# ------------------------------------------------ %-format corruptions of expanded options

# conversions of the wrong type for a string-valued name, too few arguments, unknown names,
# truncated / unknown conversion characters; '%%' and the process_num conversions are valid
FORMAT_BAD = ['%(program_name)d', '%(program_name)f', '%(here)c', '%(here)d', '%(host_node_name)f',
              '%(group_name)x', '%d', '%(missing)s', '%(missing)d', '%(', '%(program_name', '%z', '%(program_name)z',
              '%', '%(program_name)', '%(here)*d', '%(ENV_C15_NOSUCH)s']
# ('%s' % mapping formats the mapping itself; %c accepts a one-character string)
FORMAT_MAYBE = ['%s', '%(program_name)c', '%(process_num)s', '%(process_num)c', '%(process_num)02d', '%(numprocs)f', '%(process_num)*d']
FORMAT_OK = ['%%', '%(program_name)s', '%(here)s', '%(host_node_name)s', '100%%']

# option -> how the payload is embedded in a plausible value
FORMAT_STRING_OPTIONS = {
    'command': '/bin/cat %s', 'process_name': 'p%s', 'directory': '@TMP@/%s', 'environment': 'A="%s"',
    'stdout_logfile': '@TMP@/c15_%s.log', 'stderr_logfile': '@TMP@/c15_%s.log', 'serverurl': 'http://localhost/%s',
    'user': '%s',
}
FORMAT_OTHER_OPTIONS = ['priority', 'autostart', 'autorestart', 'startsecs', 'startretries', 'stopsignal', 'stopwaitsecs',
                        'exitcodes', 'umask', 'numprocs', 'numprocs_start', 'stdout_logfile_maxbytes',
                        'stdout_logfile_backups', 'stdout_capture_maxbytes', 'stdout_events_enabled', 'stdout_syslog',
                        'redirect_stderr', 'stopasgroup', 'killasgroup']
FORMAT_MUST_FAIL_OPTIONS = ('command', 'process_name', 'directory', 'environment', 'stdout_logfile', 'stderr_logfile',
                            'serverurl', 'socket')


def format_corruption_cases(base, tier):
    """(label, old text, new text, must_fail) : one option of one section carries a %-format
    payload.  `base` is the [supervisord] section text of the harness."""
    quick = tier == 'quick'
    out = []
    payloads = [(p, True) for p in FORMAT_BAD] + [(p, False) for p in FORMAT_MAYBE + FORMAT_OK]

    def add(label, old_secs, bad_secs, must, base_old=base, base_bad=None, tail=''):
        out.append((label, base_old + render(old_secs), (base_bad or base_old) + render(bad_secs) + tail, must))

    hosts = ['program', 'listener', 'fcgi', 'member'] + ([] if quick else ['program_n', 'fcgi_member'])
    for h in hosts:
        good, _ = host(h, None, None)
        for opt, tmpl in sorted(FORMAT_STRING_OPTIONS.items()):
            for k, (p, bad) in enumerate(payloads):
                if quick and h != 'program' and (not bad or (k + len(opt)) % 3):
                    continue
                secs, _ = host(h, opt, tmpl % p)
                add('format:%s:%s=%s' % (h, opt, tmpl % p), good, secs, bad and opt in FORMAT_MUST_FAIL_OPTIONS)
    good, _ = host('program', None, None)
    for opt in FORMAT_OTHER_OPTIONS:
        for p, bad in payloads:
            if quick and not bad:
                continue
            secs, _ = host('program', opt, p)
            add('format:program:%s=%s' % (opt, p), good, secs, False)
    # section-kind specific options
    for h, opts in (('listener', {'events': 'TICK_5,%s', 'buffer_size': '%s', 'result_handler': 'supervisor.dispatchers:%s',
                                  'priority': '%s'}),
                    ('fcgi', {'socket': 'unix://@TMP@/c15_%s_x', 'socket_owner': '%s', 'socket_mode': '%s',
                              'socket_backlog': '%s'}),
                    ('fcgi_tcp', {'socket': 'tcp://localhost:%s'}),
                    ('group', {'programs': 'a,b%s', 'priority': '%s'})):
        good, _ = host(h, None, None)
        for opt, tmpl in sorted(opts.items()):
            for p, bad in payloads:
                secs, _ = host(h, opt, tmpl % p)
                add('format:%s:%s=%s' % (h, opt, tmpl % p), good, secs, bad and opt in FORMAT_MUST_FAIL_OPTIONS)
    # [supervisord] options, [include], server sections, rpcinterface sections
    good = [P('a')]
    sup_opts = {'logfile': '%s', 'pidfile': '%s', 'childlogdir': '%s', 'directory': '@TMP@/%s', 'identifier': 'sup%s',
                'environment': 'S="%s"', 'user': '%s', 'umask': '%s', 'minfds': '%s', 'loglevel': '%s',
                'logfile_maxbytes': '%s', 'nocleanup': '%s'}
    for opt, tmpl in sorted(sup_opts.items()):
        for p, bad in payloads:
            if quick and not bad:
                continue
            lines = [l for l in base.split('\n') if l and not l.startswith(opt + '=')]
            bad_base = '\n'.join(lines + ['%s=%s' % (opt, tmpl % p)]) + '\n'
            add('format:supervisord:%s=%s' % (opt, tmpl % p), good, good, False, base_bad=bad_base)
    for sec, opts in (('include', {'files': '/nonexistent-c15/%s.conf'}),
                      ('unix_http_server', {'file': '@TMP@/c15_%s.sock', 'chmod': '%s', 'chown': '%s', 'username': '%s'}),
                      ('inet_http_server', {'port': '127.0.0.1:%s', 'username': '%s', 'password': '%s'}),
                      ('rpcinterface:x', {'supervisor.rpcinterface_factory': 'supervisor.rpcinterface:%s', 'extra': '%s'})):
        for opt, tmpl in sorted(opts.items()):
            for p, bad in payloads:
                if quick and not bad:
                    continue
                body = [(opt, tmpl % p)]
                if sec == 'unix_http_server' and opt != 'file':
                    body.append(('file', '@TMP@/c15_u.sock'))
                if sec == 'inet_http_server' and opt != 'port':
                    body.append(('port', '127.0.0.1:9099'))
                if sec == 'rpcinterface:x' and opt == 'extra':
                    body.append(('supervisor.rpcinterface_factory', 'supervisor.rpcinterface:make_main_rpcinterface'))
                add('format:%s:%s=%s' % (sec, opt, tmpl % p), good, good, False, tail=render([(sec, body)]))
    return out


# ------------------------------------------------------------- reread sequences

def reread_sequences(tier):
    """(label, [sections of step 0, step 1, step 2]): the daemon starts from step 0, then the file is
    edited and reread twice with no update in between.  `fresh`: the group under edit is not active
    (it appears in step 1); `active`: it is active from step 0 on."""
    quick = tier == 'quick'
    out = []
    tables = [(PROGRAM_OPTIONS, ['program', 'listener', 'fcgi', 'member']), (POOL_OPTIONS, ['listener']),
              (FCGI_OPTIONS, ['fcgi']), (GROUP_OPTIONS, ['group']), (MULTI_OPTIONS, ['program_n'])]
    important = ('stdout_logfile', 'stderr_logfile', 'environment', 'command', 'priority', 'serverurl', 'socket_mode',
                 'buffer_size', 'events', 'programs', 'numprocs')
    for table, hosts in tables:
        for option, vals in sorted(table.items()):
            for h in hosts:
                if option == 'redirect_stderr' and h == 'listener':
                    continue
                if option == 'priority' and h == 'listener' and table is PROGRAM_OPTIONS:
                    continue
                if h != hosts[0] and option not in LOGFILE_OPTIONS + ('environment',):
                    continue
                if quick and h != hosts[0] and option not in LOGFILE_OPTIONS:
                    continue
                if quick:
                    vals = vals[:4]         # (boundary values are in the single-option sweep)
                for (t1, k1) in vals:
                    for (t2, k2) in vals:
                        if t1 is t2:
                            continue
                        s1, _ = host(h, option, t1)
                        s2, _ = host(h, option, t2)
                        if quick and option not in important and (vals.index((t1, k1)) + vals.index((t2, k2))) % 2:
                            continue
                        out.append(('seq:fresh:%s:%s:%r' % (h, option, [t1, t2]), [[BYSTANDER], s1, s2]))
                        if (option in LOGFILE_OPTIONS + ('environment', 'socket_mode')) or not quick:
                            for (t0, k0) in vals[:2]:
                                s0, _ = host(h, option, t0)
                                out.append(('seq:active:%s:%s:%r' % (h, option, [t0, t1, t2]), [s0, s1, s2]))
    return out


# ------------------------------------------------ broken files inside edit sequences

def broken_sequences(base):
    """(label, [step, ...]) where a step is a text or (text, mark): mark names a breakage, '!' in front
    when the reader must reject it.  Each kind of breakage stands once right after the start
    (good -> BROKEN -> fixed and really changed) and once after a good edit (good -> edited -> BROKEN ->
    fixed), so the reread after the repair must report the real difference against the groups
    that are still active from the start."""
    out = []

    def texts_for(good, edited):
        g0 = base + render(good)
        g1 = base + render(edited)
        return g0, g1

    def add(label, g0, g1, bad, mark):
        out.append(('broken:first:' + label, [g0, (bad, mark), g1]))
        out.append(('broken:later:' + label, [g0, g1, (bad, mark), g0]))
        out.append(('broken:twice:' + label, [g0, (bad, mark), (bad, mark), g1, (bad, mark)]))

    for h, option, text in BAD_OPTIONS:
        good, target = host(h, None, None)
        edited = [(hdr, opts + ([('startsecs', '7')] if i == 0 and not hdr.startswith('group:') else []))
                  for i, (hdr, opts) in enumerate(good)]
        if good[0][0].startswith('group:'):
            edited = [good[0], (good[1][0], good[1][1] + [('startsecs', '7')])] + good[2:]
        edited = edited + [('program:added', [('command', '/bin/cat')])]
        if option == 'stopasgroup+':
            bad, _ = host(h, 'stopasgroup', 'true')
            bad[0] = (bad[0][0], bad[0][1] + [('killasgroup', 'false')])
        else:
            bad, _ = host(h, option, text)
        g0, g1 = texts_for(good, edited)
        add('%s:%s=%r' % (h, option, text), g0, g1, base + render(bad), '!bad option value')
    good = [P('a'), L('l'), BYSTANDER]
    edited = [P('a', ('umask', '027')), L('l', ('buffer_size', '30')), P('added')]
    g0, g1 = texts_for(good, edited)
    body = render(edited)
    for label, data, mark in [
        ('file-deleted', None, '!file deleted'),
        ('file-empty', '', '!empty file'),
        ('no-supervisord-section', body, '!no [supervisord] section'),
        ('garbage-before-sections', 'this is not ini\n' + g1, '!text before the first section'),
        ('line-without-delimiter', g1 + '[program:q]\ncommand=/bin/cat\nthis line has no delimiter\n', '!line without = or :'),
        ('invalid-utf8', g1.encode('utf-8') + b'[program:q]\ncommand=/bin/\xff\xfe\n', '!bytes that are not UTF-8'),
        ('program-without-command', g1 + '[program:q]\nautostart=false\n', '!program without command'),
        ('bad-supervisord-option', g1.replace('[supervisord]\n', '[supervisord]\nminfds=lots\n', 1), '!bad [supervisord] value'),
        ('bad-inet-server', g1 + '[inet_http_server]\nport=notaport\n', '![inet_http_server] port'),
        ('include-without-files', g1 + '[include]\n', '![include] without files'),
        ('format-type-mismatch', g1 + '[program:q]\ncommand=/bin/cat %(program_name)d\n', '!%d of a string'),
        ('format-unknown-name', g1 + '[program:q]\ncommand=/bin/cat %(nosuch)s\n', '!unknown expansion'),
        ('rpcinterface-module-not-importable', g1 + '[rpcinterface:x]\nsupervisor.rpcinterface_factory=nosuch_module_c15:make\n',
         '!rpcinterface factory module cannot be imported'),
        ('rpcinterface-attribute-missing', g1 + '[rpcinterface:x]\nsupervisor.rpcinterface_factory=supervisor.rpcinterface:no_such_factory\n',
         '!rpcinterface factory names a missing attribute of an importable module'),
        ('rpcinterface-nested-attribute-missing', g1 + '[rpcinterface:x]\nsupervisor.rpcinterface_factory=supervisor.rpcinterface:make_main_rpcinterface.nosuch\n',
         '!rpcinterface factory names a missing nested attribute'),
        ('rpcinterface-factory-key-absent', g1 + '[rpcinterface:x]\nother=1\n', '!rpcinterface section without factory key'),
        ('rpcinterface-empty-value', g1 + '[rpcinterface:x]\nsupervisor.rpcinterface_factory=\n', '!rpcinterface factory empty'),
        ('rpcinterface-no-colon', g1 + '[rpcinterface:x]\nsupervisor.rpcinterface_factory=supervisor.rpcinterface\n',
         'rpcinterface factory without attribute part'),
        ('rpcinterface-valid-second', g1 + '[rpcinterface:y]\nsupervisor.rpcinterface_factory=supervisor.rpcinterface:make_main_rpcinterface\n',
         'a second, valid rpcinterface section'),
        ('unknown-key-bad-value', g1 + '[program:q]\ncommand=/bin/cat\nnosuchkey=%(x)d\n', 'unknown key (ignored by the reader)'),
        ('unknown-section', g1 + '[nosuchsection]\nkey=%(x)d\n', 'unknown section (ignored by the reader)'),
        ('unterminated-header', g1 + '[program:q\ncommand=/bin/cat\n', 'unterminated section header'),
    ]:
        add(label, g0, g1, data, mark)
    return out
