"""C15 harness, reread part: the real ServerOptions parses generated files, a real
Supervisor holds real groups made from the old file, the real
SupervisorNamespaceRPCInterface.reloadConfig is called after the file was
rewritten; config objects are serialised (from vars(), not through any __eq__)
into Coq terms for SV.C15.Diff, and judged by an independent deep comparison.
"""
import os
import types

import vlib

AUTO = object()       # marker in encoded values


class Unencodable(Exception):
    pass


def enc(v):
    """Canonical injective serialisation of an attribute value such that two
    values are == in Python iff their serialisations are equal (bool and int
    merged, dict items sorted).  Automatic -> AUTO."""
    from supervisor.datatypes import Automatic
    if v is Automatic:
        return AUTO
    return _enc(v).encode('utf-8')


def _enc(v):
    from supervisor.datatypes import Automatic
    if v is Automatic:
        raise Unencodable('Automatic nested in a container')
    if v is None:
        return 'N'
    if isinstance(v, int):          # bool, IntEnum (signal numbers) included: they are == to the int
        return 'I%d;' % int(v)
    if isinstance(v, str):
        return 'S%d:%s' % (len(v), v)
    if isinstance(v, list):
        return 'L%d[%s]' % (len(v), ''.join(_enc(x) for x in v))
    if isinstance(v, tuple):
        return 'T%d[%s]' % (len(v), ''.join(_enc(x) for x in v))
    if isinstance(v, dict):
        items = sorted((_enc(k), _enc(x)) for k, x in v.items())
        return 'D%d{%s}' % (len(items), ''.join(k + x for k, x in items))
    if isinstance(v, (type, types.FunctionType, types.BuiltinFunctionType)):
        return 'O%s:%s;' % (getattr(v, '__module__', '?'), getattr(v, '__qualname__', getattr(v, '__name__', '?')))
    raise Unencodable('cannot serialise %r of type %s' % (v, type(v).__name__))


def encode_obj(o, skip=('options',)):
    """(class name, [(attr, encoded)]) of an object's instance attributes, sorted by name"""
    out = []
    for k in sorted(vars(o)):
        if k in skip:
            continue
        out.append((k, enc(getattr(o, k))))
    return (type(o).__name__, out)


def encode_group(g, gid):
    """-> dict(id, cls, name, attrs=[(attr, kind, payload)]) ; kind in val|procs|sock"""
    from supervisor.datatypes import SocketConfig
    attrs = []
    for k in sorted(vars(g)):
        if k in ('options', 'name'):
            continue
        v = getattr(g, k)
        if k == 'process_configs':
            attrs.append((k, 'procs', [encode_obj(p) for p in v]))
        elif isinstance(v, SocketConfig):
            attrs.append((k, 'sock', encode_obj(v, skip=('sock',))))
        else:
            attrs.append((k, 'val', enc(v)))
    return {'id': gid, 'cls': type(g).__name__, 'name': g.name, 'attrs': attrs}


# ------------------------------------------------------------- Coq literals

def _cstr(s):
    assert '"' not in s
    return '"%s"' % s


def fval_term(e):
    return 'FAuto' if e is AUTO else '(FVal %s)' % vlib.bytes_lit(e)


class Interner(object):
    """Gives names to repeated sub-terms; `preamble()` defines them."""

    def __init__(self):
        self.defs = []
        self.seen = {}

    def name(self, prefix, typ, term):
        key = (typ, term)
        n = self.seen.get(key)
        if n is None:
            n = '%s%d' % (prefix, len(self.defs))
            self.seen[key] = n
            self.defs.append('Definition %s : %s := %s.' % (n, typ, term))
        return n

    def preamble(self):
        return 'Open Scope string_scope.\n' + '\n'.join(self.defs) + '\n'

    def obj(self, ctor, typ, prefix, e):
        cls, attrs = e
        fn = self.name('fn', 'list string', '[' + '; '.join(_cstr(k) for k, _ in attrs) + ']')
        term = '%s %s %s [%s]' % (ctor, _cstr(cls), fn, '; '.join(fval_term(v) for _, v in attrs))
        return self.name(prefix, typ, term)

    def group(self, g):
        items = []
        for k, kind, payload in g['attrs']:
            if kind == 'val':
                if payload is AUTO:
                    raise Unencodable('Automatic as a group attribute')
                items.append('(%s, GVal %s)' % (_cstr(k), vlib.bytes_lit(payload)))
            elif kind == 'procs':
                items.append('(%s, GProcs [%s])' % (_cstr(k), '; '.join(self.obj('mkpc', 'pconf', 'pc', p) for p in payload)))
            else:
                items.append('(%s, GSock %s)' % (_cstr(k), self.obj('mksock', 'sconf', 'sk', payload)))
        body = self.name('ga', 'list (string * gval)', '[' + '; '.join(items) + ']')
        return '(Build_gconf %s %s %s %s)' % (vlib.zlit(g['id']), _cstr(g['cls']),
                                              vlib.bytes_lit(g['name'].encode('utf-8')), body)

    def groups(self, gs):
        return '[' + '; '.join(self.group(g) for g in gs) + ']'


def names_term(ns):
    return '[' + '; '.join(vlib.bytes_lit(n.encode('utf-8')) for n in ns) + ']'


# --------------------------------------------------- independent judgement

LOGFILE_ATTRS = ('stdout_logfile', 'stderr_logfile')


def _proc_diffs(p, q):
    """attribute names in which two encoded process configs differ (AUTO logfile matches anything)"""
    out = []
    if p[0] != q[0]:
        out.append('<class>')
    dp, dq = dict(p[1]), dict(q[1])
    for k in sorted(set(dp) | set(dq)):
        if k not in dp or k not in dq:
            out.append(k)
            continue
        x, y = dp[k], dq[k]
        if x is AUTO or y is AUTO:
            if k in LOGFILE_ATTRS or (x is AUTO and y is AUTO):
                continue            # "a log file set to AUTO matches any file name"
            out.append(k)
        elif x != y:
            out.append(k)
    return out


def group_diffs(a, b, raw_events=None):
    """Deep comparison of two encoded group configs (never uses any __eq__ of the
    implementation).  Returns a sorted list of difference labels:
      '<class>', 'name', 'priority', 'numprocs', 'proc:<attr>', 'sock:<attr>', 'sock:<class>',
      '<attr>' for other group attributes, 'pool_events:order' when the subscription
      lists are equal as sets but ordered differently."""
    out = set()
    if a['cls'] != b['cls']:
        out.add('<class>')
    if a['name'] != b['name']:
        out.add('name')
    da = dict((k, (kind, p)) for k, kind, p in a['attrs'])
    db = dict((k, (kind, p)) for k, kind, p in b['attrs'])
    for k in sorted(set(da) | set(db)):
        if k not in da or k not in db:
            out.add(k)
            continue
        (ka, pa), (kb, pb) = da[k], db[k]
        if ka != kb:
            out.add(k)
        elif ka == 'procs':
            if len(pa) != len(pb):
                out.add('numprocs')
            else:
                for p, q in zip(pa, pb):
                    for d in _proc_diffs(p, q):
                        out.add('proc:' + d)
        elif ka == 'sock':
            if pa[0] != pb[0]:
                out.add('sock:<class>')
            sa, sb = dict(pa[1]), dict(pb[1])
            for kk in sorted(set(sa) | set(sb)):
                if sa.get(kk, None) != sb.get(kk, None):
                    out.add('sock:' + kk)
        elif pa != pb:
            out.add(k)
    return sorted(out)


def describes(file_enc, have_enc):
    """Does the encoded group `have_enc` (what the daemon holds) describe the group `file_enc`
    (a fresh parse of the file as it is now)?  Every attribute must be equal, except that a log
    file the *file* leaves Automatic may have any name.  Returns the list of differences."""
    out = []
    if file_enc['cls'] != have_enc['cls']:
        out.append('<class>')
    if file_enc['name'] != have_enc['name']:
        out.append('name')
    fa = dict((k, (kind, p)) for k, kind, p in file_enc['attrs'])
    ha = dict((k, (kind, p)) for k, kind, p in have_enc['attrs'])
    for k in sorted(set(fa) | set(ha)):
        if k not in fa or k not in ha or fa[k][0] != ha[k][0]:
            out.append(k)
            continue
        kind, pf = fa[k]
        ph = ha[k][1]
        if kind == 'procs':
            if len(pf) != len(ph):
                out.append('numprocs')
                continue
            for x, y in zip(pf, ph):
                if x[0] != y[0]:
                    out.append('proc:<class>')
                dx, dy = dict(x[1]), dict(y[1])
                for a in sorted(set(dx) | set(dy)):
                    if a not in dx or a not in dy:
                        out.append('proc:' + a)
                    elif dx[a] is AUTO:
                        if a not in LOGFILE_ATTRS and dy[a] is not AUTO:
                            out.append('proc:' + a)
                    elif dy[a] is AUTO or dx[a] != dy[a]:
                        out.append('proc:' + a)
        elif kind == 'sock':
            if pf[0] != ph[0] or dict(pf[1]) != dict(ph[1]):
                out.append(k)
        elif pf != ph:
            out.append(k)
    return sorted(set(out))


def events_only_reordered(a_cfg, b_cfg):
    """the two real pool configs subscribe to the same set of event types in a different list order"""
    ea, eb = getattr(a_cfg, 'pool_events', None), getattr(b_cfg, 'pool_events', None)
    if ea is None or eb is None:
        return False
    return ea != eb and len(ea) == len(eb) and set(ea) == set(eb)


def judge(new_cfgs, cur_cfgs, new_enc, cur_enc):
    """Independent expectation for reloadConfig: (added, changed, removed) name lists in the
    order the file / the active table lists them, plus per changed-candidate the reasons.
    Returns (expected, info) where info[name] = list of difference labels for groups in both."""
    cur_by = {}
    for g in cur_enc:
        cur_by[g['name']] = g
    new_names = set(g['name'] for g in new_enc)
    cur_cfg_by = dict((c.name, c) for c in cur_cfgs)
    added = [g['name'] for g in new_enc if g['name'] not in cur_by]
    removed = [g['name'] for g in cur_enc if g['name'] not in new_names]
    changed = []
    info = {}
    for g, cfg in zip(new_enc, new_cfgs):
        o = cur_by.get(g['name'])
        if o is None:
            continue
        d = group_diffs(g, o)
        if 'pool_events' in d and events_only_reordered(cfg, cur_cfg_by[g['name']]):
            d = [x for x in d if x != 'pool_events'] + ['pool_events:order']
        info[g['name']] = d
        if [x for x in d if x != 'pool_events:order']:
            changed.append(g['name'])
    return (added, changed, removed), info


# ------------------------------------------------------------ the real side

class NullLogger(object):
    def __getattr__(self, name):
        return lambda *a, **k: None


def base_text(wd):
    return ('[supervisord]\nlogfile=%s/supervisord.log\npidfile=%s/supervisord.pid\nchildlogdir=%s\n'
            % (wd, wd, wd))


class Files(str):
    """text of the main configuration file plus the include files it pulls in: {relative path: text}"""
    extra = None

    def __new__(cls, main, extra):
        o = str.__new__(cls, main)
        o.extra = dict(extra)
        return o


class RealWorld(object):
    """A real ServerOptions + Supervisor + RPC interface over a file in `wd`."""

    def __init__(self, wd, logger=None):
        self.wd = wd
        self.path = os.path.join(wd, 'supervisord.conf')
        self.logger = logger or NullLogger()
        self.xml_hostile = 0

    def write(self, text):
        # include files of this version of the configuration (conf.d/ is rewritten every time)
        import shutil
        inc = os.path.join(self.wd, 'conf.d')
        shutil.rmtree(inc, ignore_errors=True)
        for rel, t in sorted((getattr(text, 'extra', None) or {}).items()):
            d = os.path.dirname(os.path.join(self.wd, rel))
            if not os.path.isdir(d):
                os.makedirs(d)
            with open(os.path.join(self.wd, rel), 'wb') as f:
                f.write(t if isinstance(t, bytes) else t.encode('utf-8'))
        if text is not None and not getattr(text, 'extra', None):
            import c15_gen
            text = c15_gen.subst(text)       # (placeholders left in hand-built texts)
        if text is None:
            if os.path.exists(self.path):
                os.unlink(self.path)
            return
        with open(self.path, 'wb') as f:
            f.write(text if isinstance(text, bytes) else text.encode('utf-8'))

    def boot(self, text):
        """Parse `text` with the real reader and activate every group, as Supervisor.run does."""
        from supervisor.options import ServerOptions
        from supervisor.supervisord import Supervisor
        from supervisor.states import SupervisorStates
        from supervisor import rpcinterface, events
        events.clear()
        self.write(text)
        o = ServerOptions()
        o.configfile = self.path
        o.process_config(do_usage=False)
        o.logger = self.logger
        o.mood = SupervisorStates.RUNNING
        n = [0]

        def autoname(name, identifier, channel):
            n[0] += 1
            return '/sim/childlog/%s-%s---%s-%06d.log' % (name, channel, identifier, n[0])
        o.get_autochildlog_name = autoname      # no files are created for AUTO logs
        self.options = o
        self.sup = Supervisor(o)
        for cfg in o.process_group_configs:
            self.sup.add_process_group(cfg)
        self.rpc = rpcinterface.SupervisorNamespaceRPCInterface(self.sup)
        from rpcstack import RpcStack
        self.stack = RpcStack(self.sup, [('supervisor', self.rpc)])
        return o.process_group_configs

    def fresh_parse(self):
        """the file as it is now, read by a ServerOptions of its own (nothing shared with the daemon)"""
        from supervisor.options import ServerOptions
        o = ServerOptions()
        o.configfile = self.path
        o.process_config(do_usage=False)
        return list(o.process_group_configs)

    def cur_configs(self):
        return [g.config for g in self.sup.process_groups.values()]

    def reload(self):
        """supervisor.reloadConfig through the real XML-RPC handler (harness/rpcstack.py): an
        exception escaping the method shows as ('exc', 'http', 500), as a client would see it"""
        try:
            r = self.stack.call('supervisor.reloadConfig', ())
        except BaseException as e:       # SystemExit (usage() -> sys.exit) included: the daemon would be gone
            return ('exc', type(e).__name__, str(e)[:300])
        if r[0] == 'value':
            return ('ok', r[1])
        if r[0] == 'fault':
            return ('fault', r[1], '')
        if r[0] == 'deferred':
            return ('exc', 'deferred', '')
        if r[0] == 'malformed-xml':
            # the fault text quotes a control character of the file (NUL, ...) that XML 1.0 cannot
            # carry: the known XML-RPC marshalling limitation (C16-xmlctl), not a matter of reread.
            # Judge what the method itself answered.
            d = self.stack.direct('supervisor.reloadConfig', ())
            self.xml_hostile += 1
            if d[0] == 'fault':
                return ('fault', d[1], 'xml-hostile')
            return ('exc',) + tuple(d)
        return ('exc',) + tuple(r)

    def snapshot(self):
        """identities and serialised values of everything a failed reread must leave alone"""
        o, s = self.options, self.sup
        groups = []
        for name, grp in s.process_groups.items():
            procs = [(pn, id(p), id(p.config), p.pid, p.state) for pn, p in grp.processes.items()]
            groups.append((name, id(grp), id(grp.config), procs))
        cfgs = [(id(c), [id(p) for p in c.process_configs]) for c in o.process_group_configs]
        vals = [repr(_snap_group(encode_group(c, 0))) for c in o.process_group_configs]
        active_vals = [repr(_snap_group(encode_group(g.config, 0))) for g in s.process_groups.values()]
        return {'groups': groups, 'cfg_ids': cfgs, 'cfg_vals': vals, 'active_vals': active_vals,
                'mood': o.mood}

    def close(self):
        from supervisor import events
        events.clear()


def _snap_group(g):
    def fix(x):
        if x is AUTO:
            return 'AUTO'
        if isinstance(x, (list, tuple)):
            return [fix(y) for y in x]
        if isinstance(x, dict):
            return dict((k, fix(v)) for k, v in x.items())
        return x
    return fix(g)
