"""C08/C07 harness, single channel: drive the real POutputDispatcher.

A `Rig` owns a minimal but real-ish environment for one dispatcher: a process
object with pid/config/group, a config with the attributes the dispatcher
reads, and an options object whose getLogger is the real loggers.getLogger
(so the channel log is a real FileHandler on a real file under the work
directory and the capture log is the real BoundIO) and whose readfd returns
the next scripted chunk.  PROCESS_COMMUNICATION and PROCESS_LOG events are
collected through the real events.subscribe/notify.

`run()` feeds the fragments one read at a time, then calls
record_output(final=True) as Subprocess.finish does, and returns the
serialised trace (same layout as coq/C08/StreamCheck.v:trace_ser)."""
import os

import vlib

vlib.ensure_impl_path()


def tokens():
    import c08_tokens
    t = c08_tokens.generate()
    return t['begin'], t['end']


def sym_table(begin, end):
    """Mirror of StreamCheck.sym_bytes."""
    return {
        0: begin, 1: end, 2: begin[:19], 3: begin[19:], 4: begin[:16], 5: end[16:],
        6: b'a', 7: b'\xff', 8: b'<', 9: begin[21:], 10: begin[:23], 11: b'>',
        12: begin[16:], 13: begin[:1] + begin, 14: b'xyz',
    }


def frag_syms(table, syms, mask):
    out, cur = [], b''
    for k in syms:
        cur += table[k]
        if mask & 1:
            out.append(cur)
            cur = b''
        mask >>= 1
    if cur:
        out.append(cur)
    return out


class _NullLogger(object):
    def __init__(self):
        self.records = []

    def log(self, level, msg, **kw):
        self.records.append((level, msg % kw if kw else msg))

    def __getattr__(self, name):
        return lambda *a, **k: None


class HarnessFailure(Exception):
    """The implementation did something the harness itself can judge wrong
    (independently of the model)."""


def bytes_repr(b):
    """repr() of a bytes object, written out (independent of the implementation's '%r')"""
    quote = '"' if (39 in b and 34 not in b) else "'"
    out = ['b', quote]
    for x in b:
        if x == 92:
            out.append('\\\\')
        elif x == ord(quote):
            out.append('\\' + quote)
        elif x == 9:
            out.append('\\t')
        elif x == 10:
            out.append('\\n')
        elif x == 13:
            out.append('\\r')
        elif 32 <= x < 127:
            out.append(chr(x))
        else:
            out.append('\\x%02x' % x)
    out.append(quote)
    return ''.join(out)


def payload_body(data):
    """body of a PROCESS_COMMUNICATION / PROCESS_LOG payload: the text when the data is valid UTF-8,
    else the documented 'Undecodable: <repr of the bytes>' (the listener can recover the bytes)"""
    try:
        return data.decode('utf-8')
    except UnicodeDecodeError:
        return 'Undecodable: ' + bytes_repr(data)


class _FakeSyslog(object):
    """Stands in for the syslog module inside supervisor.loggers (the real one
    would write to the machine's syslog)."""
    def __init__(self):
        self.lines = []

    def syslog(self, *a):
        self.lines.append(a[-1])


# how the ordinary log of the channel is configured
LOG_FILE, LOG_NONE, LOG_ROTATING, LOG_SYSLOG_ONLY, LOG_FILE_AND_SYSLOG = range(5)
# [supervisord] loglevel
LOGLEVELS = ['INFO', 'BLAT', 'WARN', 'TRAC', 'ERRO', 'DEBG', 'CRIT']


def has_file(logmode):
    return logmode in (LOG_FILE, LOG_ROTATING, LOG_FILE_AND_SYSLOG)


class Rig(object):
    def __init__(self, workdir, tag='r'):
        from supervisor import loggers, events
        self.loggers = loggers
        self.syslog = _FakeSyslog()
        loggers.syslog = self.syslog
        self.events = events
        self.path = os.path.join(workdir, 'chan-%s.log' % tag)
        rig = self

        # a real ServerOptions: the dispatcher creates its child / capture loggers through the real
        # ServerOptions.getLogger; only the descriptor-level calls are replaced (there is no pipe)
        from supervisor.options import ServerOptions
        opts = ServerOptions()
        opts.strip_ansi = False
        opts.loglevel = loggers.LevelsByName.INFO
        opts.logger = _NullLogger()
        opts.readfd = lambda fd: rig.pending.pop(0)
        self.closed_fds = []
        opts.close_fd = self.closed_fds.append

        class GConfig(object):
            name = 'grp'

        class Group(object):
            config = GConfig()

        class Config(object):
            name = 'prog'
            options = opts
            stdout_logfile = None
            stderr_logfile = None
            stdout_logfile_maxbytes = 0
            stderr_logfile_maxbytes = 0
            stdout_logfile_backups = 0
            stderr_logfile_backups = 0
            stdout_syslog = False
            stderr_syslog = False
            stdout_capture_maxbytes = 0
            stderr_capture_maxbytes = 0
            stdout_events_enabled = False
            stderr_events_enabled = False

        class Proc(object):
            pid = 4242
            config = Config()
            group = Group()

        self.proc = Proc()
        self.config = self.proc.config
        self.options = self.config.options
        self.pending = []
        self.comm = []
        self.plog = []
        events.clear()
        events.subscribe(events.ProcessCommunicationEvent, self.comm.append)
        events.subscribe(events.ProcessLogEvent, self.plog.append)

    def make(self, channel, capmax, events_enabled=False, strip=False, debug=False, logmode=0, loglevel=None):
        from supervisor import dispatchers
        ev = self.events
        c = self.config
        for ch in ('stdout', 'stderr'):
            setattr(c, ch + '_logfile', None)
            setattr(c, ch + '_capture_maxbytes', 0)
            setattr(c, ch + '_events_enabled', False)
        for ch in ('stdout', 'stderr'):
            setattr(c, ch + '_syslog', False)
            setattr(c, ch + '_logfile_maxbytes', 0)
            setattr(c, ch + '_logfile_backups', 0)
        if has_file(logmode):
            setattr(c, channel + '_logfile', self.path)
        if logmode == LOG_ROTATING:
            # a RotatingFileHandler that never has a reason to roll over
            setattr(c, channel + '_logfile_maxbytes', 1 << 30)
            setattr(c, channel + '_logfile_backups', 2)
        if logmode in (LOG_SYSLOG_ONLY, LOG_FILE_AND_SYSLOG):
            setattr(c, channel + '_syslog', True)
        del self.syslog.lines[:]
        self.logmode = logmode
        setattr(c, channel + '_capture_maxbytes', capmax)
        setattr(c, channel + '_events_enabled', events_enabled)
        self.options.strip_ansi = strip
        L = self.loggers.LevelsByName
        if loglevel is None:
            loglevel = 'DEBG' if debug else 'INFO'
        # [supervisord] loglevel: the child and capture logs must not depend on it
        self.options.loglevel = getattr(L, loglevel)
        self.debug = self.options.loglevel <= L.DEBG
        self.options.logger.records = []
        if os.path.exists(self.path):
            os.unlink(self.path)
        del self.comm[:]
        del self.plog[:]
        etype = ev.ProcessCommunicationStdoutEvent if channel == 'stdout' else ev.ProcessCommunicationStderrEvent
        self.channel = channel
        self.d = dispatchers.POutputDispatcher(self.proc, etype, 7)
        return self.d

    def close(self):
        d = self.d
        for lg in (d.normallog, d.capturelog):
            if lg is not None:
                lg.close()

    def _step(self, with_plog, consumed):
        d = self.d
        size = os.stat(self.path).st_size if os.path.exists(self.path) else 0
        if not has_file(self.logmode) and size:
            raise HarnessFailure('a log file exists although none is configured')
        capv = d.capturelog.getvalue() if d.capturelog is not None else b''
        # judged by the harness itself
        if not consumed.endswith(d.output_buffer):
            raise HarnessFailure('output_buffer %r is not a suffix of the bytes read so far' % (d.output_buffer,))
        want_log = d.capturelog if d.capturemode else d.normallog
        if d.childlog is not want_log:
            raise HarnessFailure('childlog does not match capturemode')
        out = [size, len(self.comm)]
        if with_plog:
            out.append(len(self.plog))
        out += [len(d.output_buffer), int(bool(d.capturemode)), len(capv), int(bool(d.closed))]
        return out

    def run(self, frags, capmax, channel='stdout', events_enabled=False, strip=False, debug=False, logmode=0, loglevel=None):
        """`frags`: script of reads (bytes) and 'reopen' / 'clear' steps
        (POutputDispatcher.reopenlogs() / removelogs()).  -> (serialised trace, info dict)"""
        d = self.make(channel, capmax, events_enabled, strip, debug, logmode, loglevel)
        debug = self.debug
        dropped = 0
        trace = []
        consumed = b''
        try:
            for f in frags:
                if f == 'reopen':
                    d.reopenlogs()
                    trace += self._step(events_enabled, consumed)
                    continue
                if f == 'clear':
                    if os.path.exists(self.path):
                        dropped += os.stat(self.path).st_size
                    d.removelogs()
                    trace += self._step(events_enabled, consumed)
                    continue
                if not d.readable():
                    # drain() / the main loop never read a closed dispatcher
                    raise HarnessFailure('script reads after EOF')
                self.pending[:] = [f]
                consumed += f
                d.handle_read_event()
                trace += self._step(events_enabled, consumed)
            d.record_output(final=True)
            trace += self._step(events_enabled, consumed)
            log = b''
            if os.path.exists(self.path):
                with open(self.path, 'rb') as fh:
                    log = fh.read()
            if os.path.exists(self.path + '.1'):
                raise HarnessFailure('the log was rotated although maxbytes was not reached')
            capv = d.capturelog.getvalue() if d.capturelog is not None else b''
            comm = []
            for e in self.comm:
                if e.process is not self.proc or e.pid != self.proc.pid or e.channel != channel:
                    raise HarnessFailure('PROCESS_COMMUNICATION event with wrong process/pid/channel')
                comm.append(e.data)
            plog = []
            for e in self.plog:
                if e.process is not self.proc or e.pid != self.proc.pid or e.channel != channel:
                    raise HarnessFailure('PROCESS_LOG event with wrong process/pid/channel')
                plog.append(e.data)
            trace += [len(log)] + list(log)
            trace += [len(comm)]
            for x in comm:
                trace += [len(x)] + list(x)
            trace += [len(d.output_buffer)] + list(d.output_buffer)
            trace += [len(capv)] + list(capv)
            if events_enabled:
                trace += [len(plog)]
                for x in plog:
                    trace += [len(x)] + list(x)
            if debug and events_enabled and len(self.options.logger.records) != len(self.plog):
                raise HarnessFailure('main-log debug records and PROCESS_LOG events differ in number')
            if debug and not events_enabled and log and not self.options.logger.records:
                raise HarnessFailure('loglevel=debug but the output was not copied to the main log')
            info = {'log': log, 'comm': comm, 'plog': plog, 'cap': capv, 'buf': d.output_buffer,
                    'capmode': bool(d.capturemode), 'syslog': list(self.syslog.lines), 'dropped': dropped}
            # what a listener is handed: header and body of every event's payload
            for e in list(self.comm) + list(self.plog):
                head = 'processname:prog groupname:grp pid:4242' + (' channel:%s' % channel if e in self.plog else '') + '\n'
                want = head + payload_body(e.data)
                if e.payload() != want:
                    raise HarnessFailure('event payload %r differs from the documented form %r' % (e.payload()[:120], want[:120]))
        finally:
            self.close()
        return trace, info


def _describe(e):
    if isinstance(e, HarnessFailure):
        return str(e)
    import traceback
    return 'the implementation raised: ' + ''.join(traceback.format_exception(type(e), e, e.__traceback__))[-1200:]


def wsum(trace):
    return sum((i + 1) * (x + 1) for i, x in enumerate(trace))


# ----------------------------------------------------------------- reference
# An independent Python statement of the property (used to judge the
# implementation when model and implementation disagree, and to classify).

def split_ref(stream, begin, end, capmax):
    """-> (logged bytes, [enclosed bytes of each closed section], open section or None)"""
    if not capmax:
        return stream, [], None
    logged, secs = b'', []
    pos = 0
    while True:
        i = stream.find(begin, pos)
        if i < 0:
            return logged + stream[pos:], secs, None
        logged += stream[pos:i]
        j = stream.find(end, i + len(begin))
        if j < 0:
            return logged, secs, stream[i + len(begin):]
        secs.append(stream[i + len(begin):j])
        pos = j + len(end)


def judge(stream, info, begin, end, capmax, haslog=True, cleared=False, dropped=0):
    """The C08 property on one completed run.  Returns None or a reason.
    haslog=False: no ordinary log file is configured (the file must stay absent/empty).
    cleared=True: removelogs() happened during the run: the log holds a trailing part of the
    bytes outside capture sections and an event may hold a trailing part of its section."""
    logged, secs, _open = split_ref(stream, begin, end, capmax)
    if not haslog:
        if info['log']:
            return 'bytes in a log file although no log file is configured'
    elif cleared:
        # removelogs() emptied the file when `dropped` bytes had been logged: the file at the configured
        # path holds exactly what was logged afterwards
        if info['log'] != logged[dropped:]:
            return 'after removelogs() the log file does not hold exactly what was logged since'
    elif info['log'] != logged:
        return 'log file differs from the bytes outside capture sections'
    if len(info['comm']) != len(secs):
        return 'number of PROCESS_COMMUNICATION events differs from the number of sections'
    for data, sec in zip(info['comm'], secs):
        if cleared:
            if len(data) > capmax or not sec.endswith(data):
                return 'event data is not a trailing part of the enclosed bytes within capture_maxbytes'
        elif len(sec) <= capmax:
            if data != sec:
                return 'event data differs from the enclosed bytes'
        elif len(data) > capmax or not sec.endswith(data):
            return 'event data is not a trailing part of the enclosed bytes within capture_maxbytes'
    return None


# ----------------------------------------------------------------- workers

_RIG = None


def _worker_init(workdir):
    global _RIG, _TABLE, _TOK
    sub = os.path.join(workdir, 'w%d' % os.getpid())
    os.makedirs(sub, exist_ok=True)
    _RIG = Rig(sub)
    _TOK = tokens()
    _TABLE = sym_table(*_TOK)


def sum_job(job):
    """job = (syms, capmax, logmode, eof) -> (checksum over all fragmentations, n runs, judge failures)"""
    syms, capmax, logmode, eof = job
    n = len(syms)
    total = 0
    bad = []
    stream = b''.join(_TABLE[k] for k in syms)
    for mask in range(2 ** max(0, n - 1)):
        frags = frag_syms(_TABLE, syms, mask) + ([b''] if eof else [])
        try:
            tr, info = _RIG.run(frags, capmax, channel='stdout' if (mask + n) % 2 == 0 else 'stderr', logmode=logmode,
                                loglevel=LOGLEVELS[(mask + len(stream)) % len(LOGLEVELS)])
        except Exception as e:
            bad.append((mask, _describe(e)))
            continue
        why = judge(stream, info, _TOK[0], _TOK[1], capmax, haslog=has_file(logmode))
        if why:
            bad.append((mask, why))
        total += (mask + 1) * wsum(tr)
    return total, 2 ** max(0, n - 1), bad


def exact_job(job):
    """job = (script, capmax, channel, events_enabled, logmode) -> (trace, judge failure or None, summary)"""
    frags, capmax, channel, ev, logmode = job
    try:
        # every third script also with loglevel=debug: _log copies the data to the main log (decoded, or
        # 'Undecodable: ...' for binary output)
        tr, info = _RIG.run(frags, capmax, channel=channel, events_enabled=ev, logmode=logmode,
                            loglevel=LOGLEVELS[(len(frags) * 3 + capmax + sum(len(f) for f in frags)) % len(LOGLEVELS)])
    except Exception as e:
        return None, _describe(e), None
    script = frags
    frags = [f for f in script if isinstance(f, bytes)]
    why = judge(b''.join(frags), info, _TOK[0], _TOK[1], capmax, haslog=has_file(logmode), cleared='clear' in script,
                dropped=info['dropped'])
    if why is None and logmode in (LOG_SYSLOG_ONLY, LOG_FILE_AND_SYSLOG):
        # syslog receives, line by line and prefixed with the program name, what the file receives
        got = b''.join(l[len('prog '):].encode('utf-8') for l in info['syslog'])
        want, _s, _o = split_ref(b''.join(frags), _TOK[0], _TOK[1], capmax)
        if got != want.replace(b'\n', b''):
            why = 'syslog lines differ from the bytes outside capture sections'

    captured_in_plog = None
    if ev:
        captured_in_plog = sum(len(x) for x in info['plog']) > len(info['log'])
    return tr, why, (len(info['log']), len(info['comm']), tuple(len(x) for x in info['comm']),
                     info['capmode'], captured_in_plog)


# ----------------------------------------------------------------- BoundIO alone

def boundio_job(job):
    """job = (maxbytes, [chunk, ...]) -> ([buffer after each write], judge failure or None)
    on the real loggers.BoundIO."""
    from supervisor import loggers
    mb, chunks = job
    io = loggers.BoundIO(mb)
    out = []
    total = b''
    why = None
    for c in chunks:
        io.write(c)
        total += c
        v = io.getvalue()
        out.append(v)
        if why is None and mb >= 0:
            if not total.endswith(v):
                why = 'buffer is not a trailing part of what was written'
            elif len(v) > mb:
                why = 'buffer longer than maxbytes'
            elif len(total) <= mb and v != total:
                why = 'data discarded although everything written fits in maxbytes'
    return out, why


# ----------------------------------------------------------------- byte-level cuts

def cut_pairs(n, stride):
    """Mirror of StreamCheck.cut_pairs."""
    out = [(c, c) for c in range(1, n)]
    for c1 in range(1, n):
        for c2 in range(1, n):
            if c1 < c2 and c1 % stride == 0 and c2 % stride == 0:
                out.append((c1, c2))
    return out


def cut_frags(s, c1, c2):
    if c1 == c2:
        return [s[:c1], s[c1:]]
    return [s[:c1], s[c1:c2], s[c2:]]


def cuts_job(job):
    """job = (stream, capmax, logmode, stride) -> (checksum, n runs, [(c1, c2, why)])"""
    s, capmax, logmode, stride = job
    total = 0
    bad = []
    pairs = cut_pairs(len(s), stride)
    for i, (c1, c2) in enumerate(pairs):
        frags = cut_frags(s, c1, c2)
        try:
            tr, info = _RIG.run(frags, capmax, channel='stdout' if i % 2 == 0 else 'stderr', logmode=logmode,
                                loglevel=LOGLEVELS[i % len(LOGLEVELS)])
        except Exception as e:
            bad.append((c1, c2, _describe(e)))
            continue
        why = judge(s, info, _TOK[0], _TOK[1], capmax, haslog=has_file(logmode))
        if why:
            bad.append((c1, c2, why))
        total += (i + 1) * wsum(tr)
    return total, len(pairs), bad


# ----------------------------------------------------------------- strip_ansi with capture

def _strip_ref(s):
    """Independent reference for stripEscapes on a whole chunk: remove ESC [ ... up to and
    including the first terminator byte (to the end when there is none)."""
    terms = b'HfABCDRsuJKhlpm'
    out = bytearray()
    i, n = 0, len(s)
    while i < n:
        if s[i:i + 2] == b'\x1b[':
            j = i + 1
            while j < n and s[j] not in terms:
                j += 1
            i = j + 1
        else:
            out.append(s[i])
            i += 1
    return bytes(out)


def split_pieces(stream, begin, end, capmax):
    """-> [('log', bytes) | ('sec', bytes) | ('open', bytes)] in order (reference parse)"""
    if not capmax:
        return [('log', stream)]
    out = []
    pos = 0
    while True:
        i = stream.find(begin, pos)
        if i < 0:
            out.append(('log', stream[pos:]))
            return out
        out.append(('log', stream[pos:i]))
        j = stream.find(end, i + len(begin))
        if j < 0:
            out.append(('open', stream[i + len(begin):]))
            return out
        out.append(('sec', stream[i + len(begin):j]))
        pos = j + len(end)


def strip_job(job):
    """strip_ansi on.  job = (script, capmax, channel, logmode) -> (trace, judge failure or None).
    The scanner must work on the RAW bytes: the number of events is the number of sections of the
    raw stream whatever escape sequences surround the tags.  For single-read scripts every piece
    between tags is one _log chunk, so log = concatenation of stripEscapes(piece) and event data =
    stripEscapes(section) (bounded)."""
    script, capmax, channel, logmode = job
    try:
        tr, info = _RIG.run(script, capmax, channel=channel, strip=True, logmode=logmode,
                            loglevel=LOGLEVELS[(len(script[0]) + capmax) % len(LOGLEVELS)])
    except Exception as e:
        return None, _describe(e)
    reads = [f for f in script if isinstance(f, bytes)]
    stream = b''.join(reads)
    pieces = split_pieces(stream, _TOK[0], _TOK[1], capmax)
    secs = [d for k, d in pieces if k == 'sec']
    why = None
    if len(info['comm']) != len(secs):
        why = 'number of PROCESS_COMMUNICATION events differs from the number of sections of the raw stream'
    elif len([r for r in reads if r]) <= 1:
        if has_file(logmode):
            # the tail may be logged in two chunks (hold-back of a tag prefix), which never contains ESC
            want = b''.join(_strip_ref(d) for k, d in pieces if k == 'log')
            if info['log'] != want:
                why = 'log differs from stripEscapes of the pieces outside capture sections'
        for data, sec in zip(info['comm'], secs):
            w = _strip_ref(sec)
            if capmax > 0 and (data != w[-capmax:] if len(w) > capmax else data != w):
                why = 'event data differs from stripEscapes of the enclosed bytes'
    return tr, why


# ----------------------------------------------------------------- one event per section, as listeners see it

def pools_job(job):
    """Real EventListenerPool objects (no listener processes: events stay in event_buffer) subscribed
    through the real _subscribe()/_subscription_types() to every ordered selection of <= 3 of the
    event types around PROCESS_COMMUNICATION; one real dispatcher run with two sections.  Each pool
    must have buffered each event exactly once if one of its types covers it, else not at all.
    -> list of failure texts"""
    import itertools
    from supervisor import events as ev
    from supervisor.options import EventListenerPoolConfig
    from supervisor.process import EventListenerPool
    from supervisor.dispatchers import default_handler
    channel, capmax = job
    B, E = _TOK
    types = [ev.Event, ev.ProcessCommunicationEvent, ev.ProcessCommunicationStdoutEvent,
             ev.ProcessCommunicationStderrEvent, ev.ProcessLogEvent, ev.ProcessLogStdoutEvent]
    d = _RIG.make(channel, capmax, events_enabled=True)
    pools = []
    for n in (1, 2, 3):
        for sel in itertools.permutations(types, n):
            cfg = EventListenerPoolConfig(_RIG.options, 'pool%d' % len(pools), 999, [], 1000, list(sel), default_handler)
            pools.append((sel, EventListenerPool(cfg)))
    bad = []
    try:
        for chunk in (b'one' + B + b'first' + E + b'two' + B[:5], B[5:] + b'second' + E + b'three\n', b''):
            _RIG.pending[:] = [chunk]
            d.handle_read_event()
        d.record_output(final=True)
        emitted = list(_RIG.comm) + list(_RIG.plog)
        if len(_RIG.comm) != (2 if capmax else 0):
            bad.append('dispatcher emitted %d PROCESS_COMMUNICATION events' % len(_RIG.comm))
        for sel, pool in pools:
            for e in emitted:
                want = 1 if any(isinstance(e, t) for t in sel) else 0
                got = len([x for x in pool.event_buffer if x is e])
                if got != want:
                    bad.append('a pool subscribed to %s received the %s event %r %d times (expected %d)'
                               % ([t.__name__ for t in sel], type(e).__name__, e.data, got, want))
                    break
    finally:
        for sel, pool in pools:
            pool._unsubscribe()
        _RIG.close()
    return bad
