"""C16 streaming harness: the real tail_f_producer on real files, the real
/logtail response produced by the real server (handler -> done() -> producer
chain -> deferring_http_channel) over a unix socket, and the real
supervisor.http_client.HTTPHandler decoding arbitrary segmentations.

Clock: deferring_http_channel polls a deferred producer at most every
`delay` = 0.1 s of `time.time()`.  `FakeClock` is put in place of the `time`
module *as seen by supervisor.http* while a stream is driven, so that one
history step = one quiescent burst of polls, without sleeping.
"""
import os
import socket
import time as _real_time


class FakeClock(object):
    def __init__(self):
        self.now = _real_time.time()

    def time(self):
        return self.now

    def advance(self, dt):
        self.now += dt

    def __getattr__(self, name):
        return getattr(_real_time, name)


class Files(object):
    """Scripted history of one log path; every file ever created gets a small
    id and stays readable through a descriptor held here (which also keeps the
    kernel from reusing its inode number, as the producer's own descriptor
    does for the file it follows)."""

    def __init__(self, path):
        self.path = path
        self.fds = {}       # id -> fd (O_RDWR)
        self.ino = {}       # st_ino -> id
        self.next_id = 1
        self.prev = None    # id of the file the path named before the last rotation/unlink
        self.cur = None

    def _register(self):
        fd = os.open(self.path, os.O_RDWR)
        i = self.next_id
        self.next_id += 1
        self.fds[i] = fd
        self.ino[os.fstat(fd).st_ino] = i
        return i

    def create(self, content=b''):
        with open(self.path, 'wb') as f:
            f.write(content)
        self.cur = self._register()
        return self.cur

    def apply(self, op):
        kind = op[0]
        if kind == 'append':
            if not os.path.exists(self.path):      # open(..., 'ab') would create it: a new file
                self.create(op[1])
            else:
                with open(self.path, 'ab') as f:
                    f.write(op[1])
        elif kind == 'rotate':            # rename + create (RotatingFileHandler.doRollover)
            os.rename(self.path, self.path + '.%d' % self.next_id)
            self.prev = self.cur
            self.create(op[1])
        elif kind == 'remove_create':     # FileHandler.remove + reopen (clearProcessLogs)
            os.remove(self.path)
            self.prev = self.cur
            self.create(op[1])
        elif kind == 'truncate':          # same inode, shorter
            os.truncate(self.path, op[1])
        elif kind == 'truncate_regrow':   # copytruncate-style: same inode, emptied, new content
            with open(self.path, 'r+b') as f:
                f.truncate(0)
                f.write(op[1])
        elif kind == 'unlink':
            os.remove(self.path)
            self.prev = self.cur
            self.cur = None
        elif kind == 'append_old':        # a writer that still holds the rotated/unlinked file
            if self.prev is not None:
                os.lseek(self.fds[self.prev], 0, os.SEEK_END)
                os.write(self.fds[self.prev], op[1])
        elif kind == 'recreate':          # path absent -> create
            if self.cur is None:
                self.create(op[1])
        else:
            raise ValueError(op)

    def state(self):
        """(id the path names or None, {id: content})"""
        try:
            st = os.stat(self.path)
            pid = self.ino.get(st.st_ino)
        except OSError:
            pid = None
        table = {}
        for i, fd in self.fds.items():
            size = os.fstat(fd).st_size
            table[i] = os.pread(fd, size, 0)
        return pid, table

    def close(self):
        for fd in self.fds.values():
            try:
                os.close(fd)
            except OSError:
                pass
        self.fds = {}


class _Req(object):
    pass


def drive_producer(workdir, initial, steps, head=1024):
    """Real tail_f_producer, polled once after every step (a step is a list of
    ops).  Returns (id0, table0, [(path id, table, output)]) with output one of
    ('data', bytes) | ('notice', text) | ('notdone',)."""
    from supervisor import http as shttp
    path = os.path.join(workdir, 'tail.log')
    for f in os.listdir(workdir):
        if f.startswith('tail.log'):
            os.remove(os.path.join(workdir, f))
    files = Files(path)
    files.create(initial)
    req = _Req()
    prod = shttp.tail_f_producer(req, path, head)
    id0, table0 = files.state()
    trace = []
    try:
        for ops in steps:
            for op in ops:
                files.apply(op)
            pid, table = files.state()
            r = prod.more()
            if r is shttp.NOT_DONE_YET:
                o = ('notdone',)
            elif isinstance(r, bytes):
                o = ('data', r)
            else:
                o = ('notice', r)
            trace.append((pid, table, o))
    finally:
        prod._close()
        files.close()
    return id0, table0, trace


class StreamBed(object):
    """GET /logtail/g:p (or /mainlogtail) on the real server without
    authentication; the log file is scripted through `Files`."""

    def __init__(self, workdir, testbed_cls, username=None, password=None):
        from supervisor import http as shttp
        self.shttp = shttp
        self.clock = FakeClock()
        self.saved_time = shttp.time
        shttp.time = self.clock
        # http_channel.creation_time / last_used / kill_zombies read the clock of medusa.http_server
        from supervisor.medusa import http_server as mhs
        self.mhs = mhs
        self.saved_time_mhs = mhs.time
        mhs.time = self.clock
        self.tb = testbed_cls(workdir, username, password, tag='t', via_parser=False)
        self.workdir = workdir
        self.which = [i for i, a in enumerate(self.tb.addrs) if a[0] == socket.AF_UNIX][0]

    def close(self):
        self.shttp.time = self.saved_time
        self.mhs.time = self.saved_time_mhs
        self.tb.close()

    def _connect(self, inet=False):
        fam, addr = self.tb.addrs[(1 - self.which) if inet else self.which]
        c = socket.socket(fam, socket.SOCK_STREAM)
        c.connect(addr)
        c.setblocking(False)
        self.tb.poll(2)
        return c

    def _drain(self, c):
        """(bytes available now, peer closed?)"""
        out = b''
        for _ in range(50):
            self.tb.poll(1)
            try:
                d = c.recv(1 << 16)
                if d == b'':
                    return out, True
                out += d
            except (BlockingIOError, InterruptedError):
                break
            except (ConnectionResetError, BrokenPipeError):
                return out, True
        return out, False

    def zombie_scenario(self, step_seconds, nsteps, idle_seconds_before_maintenance=0):
        """An actively streaming tail (A), an idle tail whose log never grows (D), a
        connection that never sent anything (B) and a keep-alive connection that
        was answered once (C) live through `nsteps` steps of `step_seconds` on the
        fake clock; A's log is appended and delivered at every step.  Then the
        REAL maintenance runs: connections are accepted through the real accept
        path until a channel number is a multiple of maintenance_interval, which
        makes http_channel.__init__ call maintenance() -> kill_zombies().
        Returns a dict describing what each connection saw."""
        mainlog = os.path.join(self.workdir, 'main.log')
        plog = os.path.join(self.workdir, 'p.log')
        for pth in (mainlog, plog):
            with open(pth, 'wb') as f:
                f.write(b'start\n')
        chan_cls = self.shttp.deferring_http_channel
        timeline = []
        A = self._connect()
        A.send(b'GET /mainlogtail HTTP/1.1\r\nConnection: keep-alive\r\n\r\n')
        D = self._connect()
        D.send(b'GET /logtail/g:p HTTP/1.1\r\n\r\n')
        B = self._connect()
        C = self._connect()
        C.send(b'GET /stylesheets/supervisor.css HTTP/1.1\r\n\r\n')
        self.clock.advance(0.25)
        got = {'A': b'', 'B': b'', 'C': b'', 'D': b''}
        closed = {'A': False, 'B': False, 'C': False, 'D': False}
        conns = {'A': A, 'B': B, 'C': C, 'D': D}

        def pump():
            for _ in range(6):
                self.tb.poll(1)
            for k, c in conns.items():
                if not closed[k]:
                    d, cl = self._drain(c)
                    got[k] += d
                    closed[k] = cl
        pump()
        appended = b''
        for i in range(nsteps):
            self.clock.advance(step_seconds)
            piece = ('tick %d\n' % i).encode()
            with open(mainlog, 'ab') as f:
                f.write(piece)
            appended += piece
            pump()
            timeline.append(('advance+append', step_seconds, len(piece)))
        if idle_seconds_before_maintenance:
            self.clock.advance(idle_seconds_before_maintenance)
            timeline.append(('advance', idle_seconds_before_maintenance, 0))
        before = [(ch.last_used, ch.creation_time, id(ch)) for ch in list(self.tb.asyncore.socket_map.values())
                  if ch.__class__ is chan_cls]
        now = int(self.clock.time())
        # the real maintenance, through the real accept path
        counter = self.mhs.http_channel.channel_counter
        interval = chan_cls.maintenance_interval
        accepted = 0
        for _ in range(interval + 2):
            number = counter.as_long()
            x = self._connect()
            accepted += 1
            x.close()
            self.tb.poll(2)
            if number % interval == 0:
                break
        timeline.append(('maintenance', accepted, interval))
        alive_ids = set(id(ch) for ch in self.tb.asyncore.socket_map.values())
        survivors = [(lu, ct, cid in alive_ids) for (lu, ct, cid) in before]
        pump()
        # does A still stream?
        self.clock.advance(0.25)
        piece = b'after maintenance\n'
        with open(mainlog, 'ab') as f:
            f.write(piece)
        appended += piece
        pump()
        self.clock.advance(0.25)
        pump()
        for c in conns.values():
            c.close()
        self.tb.poll(3)
        return {'got': got, 'closed': closed, 'appended': appended, 'timeline': timeline, 'now': now,
                'timeout': chan_cls.zombie_timeout, 'channels': survivors, 'initial': b'start\n'}

    def stream(self, url, logpath, initial, steps, version='1.1', inet=False, headers=()):
        """Returns (response head bytes, [bytes that arrived in each burst], states)
        where burst 0 is what follows the head right after the request."""
        for f in os.listdir(os.path.dirname(logpath)):
            if f.startswith(os.path.basename(logpath) + '.'):
                os.remove(os.path.join(os.path.dirname(logpath), f))
        files = Files(logpath)
        files.create(initial)
        fam, addr = self.tb.addrs[(1 - self.which) if inet else self.which]
        c = socket.socket(fam, socket.SOCK_STREAM)
        c.connect(addr)
        c.setblocking(False)
        c.send(('GET %s HTTP/%s\r\n%s\r\n' % (url, version, ''.join(h + '\r\n' for h in headers))).encode())
        states = [files.state()]
        bursts = []
        try:
            buf = self._burst(c)
            i = buf.find(b'\r\n\r\n')
            head, rest = (buf[:i + 4], buf[i + 4:]) if i >= 0 else (buf, b'')
            bursts.append(rest)
            for ops in steps:
                for op in ops:
                    files.apply(op)
                states.append(files.state())
                bursts.append(self._burst(c))
        finally:
            c.close()
            self.tb.poll(3)
            files.close()
        return head, bursts, states

    def _burst(self, c):
        """Advance the clock past the producer delay and poll until nothing
        more arrives (the channel is waiting on NOT_DONE_YET again)."""
        self.clock.advance(0.25)
        out = b''
        quiet = 0
        for _ in range(2000):
            self.tb.poll(1)
            try:
                d = c.recv(1 << 16)
                if d == b'':
                    break
                out += d
                quiet = 0
            except (BlockingIOError, InterruptedError):
                quiet += 1
                if quiet >= 4:
                    break
        return out


class RecListener(object):
    def __init__(self):
        self.fed = []
        self.errors = []
        self.is_done = False
        self.closed = False
        self.statuses = []

    def status(self, url, status):
        self.statuses.append(status)

    def error(self, url, error):
        self.errors.append(error)

    def response_header(self, url, name, value):
        pass

    def done(self, url):
        self.is_done = True

    def feed(self, url, data):
        self.fed.append(data)

    def close(self, url):
        self.closed = True


def client_decode(segments):
    """Feed the segments to the REAL HTTPHandler through async_chat.handle_read
    (recv is the only thing replaced).  Returns (fed list, dead?, listener)."""
    from supervisor import http_client
    lis = RecListener()
    h = http_client.HTTPHandler(lis, conn=None, map={})
    h.url = 'http://test/'
    cur = [b'']
    h.recv = lambda n: cur[0]
    dead = False
    for seg in segments:
        if dead:
            break
        cur[0] = seg
        try:
            h.handle_read()
        except Exception:
            # asyncore.read() would call handle_error(): error reported, channel closed
            dead = True
    return lis.fed, dead, lis


def independent_decode(body):
    """A chunked decoder written for this harness (RFC 7230 4.1), strict.
    Returns (data of the complete chunks, terminated?)"""
    out = b''
    i = 0
    while True:
        j = body.find(b'\r\n', i)
        if j < 0:
            return out, False
        n = int(body[i:j], 16)
        if n == 0:
            return out, body[j + 2:j + 4] == b'\r\n'
        if len(body) < j + 2 + n:
            return out, False                      # the client hands a chunk over when it is complete
        if len(body) < j + 2 + n + 2:
            return out + body[j + 2:j + 2 + n], False
        out += body[j + 2:j + 2 + n]
        if body[j + 2 + n:j + 4 + n] != b'\r\n':
            raise ValueError('chunk not followed by CRLF')
        i = j + 4 + n


class ListProducer(object):
    """Hands out the given pieces, NOT_DONE_YET where a piece is None, then b''."""

    def __init__(self, pieces):
        self.pieces = list(pieces)

    def more(self):
        from supervisor.http import NOT_DONE_YET
        if not self.pieces:
            return b''
        p = self.pieces.pop(0)
        return NOT_DONE_YET if p is None else p


def real_encode(pieces):
    """The real chain of done() for a chunked reply (composite -> chunked ->
    composite -> hooked), driven until it is exhausted."""
    from supervisor import http as shttp
    inner = shttp.deferring_composite_producer([ListProducer(pieces)])
    chain = shttp.deferring_hooked_producer(
        shttp.deferring_composite_producer([shttp.deferring_chunked_producer(inner)]), lambda n: None)
    out = b''
    for _ in range(len(pieces) * 2 + 10):
        d = chain.more()
        if d is shttp.NOT_DONE_YET:
            continue
        if not d:
            break
        out += d
    return out


# ------------------------------------------------------------------------
# The real deferring_http_channel with a socket that accepts a scripted number
# of bytes per send() ("any network fragmentation" on the sending side).

class ScriptedSocket(object):
    """Stands where the connected socket stands.  send() accepts at most
    `next_k` bytes (0: EWOULDBLOCK); recv() hands over the request bytes."""

    _fd = [900000]

    def __init__(self):
        ScriptedSocket._fd[0] += 1
        self.fd = ScriptedSocket._fd[0]
        self.inbox = b''
        self.sent = []
        self.next_k = 1 << 30
        self.send_calls = 0
        self.closed = False

    def setblocking(self, flag):
        pass

    def fileno(self):
        return self.fd

    def getpeername(self):
        return ('127.0.0.1', 54321)

    def send(self, data):
        import errno
        self.send_calls += 1
        n = min(self.next_k, len(data))
        if n <= 0:
            raise socket.error(errno.EWOULDBLOCK, 'would block')
        self.sent.append(bytes(data[:n]))
        return n

    def recv(self, n):
        import errno
        if not self.inbox:
            raise socket.error(errno.EWOULDBLOCK, 'would block')
        d, self.inbox = self.inbox[:n], self.inbox[n:]
        return d

    def close(self):
        self.closed = True


class _StubServer(object):
    """What http_channel needs of its server: counters, logger, handler list."""

    def __init__(self, handlers, logger):
        from supervisor.medusa.counter import counter
        self.handlers = handlers
        self.total_requests = counter()
        self.exceptions = counter()
        self.bytes_out = counter()
        self.bytes_in = counter()
        self.logger = logger
        self.server_name = 'test'
        self.port = 0
        self.SERVER_IDENT = 'test'

    def log_info(self, message, type='info'):
        self.logger.lines.append((type, message))


class _Log(object):
    def __init__(self):
        self.lines = []

    def log(self, *a):
        self.lines.append(a)


class ChannelBed(object):
    """Real logtail_handler / mainlogtail_handler, real deferring_http_request.done(),
    real deferring_http_channel (found_terminator, push_with_producer,
    initiate_send, refill_buffer, writable); only the socket is scripted."""

    def __init__(self, workdir, c17mod):
        from supervisor import http as shttp
        self.shttp = shttp
        self.workdir = workdir
        os.makedirs(workdir, exist_ok=True)
        self.clock = FakeClock()
        self.saved_time = shttp.time
        shttp.time = self.clock
        self.logger = c17mod.Logger()
        self.plog = os.path.join(workdir, 'p.log')
        self.mainlog = os.path.join(workdir, 'main.log')
        for pth in (self.plog, self.mainlog):
            with open(pth, 'wb'):
                pass
        proc = c17mod.Proc('p', self.plog, [])
        groups = {'g': c17mod.Group('g', {'p': proc})}
        opts = c17mod.Options(workdir, self.logger)
        self.sup = c17mod.Supervisord(opts, groups)
        self.handlers = [shttp.logtail_handler(self.sup), shttp.mainlogtail_handler(self.sup)]

    def close(self):
        self.shttp.time = self.saved_time

    def run(self, url, logpath, initial, schedule, drain=True):
        """schedule: list of ('fs', [file ops]) | ('pass', k) | ('wait', k) (a write
        event offered without letting the producer delay elapse).
        Returns dict(states0, ops (as executed), wire, left, obs, error)."""
        for f in os.listdir(os.path.dirname(logpath)):
            if f.startswith(os.path.basename(logpath) + '.'):
                os.remove(os.path.join(os.path.dirname(logpath), f))
        files = Files(logpath)
        files.create(initial)
        sock = ScriptedSocket()
        server = _StubServer(self.handlers, _Log())
        ops = []
        error = None
        ch = self.shttp.deferring_http_channel(server, sock, ('127.0.0.1', 54321))
        try:
            state0 = files.state()
            first = schedule[0][1] if schedule and schedule[0][0] == 'pass' else 1 << 30
            rest = schedule[1:] if schedule and schedule[0][0] == 'pass' else schedule
            sock.inbox = ('GET %s HTTP/1.1\r\n\r\n' % url).encode()
            sock.next_k = first
            ch.handle_read_event()            # request -> handler -> done() -> first initiate_send
            ops.append(('pass', first))
            todo = list(rest)
            quiet = 0
            guard = 0
            while todo or (drain and quiet < 2):
                guard += 1
                if guard > 5000:
                    error = 'channel never went idle'
                    break
                if todo:
                    op = todo.pop(0)
                else:
                    op = ('pass', 1 << 30)
                if op[0] == 'fs':
                    for fop in op[1]:
                        files.apply(fop)
                    ops.append(('fs', files.state(), op[1]))
                    continue
                self.clock.advance(0.25 if op[0] == 'pass' else 0.001)
                if ch.socket is None or sock.closed or ch not in ch._map.values():
                    error = 'channel closed'
                    break
                if not ch.writable():
                    continue
                before = sock.send_calls
                sock.next_k = op[1]
                try:
                    ch.handle_write_event()
                except Exception as e:        # asyncore would call handle_error(): channel closed
                    error = '%s: %s' % (type(e).__name__, e)
                    break
                ops.append(('pass', op[1]))
                if not todo:
                    quiet = quiet + 1 if (sock.send_calls == before and not ch.ac_out_buffer) else 0
            wire = b''.join(sock.sent)
            left = bytes(ch.ac_out_buffer)
            obs = ch.ac_out_buffer_size
            fifo_len = len(ch.producer_fifo)
        finally:
            try:
                ch.del_channel()
            except Exception:
                pass
            files.close()
        return {'state0': state0, 'ops': ops, 'wire': wire, 'left': left, 'obs': obs, 'error': error,
                'still_open': fifo_len == 1 and not sock.closed}


def strict_dechunk(body):
    """-> (data of complete well-formed chunks, error or None).  A stream that
    simply stops at a chunk boundary is fine (the tail stays open)."""
    out = []
    pos = 0
    while pos < len(body):
        eol = body.find(b'\r\n', pos)
        if eol == -1:
            return b''.join(out), 'chunk-size line not terminated at offset %d' % pos
        line = body[pos:eol]
        if not line or line.strip(b'0123456789abcdefABCDEF'):
            return b''.join(out), 'malformed chunk-size line %r at offset %d' % (line[:40], pos)
        size = int(line, 16)
        data = body[eol + 2:eol + 2 + size]
        if len(data) < size:
            return b''.join(out), 'short final chunk (declared %d, present %d) at offset %d' % (size, len(data), pos)
        if body[eol + 2 + size:eol + 4 + size] != b'\r\n':
            return b''.join(out) + data, 'chunk of declared size %d at offset %d is not followed by CRLF' % (size, pos)
        out.append(data)
        pos = eol + 4 + size
    return b''.join(out), None
