"""C12 harness, configuration side: supervisor.reloadConfig / addProcessGroup /
removeProcessGroup against a REAL daemon object graph - real ServerOptions
(realize + process_config on a real temp config file), real Supervisor
(add_process_group / remove_process_group / diff_to_active), real
ProcessGroupConfig / FastCGIGroupConfig / EventListenerConfig and the real
process groups they make; no child is ever spawned (autostart=false and the
main loop is never run).  The RPC interface, handler and marshalling are the
real ones (RpcStack).
"""
import os

from supervisor.compat import StringIO
from supervisor import events
from supervisor.options import ServerOptions
from supervisor.supervisord import Supervisor
from supervisor.xmlrpc import SystemNamespaceRPCInterface
from supervisor.rpcinterface import make_main_rpcinterface
from supervisor.tests.base import DummyLogger
from rpcstack import RpcStack

HEAD = """[supervisord]
logfile=%(dir)s/supervisord.log
pidfile=%(dir)s/supervisord.pid
childlogdir=%(dir)s

[unix_http_server]
file=%(dir)s/supervisor.sock

[program:other]
command=/bin/cat
autostart=false

"""

# what the section(s) for the name 'web' look like; (text, group names defined, class of the 'web' group)
KINDS = {
    'absent': ('', [], None),
    'program': ('[program:web]\ncommand=/bin/cat\nautostart=false\n', ['web'], 'program'),
    'program-edited': ('[program:web]\ncommand=/bin/cat -u\nautostart=false\nstartsecs=3\n', ['web'], 'program'),
    'program-numprocs': ('[program:web]\ncommand=/bin/cat\nautostart=false\nnumprocs=2\nprocess_name=%%(program_name)s_%%(process_num)d\n',
                         ['web'], 'program'),
    'fcgi': ('[fcgi-program:web]\ncommand=/bin/cat\nsocket=unix://%(dir)s/web.sock\nautostart=false\n', ['web'], 'fcgi'),
    'fcgi-edited': ('[fcgi-program:web]\ncommand=/bin/cat\nsocket=unix://%(dir)s/web2.sock\nautostart=false\n', ['web'], 'fcgi'),
    'fcgi-tcp': ('[fcgi-program:web]\ncommand=/bin/cat\nsocket=tcp://localhost:59999\nautostart=false\n', ['web'], 'fcgi'),
    'eventlistener': ('[eventlistener:web]\ncommand=/bin/cat\nevents=TICK_5\nautostart=false\n', ['web'], 'listener'),
    'eventlistener-edited': ('[eventlistener:web]\ncommand=/bin/cat\nevents=TICK_60,PROCESS_STATE\nbuffer_size=3\nautostart=false\n',
                             ['web'], 'listener'),
    # the program 'web' as a member of another group: no group named 'web' any more
    'group-member': ('[program:web]\ncommand=/bin/cat\nautostart=false\n\n[group:grp]\nprograms=web\n', ['grp'], None),
    # a heterogeneous group NAMED 'web'
    'group-named': ('[program:inner]\ncommand=/bin/cat\nautostart=false\n\n[fcgi-program:inner2]\ncommand=/bin/cat\n'
                    'socket=unix://%(dir)s/i.sock\nautostart=false\n\n[group:web]\nprograms=inner,inner2\npriority=5\n',
                    ['web'], 'group'),
}

UNPARSABLE = {
    'no-command': '[program:web]\nautostart=false\n',
    'bad-boolean': '[program:web]\ncommand=/bin/cat\nautostart=maybe\n',
    'garbage': '\x00\x01 not an ini file at all \xff\n=[[[\n',
    'fcgi-without-socket': '[fcgi-program:web]\ncommand=/bin/cat\n',
    'fcgi-bad-socket': '[fcgi-program:web]\ncommand=/bin/cat\nsocket=gopher://x\n',
    'listener-without-events': '[eventlistener:web]\ncommand=/bin/cat\n',
    'listener-bad-event': '[eventlistener:web]\ncommand=/bin/cat\nevents=NO_SUCH_EVENT\n',
    'group-of-nothing': '[group:web]\nprograms=nosuch\n',
    'bad-numprocs': '[program:web]\ncommand=/bin/cat\nnumprocs=2\n',
    'bad-expansion': '[program:web]\ncommand=/bin/cat %(nosuch)s\n',
    'bad-signal': '[program:web]\ncommand=/bin/cat\nstopsignal=NOPE\n',
    'colon-in-name': '[program:we:b]\ncommand=/bin/cat\n',
}


def render(kind, d):
    return (HEAD + KINDS[kind][0]) % {'dir': d}


class Daemon(object):
    """A supervisord that has read `text` and activated its groups."""

    def __init__(self, workdir, text):
        Daemon._n = getattr(Daemon, '_n', 0) + 1
        self.dir = os.path.join(workdir, 'rl%d' % Daemon._n)
        os.makedirs(self.dir)
        self.conf = os.path.join(self.dir, 'supervisord.conf')
        self.write(text)
        events.clear()
        options = ServerOptions()
        options.stderr = StringIO()
        options.stdout = StringIO()
        options.realize(args=['-c', self.conf])
        options.logger = DummyLogger()
        self.options = options
        self.supervisord = Supervisor(options)
        for config in options.process_group_configs:
            self.supervisord.add_process_group(config)
        subinterfaces = [('supervisor', make_main_rpcinterface(self.supervisord))]
        subinterfaces.append(('system', SystemNamespaceRPCInterface(subinterfaces)))
        self.stack = RpcStack(self.supervisord, subinterfaces)

    def write(self, text, raw=False):
        data = text if raw else text
        with open(self.conf, 'wb') as f:
            f.write(data.encode('latin-1') if isinstance(data, str) else data)

    def remove_file(self):
        os.unlink(self.conf)

    def call(self, method, params=()):
        return self.stack.call(method, tuple(params))

    def active(self):
        return dict((n, type(g).__name__) for n, g in self.supervisord.process_groups.items())

    def close(self):
        events.clear()
