"""C18 seam: run the REAL Subprocess._spawn_as_child / FastCGISubprocess (and the
real ServerOptions wrappers and drop_privileges underneath) against a recording
kernel.  Nothing in /repo is modified: the modules `os`, `pwd`, `grp` seen by
supervisor.options and the `os` seen by supervisor.process are replaced, for the
duration of one run, by small proxy objects.

Every system call the child makes is appended to `Kernel.log` as
(call tuple, outcome) where outcome is None (succeeded) or the injected failure
('os', errno) / ('other', tag); the oracle decides per call *site*.  A site is
identified by the call and its distinguishing argument:
  setpgrp | dup2:<to> | close:<fd> | setgroups | setgid | setuid | chdir |
  umask | execve | write_msg | write_final
`_exit` and a successful `execve` end the process: from then on every call
raises Gone (a BaseException, so no handler in the code under test can swallow
it for good: every later call raises it again).  With exit_returns=True `_exit`
is recorded and returns, to observe whether control would come back.
"""
import errno
import os as real_os
import re


class Gone(BaseException):
    """The process image was replaced (exec) or the process exited."""


class InjectedOther(Exception):
    """A non-OSError failure injected at a call site."""


class InjectedBase(BaseException):
    """A failure that is not even an Exception (like KeyboardInterrupt)."""


NOT_SPAWNED = b"supervisor: child process was not spawned\n"

SITES = ['setpgrp', 'dup2:0', 'dup2:1', 'dup2:2', 'setgroups', 'setgid', 'setuid',
         'chdir', 'umask', 'execve', 'write_msg', 'write_final']


class Kernel(object):
    def __init__(self, oracle, world, exit_returns=False):
        self.oracle = oracle            # callable site -> None | ('os', errno) | ('other', tag)
        self.world = world              # dict: environ, curuid, pw (name, uid, gid)|None, groups, has_setgroups
        self.exit_returns = exit_returns
        self.log = []
        self.dead = None                # 'exec' | 'exit'
        self.unexpected = []
        self.consulted = []

    def call(self, site, entry):
        if self.dead:
            raise Gone()
        r = self.oracle(site)
        self.consulted.append(site)
        self.log.append((entry, r))
        if r is not None:
            if r[0] == 'os':
                raise OSError(r[1], 'injected at %s' % site)
            if r[1] == 'base':
                raise InjectedBase('injected at %s' % site)
            raise InjectedOther('injected at %s' % site)


class OsProxy(object):
    """Stands for the module `os` inside supervisor.options."""
    path = real_os.path
    pathsep = real_os.pathsep
    sep = real_os.sep
    error = real_os.error

    def __init__(self, k):
        self._k = k
        self.environ = _Environ(k)
        if k.world.get('has_setgroups', True):
            self.setgroups = self._setgroups

    def __getattr__(self, name):
        # anything the child path touches that is not modelled is a finding
        if name.startswith('__'):
            raise AttributeError(name)
        if name == 'setgroups':
            raise AttributeError(name)
        self._k.unexpected.append('os.' + name)
        raise AssertionError('unmodelled os.%s used in the child path' % name)

    def setpgrp(self):
        self._k.call('setpgrp', ('setpgrp',))

    def dup2(self, frm, to):
        self._k.call('dup2:%d' % to, ('dup2', frm, to))

    def close(self, fd):
        self._k.call('close:%d' % fd, ('close', fd))

    def getuid(self):
        if self._k.dead:
            raise Gone()
        return self._k.world['curuid']

    def _setgroups(self, groups):
        self._k.call('setgroups', ('setgroups', tuple(groups)))

    def setgid(self, gid):
        self._k.call('setgid', ('setgid', gid))

    def setuid(self, uid):
        self._k.call('setuid', ('setuid', uid))

    def chdir(self, d):
        self._k.call('chdir', ('chdir', d))

    def umask(self, m):
        self._k.call('umask', ('umask', m))
        return 0o022

    def execve(self, filename, argv, env):
        self._k.call('execve', ('execve', filename, tuple(argv), tuple(sorted(dict(env).items()))))
        self._k.dead = 'exec'
        raise Gone()

    def write(self, fd, data):
        site = 'write_final' if data == NOT_SPAWNED else 'write_msg'
        self._k.call(site, ('write', fd, data))
        return len(data)

    def _exit(self, code):
        if self._k.dead:
            raise Gone()
        self._k.log.append((('exit', code), None))
        if self._k.exit_returns:
            return None
        self._k.dead = 'exit'
        raise Gone()


class _Environ(object):
    """os.environ as seen by supervisor.process (only .copy() is used there)."""

    def __init__(self, k):
        self._k = k

    def copy(self):
        return dict(self._k.world['environ'])

    def __contains__(self, key):
        return key in self._k.world['environ']

    def __getitem__(self, key):
        return self._k.world['environ'][key]


class PwdProxy(object):
    def __init__(self, k):
        self._k = k

    def getpwuid(self, uid):
        pw = self._k.world.get('pw')
        if pw is None or pw[1] != uid:
            raise KeyError('getpwuid(): uid not found: %r' % uid)
        return (pw[0], 'x', pw[1], pw[2], '', '/', '/bin/sh')

    def getpwnam(self, name):
        pw = self._k.world.get('pw')
        if pw is None or pw[0] != name:
            raise KeyError('getpwnam(): name not found: %r' % name)
        return (pw[0], 'x', pw[1], pw[2], '', '/', '/bin/sh')


class GrpProxy(object):
    def __init__(self, k):
        self._k = k

    def getgrall(self):
        pw = self._k.world.get('pw')
        out = [('nobodyelse', 'x', 4242, ['someoneelse'])]
        for g in self._k.world.get('groups', ()):
            out.append(('g%d' % g, 'x', g, ['other', pw[0] if pw else 'nobody']))
        return out


class Patched(object):
    """Context manager installing the proxies into the two modules."""

    def __init__(self, kernel):
        self.k = kernel

    def __enter__(self):
        import supervisor.options as so
        import supervisor.process as sp
        self.saved = (so.os, so.pwd, so.grp, sp.os)
        osp = OsProxy(self.k)
        so.os = osp
        so.pwd = PwdProxy(self.k)
        so.grp = GrpProxy(self.k)
        sp.os = osp
        return self.k

    def __exit__(self, *a):
        import supervisor.options as so
        import supervisor.process as sp
        so.os, so.pwd, so.grp, sp.os = self.saved


class FakeSock(object):
    def __init__(self, fd):
        self.fd = fd

    def fileno(self):
        return self.fd


class _GConf(object):
    def __init__(self, name):
        self.name = name


class _Group(object):
    def __init__(self, name):
        self.config = _GConf(name)


PIPES = {'child_stdin': 40, 'stdin': 41, 'stdout': 42, 'child_stdout': 43, 'stderr': 44, 'child_stderr': 45}
FCGI_FD = 47
FDNAME = {40: 'ChildStdin', 43: 'ChildStdout', 45: 'ChildStderr', 47: 'FcgiSock'}


def alloc_pipes(closed):
    """The descriptor numbers ServerOptions.make_pipes() obtains when supervisord has exactly the
    descriptors in `closed` (a subset of {0, 1, 2}) closed: os.pipe() hands out the lowest free
    numbers, in the order child_stdin, stdin, stdout, child_stdout, stderr, child_stderr."""
    free = sorted(closed) + list(range(50, 60))
    names = ['child_stdin', 'stdin', 'stdout', 'child_stdout', 'stderr', 'child_stderr']
    return dict(zip(names, free[:6]))


def fdname_of(pipes):
    return {pipes['child_stdin']: 'ChildStdin', pipes['child_stdout']: 'ChildStdout',
            pipes['child_stderr']: 'ChildStderr', FCGI_FD: 'FcgiSock'}


def make_process(cfg):
    """A real Subprocess/FastCGISubprocess on a real ProcessConfig and a real
    ServerOptions instance, configured from the plain dict `cfg`."""
    from supervisor.options import ServerOptions, ProcessConfig, FastCGIProcessConfig
    from supervisor.process import Subprocess, FastCGISubprocess
    options = ServerOptions()
    options.minfds = cfg['minfds']
    options.serverurl = cfg['options_serverurl']
    # [supervisord] directory configured like the program's: the child must chdir all the same (the
    # daemon need not be there: foreground mode, failed chdir while daemonizing)
    options.directory = cfg['directory']
    params = dict(
        name=cfg['name'], uid=cfg['uid'], command=cfg['file'], directory=cfg['directory'], umask=cfg['umask'],
        priority=999, autostart=True, autorestart=True, startsecs=1, startretries=3,
        stdout_logfile=None, stdout_capture_maxbytes=0, stdout_events_enabled=False, stdout_syslog=False,
        stdout_logfile_backups=0, stdout_logfile_maxbytes=0,
        stderr_logfile=None, stderr_capture_maxbytes=0, stderr_logfile_backups=0, stderr_logfile_maxbytes=0,
        stderr_events_enabled=False, stderr_syslog=False,
        stopsignal=15, stopwaitsecs=10, stopasgroup=False, killasgroup=False, exitcodes=(0,),
        redirect_stderr=cfg['redirect_stderr'], environment=cfg['environment'], serverurl=cfg['serverurl'])
    if cfg['fcgi']:
        pconfig = FastCGIProcessConfig(options, **params)
        proc = FastCGISubprocess(pconfig)
        proc.fcgi_sock = FakeSock(FCGI_FD)
    else:
        pconfig = ProcessConfig(options, **params)
        proc = Subprocess(pconfig)
    proc.group = _Group(cfg['group']) if cfg['group'] is not None else None
    proc.pipes = dict(cfg.get('pipes') or PIPES)
    return proc


def run_child(cfg, world, oracle, exit_returns=False):
    """Run the real _spawn_as_child once.  Returns (log, ending, kernel) with
    ending in 'exec' | 'exit' | 'returned' | ('raised', kind)."""
    proc = make_process(cfg)
    k = Kernel(oracle, world, exit_returns)
    with Patched(k):
        try:
            rv = proc._spawn_as_child(cfg['file'], list(cfg['argv']))
            ending = 'returned' if rv is None else ('returned_value', repr(rv))
        except Gone:
            ending = k.dead or 'gone-without-death'
        except OSError as e:
            ending = ('raised', ('os', e.args[0]))
        except InjectedOther:
            ending = ('raised', ('other', 'exc'))
        except InjectedBase:
            ending = ('raised', ('other', 'base'))
        except BaseException as e:  # an exception the harness did not inject
            ending = ('raised_unexpected', repr(e))
    return k.log, ending, k


def run_child_parsed(pconfig, group_name, world, oracle):
    """The same for a ProcessConfig produced by the real config parser: the real
    make_process / get_execv_args (real file system) and then the child side under
    the recording kernel.  Returns (log, ending, kernel, filename, argv)."""
    proc = pconfig.make_process(_Group(group_name))
    proc.pipes = dict(PIPES)
    filename, argv = proc.get_execv_args()
    k = Kernel(oracle, world, False)
    with Patched(k):
        try:
            rv = proc._spawn_as_child(filename, argv)
            ending = 'returned' if rv is None else ('returned_value', repr(rv))
        except Gone:
            ending = k.dead or 'gone-without-death'
        except BaseException as e:
            ending = ('raised_unexpected', repr(e))
    return k.log, ending, k, filename, list(argv)


def run_drop(world, user, oracle):
    """Run the real ServerOptions.drop_privileges(user) once."""
    from supervisor.options import ServerOptions
    options = ServerOptions()
    k = Kernel(oracle, world, False)
    with Patched(k):
        try:
            rv = options.drop_privileges(user)
            ending = ('value', rv)
        except OSError as e:
            ending = ('raised', ('os', e.args[0]))
        except InjectedOther:
            ending = ('raised', ('other', 'exc'))
        except InjectedBase:
            ending = ('raised', ('other', 'base'))
    return k.log, ending, k


# ---- enumeration of every oracle by the decisions it induces ----------------

class PathOracle(object):
    """Oracle given by a list of decisions consumed in order of consultation;
    records the sites consulted.  Used for the depth-first enumeration of all
    decision paths: exhausted list = succeed."""

    def __init__(self, decisions):
        self.decisions = list(decisions)
        self.trail = []     # (site, decision)

    def __call__(self, site):
        i = len(self.trail)
        d = self.decisions[i] if i < len(self.decisions) else None
        self.trail.append((site, d))
        return d


def all_paths(run, kinds):
    """Enumerate every decision path of `run(oracle)`: at every consulted site
    every element of [None]+kinds is tried.  Yields (trail, result)."""
    stack = [[]]
    while stack:
        prefix = stack.pop()
        o = PathOracle(prefix)
        res = run(o)
        trail = o.trail
        yield trail, res
        # extend: for each position beyond the prefix where the default (None)
        # was taken, branch to every failing kind
        for i in range(len(prefix), len(trail)):
            for kd in kinds:
                stack.append([d for (_, d) in trail[:i]] + [kd])


MSG_RE = [
    ('setuid', re.compile(br"^supervisor: couldn't setuid to (.*?): (.*)\n$", re.S)),
    ('chdir', re.compile(br"^supervisor: couldn't chdir to (.*?): (.*)\n$", re.S)),
    ('exec', re.compile(br"^supervisor: couldn't exec (.*?): (.*)\n$", re.S)),
]

SETUID_REASONS = {
    b"Can't drop privilege as nonroot user": 'RNonRoot',
    b'Could not set groups of effective user': 'RSetgroups',
    b'Could not set group id of effective user': 'RSetgid',
    b'Could not set user id of effective user': 'RSetuid',
}


def errno_of(code):
    """Inverse of errno.errorcode.get(n, n) as rendered by %s."""
    code = code.decode()
    if code in errno.__dict__ and isinstance(getattr(errno, code), int):
        return getattr(errno, code)
    try:
        return int(code)
    except ValueError:
        return None


def classify_msg(data, cfg):
    """(coq term of type msg, problem or None)"""
    if data == NOT_SPAWNED:
        return 'MNotSpawned', None
    for kind, rx in MSG_RE:
        m = rx.match(data)
        if not m:
            continue
        subj, why = m.group(1), m.group(2)
        if kind == 'setuid':
            if subj != str(cfg['uid']).encode():
                return None, 'setuid message names %r, configured uid %r' % (subj, cfg['uid'])
            if why in SETUID_REASONS:
                return '(MSetuid %s)' % SETUID_REASONS[why], None
            m2 = re.match(br"^Can't find uid (-?\d+)$", why)
            if m2 and int(m2.group(1)) == cfg['uid']:
                return '(MSetuid RNoUid)', None
            return None, 'unknown setuid reason %r' % why
        if kind == 'chdir':
            if subj != str(cfg['directory']).encode():
                return None, 'chdir message names %r' % subj
            n = errno_of(why)
            if n is None:
                return None, 'chdir message without errno: %r' % why
            return '(MChdir %d)' % n, None
        if kind == 'exec':
            n = errno_of(why)
            if n is not None:
                if subj != cfg['argv'][0].encode():
                    return None, 'exec message names %r' % subj
                return '(MExecOS %d)' % n, None
            if subj != cfg['file'].encode():
                return None, 'exec message names %r' % subj
            if b'Injected' not in why:
                return None, 'exec message without the exception: %r' % why
            return 'MExecOther', None
    return None, 'unclassifiable message %r' % data
