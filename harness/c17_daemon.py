"""A REAL supervisord process (from vlib.REPO's working tree) on a unix socket
under the work directory, for the `real daemon` observation points of C17
(queried with and without credentials) and C16 (`supervisorctl tail` output).

Best effort: if the daemon cannot be started in this environment the caller
records a note instead of a verdict."""
import os
import signal
import socket
import subprocess
import time

import vlib

LOG_LINES = b'line-one\nline-two \xc3\xa9\nline-three\n'


class Daemon(object):
    def __init__(self, workdir, username=None, password=None):
        self.wd = workdir
        os.makedirs(workdir, exist_ok=True)
        self.sock = os.path.join(workdir, 'd.sock')
        self.conf = os.path.join(workdir, 'supervisord.conf')
        self.outlog = os.path.join(workdir, 'echo.out.log')
        self.username, self.password = username, password
        cred = ''
        if username is not None:
            cred = 'username=%s\npassword=%s\n' % (username, password)
        with open(self.conf, 'w') as f:
            f.write('[supervisord]\nlogfile=%s/supervisord.log\npidfile=%s/supervisord.pid\nnodaemon=true\n'
                    'childlogdir=%s\nidentifier=verif\n\n' % (workdir, workdir, workdir))
            f.write('[unix_http_server]\nfile=%s\n%s\n' % (self.sock, cred))
            f.write('[rpcinterface:supervisor]\nsupervisor.rpcinterface_factory = '
                    'supervisor.rpcinterface:make_main_rpcinterface\n\n')
            f.write('[supervisorctl]\nserverurl=unix://%s\n%s\n' % (self.sock, cred))
            f.write('[program:echo]\ncommand=/bin/sh -c "printf \'line-one\\nline-two \\303\\251\\nline-three\\n\'; exec sleep 300"\n'
                    'stdout_logfile=%s\nstartsecs=0\nautorestart=false\n' % self.outlog)
        self.proc = None

    def start(self, timeout=15.0):
        env = vlib.impl_env()
        self.proc = subprocess.Popen(
            [vlib.PY, '-c', 'from supervisor.supervisord import main; main()', '-n', '-c', self.conf],
            env=env, cwd=self.wd, stdout=subprocess.DEVNULL, stderr=subprocess.DEVNULL)
        t0 = time.time()
        while time.time() - t0 < timeout:
            if self.proc.poll() is not None:
                return False
            if os.path.exists(self.sock):
                try:
                    s = socket.socket(socket.AF_UNIX, socket.SOCK_STREAM)
                    s.settimeout(1.0)
                    s.connect(self.sock)
                    s.close()
                    return True
                except socket.error:
                    pass
            time.sleep(0.05)
        return False

    def wait_log(self, timeout=8.0):
        t0 = time.time()
        while time.time() - t0 < timeout:
            try:
                with open(self.outlog, 'rb') as f:
                    if f.read() == LOG_LINES:
                        return True
            except IOError:
                pass
            time.sleep(0.05)
        return False

    def request(self, raw, timeout=5.0, want=1):
        s = socket.socket(socket.AF_UNIX, socket.SOCK_STREAM)
        s.settimeout(timeout)
        s.connect(self.sock)
        s.sendall(raw)
        buf = b''
        try:
            while True:
                d = s.recv(65536)
                if not d:
                    break
                buf += d
                i = buf.find(b'\r\n\r\n')
                if i >= 0:
                    head = buf[:i].lower()
                    j = head.find(b'content-length:')
                    if j >= 0:
                        n = int(head[j + 15:].split(b'\r\n')[0])
                        if len(buf) >= i + 4 + n:
                            break
                    elif b'transfer-encoding: chunked' in head and len(buf) > i + 4:
                        break
        except socket.timeout:
            pass
        s.close()
        return buf

    def ctl(self, args, timeout=20.0, kill_after=None):
        env = vlib.impl_env()
        p = subprocess.Popen([vlib.PY, '-c', 'from supervisor.supervisorctl import main; main()', '-c', self.conf] + list(args),
                             env=env, cwd=self.wd, stdout=subprocess.PIPE, stderr=subprocess.STDOUT)
        if kill_after is not None:
            time.sleep(kill_after)
            p.send_signal(signal.SIGTERM)
        try:
            out, _ = p.communicate(timeout=timeout)
        except subprocess.TimeoutExpired:
            p.kill()
            out, _ = p.communicate()
        return p.returncode, out

    def stop(self):
        if self.proc is None:
            return
        try:
            self.proc.send_signal(signal.SIGTERM)
            self.proc.wait(timeout=10)
        except Exception:
            try:
                self.proc.kill()
                self.proc.wait(timeout=5)
            except Exception:
                pass
        self.proc = None
