"""C12 harness: a deterministic stub daemon behind the REAL RPC stack.

Real (from the working tree): SupervisorNamespaceRPCInterface (built by
make_main_rpcinterface), SystemNamespaceRPCInterface, RootRPCInterface,
supervisor_xmlrpc_handler (continue_request / loads / call / traverse),
DeferredXMLRPCResponse, xmlrpc marshalling, readFile/tailFile, events.notify.
Stub: supervisord, options, process groups and processes (subclasses of the
supervisor.tests.base Dummy* objects) with scripted start/stop delays advanced
by tick(), the stand-in for one pass of the daemon's main loop.
"""
import errno
import os

from supervisor import events, rpcinterface, xmlrpc
from supervisor.states import ProcessStates, SupervisorStates
from supervisor.tests.base import (DummyOptions, DummyPConfig, DummyPGroupConfig, DummyProcess,
                                   DummyProcessGroup, DummySupervisor)
from supervisor.options import NotFound, NotExecutable, BadCommand, NoPermission
from rpcstack import RpcStack

FIXED_NOW = 1700000000

MOODS = [('RUNNING', SupervisorStates.RUNNING), ('RESTARTING', SupervisorStates.RESTARTING),
         ('SHUTDOWN', SupervisorStates.SHUTDOWN), ('FATAL', SupervisorStates.FATAL)]


class StubProcess(DummyProcess):
    def __init__(self, config, state, world, start_delay=2, stop_delay=1, quirk=None):
        DummyProcess.__init__(self, config, state)
        self.world = world
        self.start_delay = start_delay
        self.stop_delay = stop_delay
        self.quirk = quirk
        self._left = 0
        if state in (ProcessStates.RUNNING, ProcessStates.STARTING, ProcessStates.STOPPING):
            self.pid = 1000 + len(world.effects) + world.npids
            world.npids += 1
            self.laststart = FIXED_NOW - 100
        if state in (ProcessStates.EXITED, ProcessStates.FATAL, ProcessStates.BACKOFF):
            self.laststart = FIXED_NOW - 200
            self.laststop = FIXED_NOW - 150
            if state != ProcessStates.EXITED:
                self.spawnerr = 'Exited too quickly (process log may have details)'
        if state == ProcessStates.STARTING:
            self._left = start_delay
        if state == ProcessStates.STOPPING:
            self._left = stop_delay
            self.killing = True

    def _fx(self, *what):
        self.world.effects.append((self.config.name,) + what)

    def get_execv_args(self):
        if self.quirk == 'notfound':
            raise NotFound('no such file')
        if self.quirk == 'notexec':
            raise NotExecutable('not executable')
        if self.quirk == 'badcommand':
            raise BadCommand('command is empty')
        if self.quirk == 'noperm':
            raise NoPermission('no permission to run command')
        return DummyProcess.get_execv_args(self)

    def spawn(self):
        self._fx('spawn')
        self.spawned = True
        if self.quirk == 'spawnerr':
            self.spawnerr = 'cannot fork'
            self.state = ProcessStates.BACKOFF
            return
        self.spawnerr = None
        self.pid = 2000 + len(self.world.effects)
        self.laststart = FIXED_NOW
        if self.start_delay == 0:
            self.state = ProcessStates.RUNNING
        else:
            self.state = ProcessStates.STARTING
            self._left = self.start_delay

    def stop(self):
        self._fx('stop')
        self.stop_called = True
        if self.quirk == 'stopfails':
            return 'could not kill'
        if self.stop_delay == 0:
            self.killing = False
            self.pid = 0
            self.laststop = FIXED_NOW
            self.state = ProcessStates.STOPPED
        else:
            self.killing = True
            self.state = ProcessStates.STOPPING
            self._left = self.stop_delay
        return None

    def stop_report(self):
        pass

    def transition(self):
        pass

    def signal(self, sig):
        self._fx('signal', int(sig))
        if self.quirk == 'signalfails':
            return 'no such process'
        return None

    def write(self, chars):
        if self.quirk == 'epipe':
            raise OSError(errno.EPIPE, 'broken pipe')
        self._fx('write', bytes(chars))

    def removelogs(self):
        if self.quirk == 'clearfails':
            raise IOError('cannot remove')
        self._fx('removelogs')

    def tick(self):
        if self.state == ProcessStates.STARTING:
            self._left -= 1
            if self._left <= 0:
                if self.quirk == 'diesstarting':
                    self.state = ProcessStates.BACKOFF
                    self.pid = 0
                    self.laststop = FIXED_NOW
                else:
                    self.state = ProcessStates.RUNNING
        elif self.state == ProcessStates.STOPPING:
            self._left -= 1
            if self._left <= 0:
                self.state = ProcessStates.STOPPED
                self.killing = False
                self.pid = 0
                self.laststop = FIXED_NOW

    def snap(self):
        return (self.config.name, self.state, self.pid, self.killing, self.spawnerr, self.laststart,
                self.laststop, self._left)


class StubOptions(DummyOptions):
    def __init__(self, world):
        DummyOptions.__init__(self)
        self.world = world
        self.reread_error = None

    def process_config(self, do_usage=True):
        self.world.effects.append(('options', 'process_config'))
        if self.reread_error:
            raise ValueError(self.reread_error)

    def exists(self, path):
        return os.path.exists(path)

    def remove(self, path):
        self.world.effects.append(('options', 'remove', path))

    def get_pid(self):
        return 4242


class StubSupervisor(DummySupervisor):
    def __init__(self, options, world):
        DummySupervisor.__init__(self, options)
        self.world = world

    def reap(self, once=False, recursionguard=0):
        pass

    def add_process_group(self, config):
        if config.name in self.process_groups:
            return False
        self.world.effects.append(('supervisord', 'add_group', config.name))
        group = DummyProcessGroup(config)
        group.processes = {}
        for pc in config.process_configs:
            group.processes[pc.name] = self.world.new_process(pc)
        self.process_groups[config.name] = group
        return True

    def remove_process_group(self, name):
        group = self.process_groups[name]
        if any(p.get_state() not in (ProcessStates.STOPPED, ProcessStates.EXITED, ProcessStates.FATAL,
                                     ProcessStates.UNKNOWN) for p in group.processes.values()):
            return False
        self.world.effects.append(('supervisord', 'remove_group', name))
        del self.process_groups[name]
        return True

    def diff_to_active(self):
        cur = set(self.process_groups)
        new = dict((c.name, c) for c in self.options.process_group_configs)
        added = [new[n] for n in sorted(new) if n not in cur]
        removed = [self.process_groups[n].config for n in sorted(cur) if n not in new]
        return added, [], removed


# process-state layouts: (group, process, state, quirk, start_delay, stop_delay)
S = ProcessStates
VARIANTS = [
    [('g1', 'p1', S.RUNNING, None, 2, 1), ('g1', 'p2', S.STOPPED, None, 2, 1), ('g2', 'q1', S.FATAL, None, 1, 1),
     ('solo', 'solo', S.EXITED, None, 0, 0)],
    [('g1', 'p1', S.STOPPED, None, 0, 0), ('g1', 'p2', S.STARTING, None, 3, 2), ('g2', 'q1', S.BACKOFF, None, 1, 1),
     ('solo', 'solo', S.RUNNING, None, 1, 2)],
    [('g1', 'p1', S.STOPPING, None, 2, 2), ('g1', 'p2', S.UNKNOWN, None, 2, 1), ('g2', 'q1', S.RUNNING, 'signalfails', 1, 1),
     ('solo', 'solo', S.STOPPED, 'spawnerr', 1, 1)],
    [('g1', 'p1', S.STOPPED, 'notfound', 2, 1), ('g1', 'p2', S.EXITED, 'diesstarting', 2, 1),
     ('g2', 'q1', S.RUNNING, 'epipe', 1, 1), ('solo', 'solo', S.RUNNING, 'stopfails', 1, 1)],
    [('g1', 'p1', S.STOPPED, 'notexec', 2, 1), ('g1', 'p2', S.FATAL, 'badcommand', 2, 1),
     ('g2', 'q1', S.STOPPED, 'clearfails', 1, 1), ('solo', 'solo', S.STOPPED, 'noperm', 3, 1)],
    # non-ASCII group/process names: they travel in result structs and fault
    # strings, on the immediate and on the deferred path
    [(u'gr\u00fc', u'pr\u00f6', S.STOPPED, None, 2, 1), (u'gr\u00fc', u'di\u00e9', S.STOPPED, 'diesstarting', 1, 1),
     ('g2', 'q1', S.FATAL, None, 1, 1), ('solo', 'solo', S.EXITED, None, 0, 0)],
    [(u'gr\u00fc', u'pr\u00f6', S.RUNNING, None, 2, 2), (u'gr\u00fc', u'di\u00e9', S.RUNNING, None, 1, 1),
     ('g2', 'q1', S.STOPPED, 'spawnerr', 1, 1), ('solo', 'solo', S.RUNNING, None, 1, 2)],
]


class World(object):
    """One stub daemon + the real RPC stack on top of it."""

    def __init__(self, logdir, variant=0, mood=SupervisorStates.RUNNING, fixed_now=True):
        self.effects = []
        self.events = []
        self.npids = 0
        self.logdir = logdir
        opts = self.options = StubOptions(self)
        opts.logfile = os.path.join(logdir, 'main.log')
        sup = self.supervisord = StubSupervisor(opts, self)
        opts.mood = mood
        groups = {}
        gconfigs = {}
        prio = {'g1': 1, 'g2': 2, 'solo': 3}
        for k, (g, p, state, quirk, sd, kd) in enumerate(VARIANTS[variant % len(VARIANTS)]):
            logs = {'p1': ('p1.out', 'p1.err'), 'p2': ('bad.out', 'isdir.err'), 'q1': ('eacces.out', 'absent.err'),
                    'solo': ('solo.out', 'p1.err'), u'pr\u00f6': ('p1.out', 'isdir.err'),
                    u'di\u00e9': ('eacces.out', None)}[p]
            pc = DummyPConfig(opts, p, '/bin/%s -x' % p, priority=10 + k,
                              stdout_logfile=logs[0] and os.path.join(logdir, logs[0]),
                              stderr_logfile=logs[1] and os.path.join(logdir, logs[1]))
            if g not in gconfigs:
                gconfigs[g] = DummyPGroupConfig(opts, g, priority=prio.get(g, 1), pconfigs=[])
                groups[g] = DummyProcessGroup(gconfigs[g])
                groups[g].processes = {}
            gconfigs[g].process_configs.append(pc)
            groups[g].processes[p] = StubProcess(pc, state, self, sd, kd, quirk)
        sup.process_groups = groups
        # the config file also lists a group that is not active, and lacks 'solo'
        extra = DummyPGroupConfig(opts, 'newgrp', priority=5,
                                  pconfigs=[DummyPConfig(opts, 'n1', '/bin/n1', priority=1)])
        opts.process_group_configs = [gconfigs[g] for g in gconfigs if g != 'solo'] + [extra]
        if variant % 2 == 1:
            opts.reread_error = 'bad config'
        if variant == 2:
            opts.logfile = os.path.join(logdir, 'isdir.err')       # exists, but open() fails: a directory
        if variant == 4:
            opts.logfile = os.path.join(logdir, 'eacces.out')      # exists, but open() fails: EACCES
        install_open_proxy()
        # the real interface objects, built as supervisor.http.make_http_servers does
        self.iface = rpcinterface.make_main_rpcinterface(sup)
        if fixed_now:
            self.iface._now = lambda: FIXED_NOW
        subinterfaces = [('supervisor', self.iface)]
        self.system = xmlrpc.SystemNamespaceRPCInterface(subinterfaces)
        subinterfaces.append(('system', self.system))
        self.stack = RpcStack(sup, subinterfaces)
        self.mroot = xmlrpc.AttrDict(self.system.namespaces)

    def new_process(self, pconfig):
        return StubProcess(pconfig, ProcessStates.STOPPED, self)

    def add_processes(self, n, group=None):
        """n more stopped processes in `group` (large getAllProcessInfo / start-all answers)."""
        if group is None:
            group = sorted(self.supervisord.process_groups)[0]
        g = self.supervisord.process_groups[group]
        cls = type(g.config.process_configs[0])
        for i in range(n):
            pc = cls(self.options, 'w%03d' % i, '/bin/cat', priority=100 + i, startsecs=2)
            g.config.process_configs.append(pc)
            g.processes[pc.name] = self.new_process(pc)

    def use_big_log(self, name='big.log'):
        self.options.logfile = os.path.join(self.logdir, name)

    # -- the daemon's main loop, one pass
    def tick(self):
        for g in sorted(self.supervisord.process_groups):
            procs = self.supervisord.process_groups[g].processes
            for p in sorted(procs):
                procs[p].tick()

    def snapshot(self):
        sup = self.supervisord
        return (sup.options.mood,
                tuple((g, tuple(sup.process_groups[g].processes[p].snap()
                                for p in sorted(sup.process_groups[g].processes)))
                      for g in sorted(sup.process_groups)),
                tuple(self.effects), tuple(self.events))

    def reached(self):
        return getattr(self.iface, 'update_text', None)

    def reset_reached(self):
        if hasattr(self.iface, 'update_text'):
            del self.iface.update_text

    # -- calls
    def finish(self, res, max_polls=60):
        """Drive a ('deferred', d) answer to completion: main-loop pass, then
        the producer's more().  Returns (final answer, polls)."""
        if res[0] != 'deferred':
            return res, 0
        d = res[1]
        for k in range(1, max_polls + 1):
            self.tick()
            out = d.poll()
            if out is not None:
                return out, k
        return ('never-completes', max_polls), max_polls

    def call_xml(self, method, params, max_polls=60):
        return self.finish(self.stack.call(method, tuple(params)), max_polls)

    def call_direct(self, method, params, max_polls=60):
        """handler.call (traverse on the handler's root) without marshalling;
        deferred callbacks are polled like DeferredXMLRPCResponse.more() does."""
        import types
        from supervisor.http import NOT_DONE_YET
        from supervisor.xmlrpc import RPCError
        try:
            v = self.stack.handler.call(method, tuple(params))
        except RPCError as e:
            return ('fault', e.code), 0
        except Exception as e:
            return ('exception', type(e).__name__), 0
        if not isinstance(v, types.FunctionType):
            return ('value', v), 0
        for k in range(1, max_polls + 1):
            self.tick()
            try:
                out = v()
            except RPCError as e:
                return ('fault', e.code), k
            except Exception as e:
                return ('exception', type(e).__name__), k
            if out is not NOT_DONE_YET:
                return ('value', out), k
        return ('never-completes', max_polls), max_polls

    def traverse_mroot(self, method, params):
        """traverse() on the AttrDict root exactly as multi() builds it."""
        from supervisor.xmlrpc import RPCError, AttrDict, traverse
        try:
            return ('value', traverse(AttrDict(self.system.namespaces), method, tuple(params)))
        except RPCError as e:
            return ('fault', e.code)
        except Exception as e:
            return ('exception', type(e).__name__)


def install_open_proxy():
    """`open` as supervisor.options (readFile / tailFile) sees it: paths containing
    'eacces' exist but cannot be opened (the checks run as root, so a mode of 000
    would not do it)."""
    from supervisor import options as _sopt
    if getattr(_sopt.__dict__.get('open'), 'c12_proxy', False):
        return
    import builtins

    def _open(path, *a, **k):
        if 'eacces' in str(path):
            raise IOError(errno.EACCES, 'Permission denied', str(path))
        return builtins.open(path, *a, **k)
    _open.c12_proxy = True
    _sopt.open = _open


_subscribed = []


def subscribe_events(world_ref):
    """RemoteCommunicationEvents land in the current world's event list."""
    events.clear()

    def cb(ev):
        w = world_ref[0]
        if w is not None:
            w.events.append((ev.type, ev.data))
    events.subscribe(events.RemoteCommunicationEvent, cb)


def write_logs(logdir):
    files = {
        'main.log': u'2026-01-01 INFO supervisord started\nline two: caf\u00e9 \u20ac5 \u65e5\u672c\n'.encode('utf-8'),
        'p1.out': b'hello from p1\n\xc3\xa9\xe2\x82\xac end\n',      # multi-byte UTF-8: windows can cut a character
        'p1.err': b'err line\n',
        'bad.out': b'ok\xff\xfe binary \x80 tail',                   # never valid UTF-8 as a whole
        'solo.out': b'',
    }
    line = u'2026-01-01 12:00:00,000 INFO caf\u00e9 \u20ac %04d spawned: \'p\' with pid 1234\n'
    files['mid.log'] = u''.join(line % i for i in range(75)).encode('utf-8')[:5000].decode('utf-8', 'ignore').encode('utf-8')
    files['big.log'] = u''.join(line % i for i in range(900)).encode('utf-8')
    for n, b in files.items():
        with open(os.path.join(logdir, n), 'wb') as f:
            f.write(b)
    # commands for the real-process layouts (get_execv_args / check_execv_args are the real ones)
    for n, mode in (('cmd_ok', 0o755), ('cmd_notexec', 0o644), ('cmd_noperm', 0o755)):
        pth = os.path.join(logdir, n)
        with open(pth, 'wb') as f:
            f.write(b'#!/bin/sh\nexec cat\n')
        os.chmod(pth, mode)
    os.makedirs(os.path.join(logdir, 'isdir.err'), exist_ok=True)      # a log path that is a directory
    with open(os.path.join(logdir, 'eacces.out'), 'wb') as f:          # exists; open() is refused (see install_open_proxy)
        f.write(b'you cannot read this\n')
    os.makedirs(os.path.join(logdir, 'cmd_dir'), exist_ok=True)
    os.chmod(os.path.join(logdir, 'cmd_dir'), 0o755)
    return files


# ===================================================================== real
# The same world, but the processes are REAL supervisor.process.Subprocess
# objects (spawn / stop / kill / signal / write / finish / transition and their
# state assertions are the working tree's code).  Only the OS layer is a test
# double (DummyOptions: fork, kill, pipes) and the clock is virtual.

import signal as _signal
import time as _realtime
from supervisor import process as _sproc

_ACTIVE = [None]


class _Clock(object):
    """Stands in for the `time` module inside supervisor.process."""

    def time(self):
        w = _ACTIVE[0]
        return float(w.clock) if w is not None and hasattr(w, 'clock') else _realtime.time()

    def __getattr__(self, name):
        return getattr(_realtime, name)


def install_clock():
    if not isinstance(_sproc.time, _Clock):
        _sproc.time = _Clock()


class _OsProxy(object):
    """`os` as supervisor.options sees it: access() denies execution of any path
    containing 'noperm' (execute bits set, but not for the daemon's user)."""

    def access(self, path, mode):
        if 'noperm' in str(path) and (mode & os.X_OK):
            return False
        return os.access(path, mode)

    def __getattr__(self, name):
        return getattr(os, name)


def install_os_proxy():
    from supervisor import options as _sopt
    if not isinstance(_sopt.os, _OsProxy):
        _sopt.os = _OsProxy()


class RealOptions(StubOptions):
    def __init__(self, world):
        StubOptions.__init__(self, world)
        self.nextpid = 3000
        self.eperm = set()

    def check_execv_args(self, filename, argv, st):
        from supervisor.options import ServerOptions
        return ServerOptions.check_execv_args(self, filename, argv, st)       # the real one

    # -- pipes: distinct descriptor numbers per process; what a write() on a child's stdin does is scripted
    def make_pipes(self, stderr=True):
        base = getattr(self, '_nextfd', 100)
        self._nextfd = base + 10
        pipes = {'child_stdin': base, 'stdin': base + 1, 'stdout': base + 2, 'child_stdout': base + 3}
        if stderr:
            pipes['stderr'], pipes['child_stderr'] = base + 4, base + 5
        else:
            pipes['stderr'], pipes['child_stderr'] = None, None
        return pipes

    def write(self, fd, data):
        mode = getattr(self, 'stdin_mode', {}).get(fd, 'ok')
        if mode == 'full':                       # the non-blocking pipe is full
            raise OSError(errno.EAGAIN, 'Resource temporarily unavailable')
        if mode == 'wouldblock':
            raise OSError(errno.EWOULDBLOCK, 'Operation would block')
        if mode == 'closed':                     # the child closed its stdin
            raise OSError(errno.EPIPE, 'Broken pipe')
        n = min(len(data), 3) if mode == 'partial' else len(data)
        self.world.effects.append(('os', 'write', fd, bytes(data[:n])))
        return n

    def readfd(self, fd):
        return b''

    def getLogger(self, *args, **kw):
        if getattr(self, 'real_child_loggers', False):
            from supervisor import loggers
            return loggers.getLogger(*args, **kw)      # what ServerOptions.getLogger does
        return StubOptions.getLogger(self, *args, **kw)

    def fork(self):
        self.nextpid += 1
        self.world.effects.append(('os', 'fork', self.nextpid))
        return self.nextpid

    def kill(self, pid, sig):
        if abs(pid) in self.eperm:
            raise OSError(errno.EPERM, 'Operation not permitted')
        self.world.effects.append(('os', 'kill', pid, int(sig)))


class RealPConfig(DummyPConfig):
    def make_dispatchers(self, proc):
        dispatchers, pipes = DummyPConfig.make_dispatchers(self, proc)
        for d in dispatchers.values():
            d.input_buffer = b''           # what the real PInputDispatcher holds
        return dispatchers, pipes

    def make_process(self, group=None):
        p = _sproc.Subprocess(self)
        p.group = group
        return p


class RealDispPConfig(DummyPConfig):
    """Process config whose dispatchers are the REAL ones (POutputDispatcher with
    real loggers / handlers, PInputDispatcher), built by the real
    ProcessConfig.make_dispatchers."""

    def make_dispatchers(self, proc):
        from supervisor.options import ProcessConfig
        return ProcessConfig.make_dispatchers(self, proc)

    def make_process(self, group=None):
        p = _sproc.Subprocess(self)
        p.group = group
        return p


def install_syslog_stub():
    """syslog is never contacted: SyslogHandler._syslog exists for this purpose."""
    from supervisor import loggers
    if not getattr(loggers.SyslogHandler._syslog, 'c12_stub', False):
        def _syslog(self, msg):
            pass
        _syslog.c12_stub = True
        loggers.SyslogHandler._syslog = _syslog


# (group, process, state, quirk)
REAL_VARIANTS = [
    [('g1', 'p1', S.RUNNING, None), ('g1', 'p2', S.STOPPING, None), ('g2', 'q1', S.STARTING, None),
     ('solo', 'solo', S.STOPPED, None)],
    [('g1', 'p1', S.BACKOFF, None), ('g1', 'p2', S.FATAL, None), ('g2', 'q1', S.EXITED, None),
     ('solo', 'solo', S.UNKNOWN, None)],
    [('g1', 'p1', S.STOPPING, None), ('g1', 'p2', S.RUNNING, 'eperm'), ('g2', 'q1', S.STOPPING, None),
     ('solo', 'solo', S.STARTING, None)],
    # commands the daemon cannot run: missing, not executable, a directory, execute bit set but access denied
    [('g1', 'p1', S.STOPPED, 'cmd:cmd_missing'), ('g1', 'p2', S.STOPPED, 'cmd:cmd_notexec -v'),
     ('g2', 'q1', S.STOPPED, 'cmd:cmd_dir'), ('solo', 'solo', S.STOPPED, 'cmd:cmd_noperm --flag')],
    [('g1', 'p1', S.EXITED, 'cmd:cmd_noperm'), ('g1', 'p2', S.FATAL, 'cmd:cmd_missing'),
     ('g2', 'q1', S.BACKOFF, 'cmd:cmd_dir'), ('solo', 'solo', S.STOPPED, "rawcmd:cat 'unbalanced")],
    # real dispatchers and log handlers: rd:<what write() on the child's stdin does>:<syslog channels>[+file]
    [('g1', 'p1', S.RUNNING, 'rd:full:'), ('g1', 'p2', S.RUNNING, 'rd:closed:out+file'),
     ('g2', 'q1', S.RUNNING, 'rd:partial:out,err'), ('solo', 'solo', S.STARTING, 'rd:dispclosed:err+file')],
]


class RealWorld(World):
    """World whose processes are real Subprocess objects in every process state."""

    STOP_DELAY = 2          # main-loop passes until a child that was sent its stop signal is reaped

    def __init__(self, logdir, variant=0, mood=SupervisorStates.RUNNING):
        install_clock()
        install_os_proxy()
        install_open_proxy()
        self.clock = FIXED_NOW
        _ACTIVE[0] = self
        self.effects = []
        self.events = []
        self.npids = 0
        self.logdir = logdir
        self.dying = {}
        opts = self.options = RealOptions(self)
        opts.logfile = os.path.join(logdir, 'main.log')
        sup = self.supervisord = StubSupervisor(opts, self)
        opts.mood = mood
        groups, gconfigs = {}, {}
        prio = {'g1': 1, 'g2': 2, 'solo': 3}
        for k, (g, p, state, quirk) in enumerate(REAL_VARIANTS[variant % len(REAL_VARIANTS)]):
            logs = {'p1': ('p1.out', 'p1.err'), 'p2': ('bad.out', 'isdir.err'), 'q1': ('eacces.out', 'absent.err'),
                    'solo': ('solo.out', 'p1.err')}[p]
            command = '/bin/cat'
            if quirk and quirk.startswith('rd:'):
                _, mode, sysl = quirk.split(':')
                opts.real_child_loggers = True
                install_syslog_stub()
                RealWorld._n = getattr(RealWorld, '_n', 0) + 1
                priv = os.path.join(logdir, 'rd', '%d' % RealWorld._n)     # handlers append to / remove these files
                os.makedirs(priv)
                chans = sysl.replace('+file', '').split(',') if sysl else []
                wantfile = (not sysl) or sysl.endswith('+file')
                out = os.path.join(priv, p + '.out') if (wantfile or 'out' not in chans) else None
                err = os.path.join(priv, p + '.err') if (wantfile or 'err' not in chans) else None
                for f in (out, err):
                    if f:
                        with open(f, 'wb') as fh:
                            fh.write((u'line of %s caf\u00e9\n' % p).encode('utf-8'))
                pc = RealDispPConfig(opts, p, command, priority=10 + k, startsecs=2, stopwaitsecs=10,
                                     stdout_logfile=out, stderr_logfile=err,
                                     stdout_syslog='out' in chans, stderr_syslog='err' in chans)
                pc.stdin_mode = mode
                if g not in gconfigs:
                    gconfigs[g] = DummyPGroupConfig(opts, g, priority=prio[g], pconfigs=[])
                    groups[g] = DummyProcessGroup(gconfigs[g])
                    groups[g].processes = {}
                gconfigs[g].process_configs.append(pc)
                proc = pc.make_process(groups[g])
                self._put_in_state(proc, state, None, 1100 + k)
                if not hasattr(opts, 'stdin_mode'):
                    opts.stdin_mode = {}
                opts.stdin_mode[proc.pipes['stdin']] = mode
                if mode == 'dispclosed':
                    # the main loop got EPIPE on an earlier flush and closed the stdin dispatcher
                    # (real PInputDispatcher.close()); it stays registered until the child is reaped
                    proc.dispatchers[proc.pipes['stdin']].close()
                groups[g].processes[p] = proc
                continue
            if quirk and quirk.startswith('cmd:'):
                command = os.path.join(logdir, quirk[4:])
            elif quirk and quirk.startswith('rawcmd:'):
                command = quirk[7:]
            pc = RealPConfig(opts, p, command, priority=10 + k, startsecs=2, stopwaitsecs=10,
                             stdout_logfile=logs[0] and os.path.join(logdir, logs[0]),
                             stderr_logfile=logs[1] and os.path.join(logdir, logs[1]))
            if g not in gconfigs:
                gconfigs[g] = DummyPGroupConfig(opts, g, priority=prio[g], pconfigs=[])
                groups[g] = DummyProcessGroup(gconfigs[g])
                groups[g].processes = {}
            gconfigs[g].process_configs.append(pc)
            proc = pc.make_process(groups[g])
            self._put_in_state(proc, state, quirk, 1100 + k)
            groups[g].processes[p] = proc
        sup.process_groups = groups
        extra = DummyPGroupConfig(opts, 'newgrp', priority=5,
                                  pconfigs=[RealPConfig(opts, 'n1', '/bin/cat', priority=1, startsecs=2)])
        opts.process_group_configs = [gconfigs[g] for g in gconfigs if g != 'solo'] + [extra]
        self.iface = rpcinterface.make_main_rpcinterface(sup)
        self.iface._now = lambda: FIXED_NOW
        subinterfaces = [('supervisor', self.iface)]
        self.system = xmlrpc.SystemNamespaceRPCInterface(subinterfaces)
        subinterfaces.append(('system', self.system))
        self.stack = RpcStack(sup, subinterfaces)
        self.mroot = xmlrpc.AttrDict(self.system.namespaces)

    def _put_in_state(self, proc, state, quirk, pid):
        """The fields a process has after the history that leads to `state`."""
        now = self.clock
        proc.state = state
        if state in (S.RUNNING, S.STARTING, S.STOPPING, S.UNKNOWN):
            proc.pid = pid
            proc.dispatchers, proc.pipes = proc.config.make_dispatchers(proc)
            self.options.pidhistory[pid] = proc
        if state == S.RUNNING:
            proc.laststart = now - 100
        elif state == S.STARTING:
            proc.laststart = now
            proc.delay = now + proc.config.startsecs
        elif state == S.STOPPING:
            proc.laststart = now - 100
            proc.killing = True
            proc.administrative_stop = True
            proc.delay = now + proc.config.stopwaitsecs
            self.dying[proc.config.name] = self.STOP_DELAY
        elif state == S.UNKNOWN:
            proc.laststart = now - 100
            proc.killing = True
        elif state == S.STOPPED:
            proc.laststart = now - 300
            proc.laststop = now - 200
            proc.administrative_stop = True
        elif state == S.EXITED:
            proc.laststart = now - 300
            proc.laststop = now - 200
            proc.exitstatus = 0
        elif state in (S.BACKOFF, S.FATAL):
            proc.laststart = now - 30
            proc.laststop = now - 29
            proc.spawnerr = 'Exited too quickly (process log may have details)'
            proc.exitstatus = 1
            if state == S.BACKOFF:
                proc.backoff = 1
                proc.delay = now + 1
            else:
                proc.system_stop = True
        if quirk == 'eperm':
            self.options.eperm.add(pid)

    def new_process(self, pconfig):
        p = _sproc.Subprocess(pconfig)
        p.laststart = self.clock - 300          # not an autostart candidate
        return p

    def _procs(self):
        sup = self.supervisord
        for g in sorted(sup.process_groups):
            procs = sup.process_groups[g].processes
            for p in sorted(procs):
                yield procs[p]

    def tick(self):
        """One pass of the main loop: the clock advances, children that were
        told to stop are reaped (real finish()), every process transitions
        (real transition())."""
        _ACTIVE[0] = self
        self.clock += 1
        for proc in self._procs():
            name = proc.config.name
            if proc.state == S.STOPPING and proc.pid:
                left = self.dying.get(name, self.STOP_DELAY) - 1
                self.dying[name] = left
                if left <= 0:
                    del self.dying[name]
                    proc.finish(proc.pid, int(_signal.SIGTERM))   # wait status: killed by SIGTERM
                    proc.pid = 0                                  # as supervisord.reap() leaves it
            else:
                self.dying.pop(name, None)
        for proc in self._procs():
            proc.transition()

    def snapshot(self):
        sup = self.supervisord
        return (sup.options.mood, self.clock,
                tuple((g, tuple((p.config.name, p.state, p.pid, p.killing, p.spawnerr, p.backoff, p.exitstatus,
                                 p.laststart, p.laststop, p.delay, p.administrative_stop,
                                 tuple(sorted((fd, getattr(d, 'input_buffer', None), d.closed,
                                               getattr(d, 'logs_removed', None))
                                              for fd, d in p.dispatchers.items())))
                                for p in sorted(sup.process_groups[g].processes.values(),
                                                key=lambda x: x.config.name)))
                      for g in sorted(sup.process_groups)),
                tuple(self.effects), tuple(self.events))

    def call_xml(self, method, params, max_polls=60):
        _ACTIVE[0] = self
        return World.call_xml(self, method, params, max_polls)

    def call_direct(self, method, params, max_polls=60):
        _ACTIVE[0] = self
        return World.call_direct(self, method, params, max_polls)

    def traverse_mroot(self, method, params):
        _ACTIVE[0] = self
        return World.traverse_mroot(self, method, params)


N_WORLDS = len(VARIANTS) + len(REAL_VARIANTS)


def make_world(logdir, variant, mood):
    """Layouts 0..len(VARIANTS)-1: scripted stub processes; the rest: real Subprocess objects."""
    variant %= N_WORLDS
    if variant < len(VARIANTS):
        return World(logdir, variant, mood)
    return RealWorld(logdir, variant - len(VARIANTS), mood)
