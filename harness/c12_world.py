"""C12 harness: a deterministic stub daemon behind the REAL RPC stack.

Real (from the working tree): SupervisorNamespaceRPCInterface (built by
make_main_rpcinterface), SystemNamespaceRPCInterface, RootRPCInterface,
supervisor_xmlrpc_handler (continue_request / loads / call / traverse),
DeferredXMLRPCResponse, xmlrpc marshalling, readFile/tailFile, events.notify.
Stub: supervisord, options, process groups and processes (subclasses of the
supervisor.tests.base Dummy* objects) with scripted start/stop delays advanced
by tick(), the stand-in for one pass of the daemon's main loop.
"""
import errno
import os

from supervisor import events, rpcinterface, xmlrpc
from supervisor.states import ProcessStates, SupervisorStates
from supervisor.tests.base import (DummyOptions, DummyPConfig, DummyPGroupConfig, DummyProcess,
                                   DummyProcessGroup, DummySupervisor)
from supervisor.options import NotFound, NotExecutable, BadCommand
from rpcstack import RpcStack

FIXED_NOW = 1700000000

MOODS = [('RUNNING', SupervisorStates.RUNNING), ('RESTARTING', SupervisorStates.RESTARTING),
         ('SHUTDOWN', SupervisorStates.SHUTDOWN), ('FATAL', SupervisorStates.FATAL)]


class StubProcess(DummyProcess):
    def __init__(self, config, state, world, start_delay=2, stop_delay=1, quirk=None):
        DummyProcess.__init__(self, config, state)
        self.world = world
        self.start_delay = start_delay
        self.stop_delay = stop_delay
        self.quirk = quirk
        self._left = 0
        if state in (ProcessStates.RUNNING, ProcessStates.STARTING, ProcessStates.STOPPING):
            self.pid = 1000 + len(world.effects) + world.npids
            world.npids += 1
            self.laststart = FIXED_NOW - 100
        if state in (ProcessStates.EXITED, ProcessStates.FATAL, ProcessStates.BACKOFF):
            self.laststart = FIXED_NOW - 200
            self.laststop = FIXED_NOW - 150
            if state != ProcessStates.EXITED:
                self.spawnerr = 'Exited too quickly (process log may have details)'
        if state == ProcessStates.STARTING:
            self._left = start_delay
        if state == ProcessStates.STOPPING:
            self._left = stop_delay
            self.killing = True

    def _fx(self, *what):
        self.world.effects.append((self.config.name,) + what)

    def get_execv_args(self):
        if self.quirk == 'notfound':
            raise NotFound('no such file')
        if self.quirk == 'notexec':
            raise NotExecutable('not executable')
        if self.quirk == 'badcommand':
            raise BadCommand('command is empty')
        return DummyProcess.get_execv_args(self)

    def spawn(self):
        self._fx('spawn')
        self.spawned = True
        if self.quirk == 'spawnerr':
            self.spawnerr = 'cannot fork'
            self.state = ProcessStates.BACKOFF
            return
        self.spawnerr = None
        self.pid = 2000 + len(self.world.effects)
        self.laststart = FIXED_NOW
        if self.start_delay == 0:
            self.state = ProcessStates.RUNNING
        else:
            self.state = ProcessStates.STARTING
            self._left = self.start_delay

    def stop(self):
        self._fx('stop')
        self.stop_called = True
        if self.quirk == 'stopfails':
            return 'could not kill'
        if self.stop_delay == 0:
            self.killing = False
            self.pid = 0
            self.laststop = FIXED_NOW
            self.state = ProcessStates.STOPPED
        else:
            self.killing = True
            self.state = ProcessStates.STOPPING
            self._left = self.stop_delay
        return None

    def stop_report(self):
        pass

    def transition(self):
        pass

    def signal(self, sig):
        self._fx('signal', int(sig))
        if self.quirk == 'signalfails':
            return 'no such process'
        return None

    def write(self, chars):
        if self.quirk == 'epipe':
            raise OSError(errno.EPIPE, 'broken pipe')
        self._fx('write', bytes(chars))

    def removelogs(self):
        if self.quirk == 'clearfails':
            raise IOError('cannot remove')
        self._fx('removelogs')

    def tick(self):
        if self.state == ProcessStates.STARTING:
            self._left -= 1
            if self._left <= 0:
                if self.quirk == 'diesstarting':
                    self.state = ProcessStates.BACKOFF
                    self.pid = 0
                    self.laststop = FIXED_NOW
                else:
                    self.state = ProcessStates.RUNNING
        elif self.state == ProcessStates.STOPPING:
            self._left -= 1
            if self._left <= 0:
                self.state = ProcessStates.STOPPED
                self.killing = False
                self.pid = 0
                self.laststop = FIXED_NOW

    def snap(self):
        return (self.config.name, self.state, self.pid, self.killing, self.spawnerr, self.laststart,
                self.laststop, self._left)


class StubOptions(DummyOptions):
    def __init__(self, world):
        DummyOptions.__init__(self)
        self.world = world
        self.reread_error = None

    def process_config(self, do_usage=True):
        self.world.effects.append(('options', 'process_config'))
        if self.reread_error:
            raise ValueError(self.reread_error)

    def exists(self, path):
        return os.path.exists(path)

    def remove(self, path):
        self.world.effects.append(('options', 'remove', path))

    def get_pid(self):
        return 4242


class StubSupervisor(DummySupervisor):
    def __init__(self, options, world):
        DummySupervisor.__init__(self, options)
        self.world = world

    def reap(self, once=False, recursionguard=0):
        pass

    def add_process_group(self, config):
        if config.name in self.process_groups:
            return False
        self.world.effects.append(('supervisord', 'add_group', config.name))
        group = DummyProcessGroup(config)
        group.processes = {}
        for pc in config.process_configs:
            group.processes[pc.name] = StubProcess(pc, ProcessStates.STOPPED, self.world)
        self.process_groups[config.name] = group
        return True

    def remove_process_group(self, name):
        group = self.process_groups[name]
        if any(p.get_state() not in (ProcessStates.STOPPED, ProcessStates.EXITED, ProcessStates.FATAL,
                                     ProcessStates.UNKNOWN) for p in group.processes.values()):
            return False
        self.world.effects.append(('supervisord', 'remove_group', name))
        del self.process_groups[name]
        return True

    def diff_to_active(self):
        cur = set(self.process_groups)
        new = dict((c.name, c) for c in self.options.process_group_configs)
        added = [new[n] for n in sorted(new) if n not in cur]
        removed = [self.process_groups[n].config for n in sorted(cur) if n not in new]
        return added, [], removed


# process-state layouts: (group, process, state, quirk, start_delay, stop_delay)
S = ProcessStates
VARIANTS = [
    [('g1', 'p1', S.RUNNING, None, 2, 1), ('g1', 'p2', S.STOPPED, None, 2, 1), ('g2', 'q1', S.FATAL, None, 1, 1),
     ('solo', 'solo', S.EXITED, None, 0, 0)],
    [('g1', 'p1', S.STOPPED, None, 0, 0), ('g1', 'p2', S.STARTING, None, 3, 2), ('g2', 'q1', S.BACKOFF, None, 1, 1),
     ('solo', 'solo', S.RUNNING, None, 1, 2)],
    [('g1', 'p1', S.STOPPING, None, 2, 2), ('g1', 'p2', S.UNKNOWN, None, 2, 1), ('g2', 'q1', S.RUNNING, 'signalfails', 1, 1),
     ('solo', 'solo', S.STOPPED, 'spawnerr', 1, 1)],
    [('g1', 'p1', S.STOPPED, 'notfound', 2, 1), ('g1', 'p2', S.EXITED, 'diesstarting', 2, 1),
     ('g2', 'q1', S.RUNNING, 'epipe', 1, 1), ('solo', 'solo', S.RUNNING, 'stopfails', 1, 1)],
    [('g1', 'p1', S.STOPPED, 'notexec', 2, 1), ('g1', 'p2', S.FATAL, 'badcommand', 2, 1),
     ('g2', 'q1', S.STOPPED, 'clearfails', 1, 1), ('solo', 'solo', S.STOPPED, None, 3, 1)],
    # non-ASCII group/process names: they travel in result structs and fault
    # strings, on the immediate and on the deferred path
    [(u'gr\u00fc', u'pr\u00f6', S.STOPPED, None, 2, 1), (u'gr\u00fc', u'di\u00e9', S.STOPPED, 'diesstarting', 1, 1),
     ('g2', 'q1', S.FATAL, None, 1, 1), ('solo', 'solo', S.EXITED, None, 0, 0)],
    [(u'gr\u00fc', u'pr\u00f6', S.RUNNING, None, 2, 2), (u'gr\u00fc', u'di\u00e9', S.RUNNING, None, 1, 1),
     ('g2', 'q1', S.STOPPED, 'spawnerr', 1, 1), ('solo', 'solo', S.RUNNING, None, 1, 2)],
]


class World(object):
    """One stub daemon + the real RPC stack on top of it."""

    def __init__(self, logdir, variant=0, mood=SupervisorStates.RUNNING, fixed_now=True):
        self.effects = []
        self.events = []
        self.npids = 0
        self.logdir = logdir
        opts = self.options = StubOptions(self)
        opts.logfile = os.path.join(logdir, 'main.log')
        sup = self.supervisord = StubSupervisor(opts, self)
        opts.mood = mood
        groups = {}
        gconfigs = {}
        prio = {'g1': 1, 'g2': 2, 'solo': 3}
        for k, (g, p, state, quirk, sd, kd) in enumerate(VARIANTS[variant % len(VARIANTS)]):
            logs = {'p1': ('p1.out', 'p1.err'), 'p2': ('bad.out', None), 'q1': (None, 'absent.err'),
                    'solo': ('solo.out', 'p1.err'), u'pr\u00f6': ('p1.out', 'p1.err'),
                    u'di\u00e9': ('solo.out', None)}[p]
            pc = DummyPConfig(opts, p, '/bin/%s -x' % p, priority=10 + k,
                              stdout_logfile=logs[0] and os.path.join(logdir, logs[0]),
                              stderr_logfile=logs[1] and os.path.join(logdir, logs[1]))
            if g not in gconfigs:
                gconfigs[g] = DummyPGroupConfig(opts, g, priority=prio.get(g, 1), pconfigs=[])
                groups[g] = DummyProcessGroup(gconfigs[g])
                groups[g].processes = {}
            gconfigs[g].process_configs.append(pc)
            groups[g].processes[p] = StubProcess(pc, state, self, sd, kd, quirk)
        sup.process_groups = groups
        # the config file also lists a group that is not active, and lacks 'solo'
        extra = DummyPGroupConfig(opts, 'newgrp', priority=5,
                                  pconfigs=[DummyPConfig(opts, 'n1', '/bin/n1', priority=1)])
        opts.process_group_configs = [gconfigs[g] for g in gconfigs if g != 'solo'] + [extra]
        if variant % 2 == 1:
            opts.reread_error = 'bad config'
        # the real interface objects, built as supervisor.http.make_http_servers does
        self.iface = rpcinterface.make_main_rpcinterface(sup)
        if fixed_now:
            self.iface._now = lambda: FIXED_NOW
        subinterfaces = [('supervisor', self.iface)]
        self.system = xmlrpc.SystemNamespaceRPCInterface(subinterfaces)
        subinterfaces.append(('system', self.system))
        self.stack = RpcStack(sup, subinterfaces)
        self.mroot = xmlrpc.AttrDict(self.system.namespaces)

    # -- the daemon's main loop, one pass
    def tick(self):
        for g in sorted(self.supervisord.process_groups):
            procs = self.supervisord.process_groups[g].processes
            for p in sorted(procs):
                procs[p].tick()

    def snapshot(self):
        sup = self.supervisord
        return (sup.options.mood,
                tuple((g, tuple(sup.process_groups[g].processes[p].snap()
                                for p in sorted(sup.process_groups[g].processes)))
                      for g in sorted(sup.process_groups)),
                tuple(self.effects), tuple(self.events))

    def reached(self):
        return getattr(self.iface, 'update_text', None)

    def reset_reached(self):
        if hasattr(self.iface, 'update_text'):
            del self.iface.update_text

    # -- calls
    def finish(self, res, max_polls=60):
        """Drive a ('deferred', d) answer to completion: main-loop pass, then
        the producer's more().  Returns (final answer, polls)."""
        if res[0] != 'deferred':
            return res, 0
        d = res[1]
        for k in range(1, max_polls + 1):
            self.tick()
            out = d.poll()
            if out is not None:
                return out, k
        return ('never-completes', max_polls), max_polls

    def call_xml(self, method, params, max_polls=60):
        return self.finish(self.stack.call(method, tuple(params)), max_polls)

    def call_direct(self, method, params, max_polls=60):
        """handler.call (traverse on the handler's root) without marshalling;
        deferred callbacks are polled like DeferredXMLRPCResponse.more() does."""
        import types
        from supervisor.http import NOT_DONE_YET
        from supervisor.xmlrpc import RPCError
        try:
            v = self.stack.handler.call(method, tuple(params))
        except RPCError as e:
            return ('fault', e.code), 0
        except Exception as e:
            return ('exception', type(e).__name__), 0
        if not isinstance(v, types.FunctionType):
            return ('value', v), 0
        for k in range(1, max_polls + 1):
            self.tick()
            try:
                out = v()
            except RPCError as e:
                return ('fault', e.code), k
            except Exception as e:
                return ('exception', type(e).__name__), k
            if out is not NOT_DONE_YET:
                return ('value', out), k
        return ('never-completes', max_polls), max_polls

    def traverse_mroot(self, method, params):
        """traverse() on the AttrDict root exactly as multi() builds it."""
        from supervisor.xmlrpc import RPCError, AttrDict, traverse
        try:
            return ('value', traverse(AttrDict(self.system.namespaces), method, tuple(params)))
        except RPCError as e:
            return ('fault', e.code)
        except Exception as e:
            return ('exception', type(e).__name__)


_subscribed = []


def subscribe_events(world_ref):
    """RemoteCommunicationEvents land in the current world's event list."""
    events.clear()

    def cb(ev):
        w = world_ref[0]
        if w is not None:
            w.events.append((ev.type, ev.data))
    events.subscribe(events.RemoteCommunicationEvent, cb)


def write_logs(logdir):
    files = {
        'main.log': u'2026-01-01 INFO supervisord started\nline two: caf\u00e9 \u20ac5 \u65e5\u672c\n'.encode('utf-8'),
        'p1.out': b'hello from p1\n\xc3\xa9\xe2\x82\xac end\n',      # multi-byte UTF-8: windows can cut a character
        'p1.err': b'err line\n',
        'bad.out': b'ok\xff\xfe binary \x80 tail',                   # never valid UTF-8 as a whole
        'solo.out': b'',
    }
    for n, b in files.items():
        with open(os.path.join(logdir, n), 'wb') as f:
            f.write(b)
    return files
