"""C11 harness: drives the real notification code of /repo's working tree.

Real classes used: supervisor.events.*, supervisor.process.Subprocess,
EventListenerPool, supervisor.dispatchers.PInputDispatcher,
supervisor.supervisord.Supervisor, SupervisorNamespaceRPCInterface (through the
real XML-RPC handler).  Fakes: the options object (the seam below the system
calls), process/group configs, and `time.time` inside supervisor.process.
"""
import types

from supervisor import events, process, states, supervisord, dispatchers
from supervisor.states import ProcessStates, SupervisorStates
from supervisor.dispatchers import EventListenerStates


class NullLogger(object):
    def __getattr__(self, name):
        return lambda *a, **k: None


class FakeOptions(object):
    """The seam: what ServerOptions offers to the code under test."""
    identifier = 'supervisor'
    mood = SupervisorStates.RUNNING
    test = False

    def __init__(self, identifier='supervisor'):
        self.identifier = identifier
        self.logger = NullLogger()
        self.written = []          # (fd, bytes) accepted by write()
        self.pidhistory = {}
        self.parent_pipes_closed = 0
        self.poller = None
        self.write_hook = None

    # used by PInputDispatcher.flush
    def write(self, fd, data):
        if self.write_hook is not None:
            return self.write_hook(fd, data)
        assert isinstance(data, bytes), 'write() needs bytes, got %r' % type(data)
        self.written.append((fd, data))
        return len(data)

    def close_parent_pipes(self, pipes):
        self.parent_pipes_closed += 1

    # used by Supervisor.runforever
    def get_socket_map(self):
        return {}

    def waitpid(self):
        return None, None

    def get_signal(self):
        return None


class FakePConfig(object):
    def __init__(self, options, name, startsecs=1, exitcodes=(0,)):
        self.options = options
        self.name = name
        self.startsecs = startsecs
        self.exitcodes = list(exitcodes)
        self.stopwaitsecs = 10
        self.priority = 999

    def make_process(self, group=None):
        p = process.Subprocess(self)
        p.group = group
        return p


class FakeGroupConfig(object):
    def __init__(self, name):
        self.name = name


class FakeGroup(object):
    """Only what payload() reads: group.config.name."""
    def __init__(self, name):
        self.config = FakeGroupConfig(name)


class FakeTime(object):
    def __init__(self, now):
        self.now = now

    def time(self):
        return self.now


class patched_time(object):
    """`time.time()` as seen by supervisor.process / supervisor.supervisord."""
    def __init__(self, now, modules=(process,)):
        self.fake = FakeTime(now)
        self.modules = modules

    def __enter__(self):
        self.saved = [m.time for m in self.modules]
        for m in self.modules:
            m.time = self.fake
        return self.fake

    def __exit__(self, *a):
        for m, t in zip(self.modules, self.saved):
            m.time = t


class capture_events(object):
    """Subscribe to a type for the duration of a block; events.callbacks is
    restored afterwards."""
    def __init__(self, typ):
        self.typ = typ
        self.got = []

    def __enter__(self):
        self.saved = list(events.callbacks)
        events.subscribe(self.typ, self.got.append)
        return self.got

    def __exit__(self, *a):
        events.callbacks[:] = self.saved


# ------------------------------------------------------------------ processes

def make_subprocess(name, group, state, pid, backoff, killing, laststart, startsecs, exitcodes):
    opts = FakeOptions()
    cfg = FakePConfig(opts, name, startsecs=startsecs, exitcodes=exitcodes)
    p = cfg.make_process(FakeGroup(group) if group is not None else None)
    p.state = state
    p.pid = pid
    p.backoff = backoff
    p.killing = killing
    p.laststart = laststart
    return p


def render_events(evs):
    """(class name, payload text or None when payload() raises), read *now*."""
    out = []
    for e in evs:
        try:
            out.append((type(e).__name__, e.payload()))
        except Exception as ex:  # the model answers None
            out.append((type(e).__name__, None))
    return out


def run_proc_step(p, step):
    """Apply one primitive step to a real Subprocess; returns
    (raised AssertionError?, events captured in order).  Payloads must be
    rendered by the caller after the step has completed."""
    kind = step[0]
    with capture_events(events.Event) as got:
        raised = False
        if kind == 'change':
            _, new_state, expected, now = step
            with patched_time(now):
                p.change_state(new_state, expected)
        elif kind == 'setpid':
            p.pid = step[1]
        elif kind == 'setbackoff':
            p.backoff = step[1]
        elif kind == 'finish':
            _, sts, now = step
            with patched_time(now):
                try:
                    p.finish(p.pid, sts)
                except AssertionError:
                    raised = True
        else:
            raise ValueError(kind)
    return raised, list(got)


# ------------------------------------------------------------------ pools

class FakePoolConfig(object):
    def __init__(self, options, name, pool_events, nlisteners=1, buffer_size=100):
        self.options = options
        self.name = name
        self.pool_events = pool_events
        self.buffer_size = buffer_size
        self.priority = 999
        self.process_configs = [FakePConfig(options, '%s_%02d' % (name, i)) for i in range(nlisteners)]


def make_pool(identifier, poolname, pool_events=None):
    """A real EventListenerPool with one real listener Subprocess that is
    RUNNING and READY, its stdin a real PInputDispatcher over the fake write()."""
    opts = FakeOptions(identifier)
    cfg = FakePoolConfig(opts, poolname, pool_events or [events.Event])
    pool = process.EventListenerPool(cfg)
    for proc in pool.processes.values():
        proc.state = ProcessStates.RUNNING
        proc.pid = 4242
        proc.listener_state = EventListenerStates.READY
        proc.pipes = {'stdin': 7}
        proc.dispatchers = {7: dispatchers.PInputDispatcher(proc, 'stdin', 7)}
    return pool, opts


def pool_send(pool, opts, event):
    """notify -> buffered by the pool's own callback -> dispatch().  Returns
    (bytes written to the listener's stdin or None, exception name or None,
    serial, pool serial)."""
    before = len(opts.written)
    events.notify(event)
    exc = None
    try:
        with patched_time(1000.0):
            pool.dispatch()
    except Exception as e:
        exc = type(e).__name__
        pool.event_buffer[:] = []
    data = b''.join(d for _, d in opts.written[before:])
    for proc in pool.processes.values():      # the listener acknowledges
        proc.listener_state = EventListenerStates.READY
        proc.event = None
    serial = getattr(event, 'serial', None)
    ps = getattr(event, 'pool_serials', {}).get(pool.config.name)
    return (data if exc is None else None), exc, serial, ps


# ------------------------------------------------------------------ ticks

def run_ticks(readings):
    """A fresh real Supervisor, tick(now=r) for every reading; per pass the
    (class name, when, payload) of the TickEvents notified."""
    sup = supervisord.Supervisor(FakeOptions())
    out = []
    with capture_events(events.Event) as got:
        for r in readings:
            n = len(got)
            sup.tick(now=r)
            out.append([(type(e).__name__, e.when, e.payload()) for e in got[n:]])
    return out


# ------------------------------------------------------------------ supervisord

class ScriptEnd(Exception):
    pass


class FakeProc(object):
    def __init__(self, name):
        self.config = types.SimpleNamespace(name=name)

    def get_state(self):
        return ProcessStates.RUNNING


class FakeSupGroup(object):
    def __init__(self, config):
        self.config = config
        self.unstopped = True
        self.removed = False

    def __lt__(self, other):
        return self.config.priority < other.config.priority

    def __eq__(self, other):
        return self.config.priority == other.config.priority

    __hash__ = object.__hash__

    def get_unstopped_processes(self):
        return [FakeProc(self.config.name + '_p')] if self.unstopped else []

    raises = False

    def before_remove(self):
        if self.raises:
            raise ValueError('before_remove failed')
        self.removed = True

    def get_dispatchers(self):
        return {}

    def transition(self):
        pass

    def stop_all(self):
        pass


class FakeSupGroupConfig(object):
    priority = 999

    def __init__(self, name):
        self.name = name

    def after_setuid(self):
        pass

    raises = False

    def make_group(self):
        if self.raises:
            # what FastCGIProcessGroup.__init__ does when its socket cannot be created
            raise ValueError('Could not create FastCGI socket')
        return FakeSupGroup(self)


class ScriptPoller(object):
    """poll() is the scheduling point of the main loop: it runs the next chunk
    of the script (group additions/removals as the RPC interface would make
    them, then the mood for the next pass), or ends the run."""
    def __init__(self, chunks):
        self.chunks = list(chunks)

    def register_readable(self, fd):
        pass

    register_writable = unregister_readable = unregister_writable = register_readable

    def poll(self, timeout):
        if not self.chunks:
            raise ScriptEnd()
        self.chunks.pop(0)()
        return [], []


class MarkingSocketMap(object):
    """What get_socket_map() returns: an empty mapping whose keys() is called
    by `combined_map.update(socket_map)` at the top of every pass."""
    def __init__(self, log):
        self.log = log

    def keys(self):
        self.log.append(('top',))
        return []

    def __getitem__(self, k):
        raise KeyError(k)


class SupOptions(FakeOptions):
    def __init__(self, log):
        FakeOptions.__init__(self)
        self.log = log

    def get_socket_map(self):
        return MarkingSocketMap(self.log)


def run_sup_ops(ops):
    """ops: ('add', name) | ('remove', name, unstopped) | ('runforever',) |
    ('pass', mood) | ('add_raises', name) (make_group() raises) | ('remove_raises', name)
    (before_remove() of the stopped group raises).  add/remove before 'runforever' are direct calls (as
    Supervisor.run makes at start-up); after it they happen inside poll(),
    where the RPC interface would make them; each 'pass' is one pass of the
    real loop of the real runforever with options.mood set just before it.

    Returns ([(result, [(class name, payload)])], stray) for the ops that were executed;
    stray = notifications raised where the script performs no operation
    (the loop ends with ExitNow when it is asked to stop and nothing is left
    running; later ops are then not executed)."""
    log = []
    opts = SupOptions(log)
    sup = supervisord.Supervisor(opts)

    def do(op):
        log.append(('op',))
        if op[0] == 'add':
            r = sup.add_process_group(FakeSupGroupConfig(op[1]))
        elif op[0] == 'add_raises':
            cfg = FakeSupGroupConfig(op[1])
            cfg.raises = True
            try:
                r = sup.add_process_group(cfg)
            except ValueError:
                r = 'Exception'
        elif op[0] == 'remove_raises':
            g = sup.process_groups.get(op[1])
            if g is not None:
                g.unstopped = False
                g.raises = True
            try:
                r = sup.remove_process_group(op[1])
            except KeyError:
                r = 'KeyError'
            except ValueError:
                r = 'Exception'
            if g is not None:
                g.raises = False
        elif op[0] == 'remove':
            g = sup.process_groups.get(op[1])
            if g is not None:
                g.unstopped = op[2]
            try:
                r = sup.remove_process_group(op[1])
            except KeyError:
                r = 'KeyError'
        else:
            raise ValueError(op)
        log.append(('opend', r))

    saved = list(events.callbacks)
    events.subscribe(events.Event, lambda e: log.append(('event', e)))
    try:
        i = 0
        while i < len(ops) and ops[i][0] != 'runforever':
            do(ops[i])
            i += 1
        if i < len(ops):
            passes = []
            for op in ops[i + 1:]:
                if op[0] == 'pass':
                    passes.append((op[1], []))
                elif op[0] == 'runforever' or not passes:
                    raise ValueError('script shape: %r' % (op,))
                else:
                    passes[-1][1].append(op)

            def mk(k, inner):
                def chunk():
                    log.append(('poll',))
                    for op in inner:
                        do(op)
                    if k + 1 < len(passes):
                        opts.mood = passes[k + 1][0]
                return chunk
            opts.poller = ScriptPoller([mk(k, inner) for k, (_, inner) in enumerate(passes)])
            if passes:
                opts.mood = passes[0][0]
            log.append(('rf',))
            with patched_time(1000.0, modules=(supervisord,)):
                try:
                    sup.runforever()
                except ScriptEnd:
                    log.append(('scriptend',))
                except supervisord.asyncore.ExitNow:
                    pass
    finally:
        events.callbacks[:] = saved

    # attribute the events to the operations, by position in the log
    out = []
    stray = []          # notifications seen where the script performs no operation
    cur = []
    tops = 0
    nscripted = len([o for o in ops if o[0] == 'pass'])
    where = 'pre'       # pre | op | entry | pass | polled
    back = None
    for ent in log:
        k = ent[0]
        if k == 'event':
            if where in ('pre', 'polled', 'end'):
                stray.append(ent[1])
            else:
                cur.append(ent[1])
        elif k == 'op':
            if where not in ('pre', 'polled'):
                raise AssertionError('log shape')
            back, where, cur = where, 'op', []
        elif k == 'opend':
            out.append((ent[1], render_events(cur)))
            where, cur = back, []
        elif k == 'rf':
            where, cur = 'entry', []
        elif k == 'top':
            if where == 'entry':
                out.append((None, render_events(cur)))
            elif where != 'polled':
                raise AssertionError('log shape: top of pass while %s' % where)
            where, cur = 'pass', []
            tops += 1
        elif k == 'poll':
            if where != 'pass':
                raise AssertionError('log shape: poll while %s' % where)
            out.append((None, render_events(cur)))
            where, cur = 'polled', []
        elif k == 'scriptend':
            # the script ran out inside the poll() of one more, unscripted pass:
            # nothing changed in it, so it must not have notified anything
            stray.extend(cur)
            where, cur = 'end', []
    if where == 'pass' and tops > nscripted:
        # one more, unscripted pass began after the script was used up (and ended with ExitNow)
        stray.extend(cur)
    elif where in ('entry', 'pass'):
        out.append((None, render_events(cur)))    # ended by ExitNow (or no pass at all)
    return out, render_events(stray)


# ------------------------------------------------------------------ routing: pools with several subscriptions

def drain_pool(pool, opts, limit=200):
    """Dispatch everything the pool has buffered, the listener acknowledging
    each event at once; returns the bytes that reached its stdin."""
    before = len(opts.written)
    n = 0
    while pool.event_buffer and n < limit:
        with patched_time(1000.0):
            pool.dispatch()
        for proc in pool.processes.values():
            proc.listener_state = EventListenerStates.READY
            proc.event = None
        n += 1
    return b''.join(d for _, d in opts.written[before:])


def run_routing(pool_specs, emissions):
    """pool_specs: [(pool name, [EventTypes names])]; all pools exist at the
    same time, as in a running supervisord.  emissions: list of
      ('state', new_state) | ('tick', reading) | ('log', 'stdout'|'stderr', bytes)
      | ('comm', 'stdout'|'stderr', bytes) | ('group_add', name) | ('group_remove', name)
      | ('running',) | ('stopping',) | ('remote', type, data)
    performed on one real Subprocess / Supervisor / RPC interface.

    Returns (emitted, streams): emitted = [(class name, payload)] in order (as a
    plain subscriber to Event sees them), streams = {pool name: bytes on that
    pool's listener stdin}."""
    from supervisor import rpcinterface
    events.clear()
    process.GlobalSerial.serial = -1
    emitted = []
    events.subscribe(events.Event, emitted.append)
    pools = []
    try:
        for name, type_names in pool_specs:
            opts = FakeOptions('supervisor')
            cfg = FakePoolConfig(opts, name, [getattr(events.EventTypes, t) for t in type_names])
            pool = process.EventListenerPool(cfg)
            for proc in pool.processes.values():
                proc.state = ProcessStates.RUNNING
                proc.pid = 4242
                proc.listener_state = EventListenerStates.READY
                proc.pipes = {'stdin': 7}
                proc.dispatchers = {7: dispatchers.PInputDispatcher(proc, 'stdin', 7)}
            pools.append((name, pool, opts))
        subject = make_subprocess('subject', 'grp', ProcessStates.STOPPED, 77, 0, False, 100.0, 1, (0,))
        sup = supervisord.Supervisor(FakeOptions())
        iface = rpcinterface.SupervisorNamespaceRPCInterface(sup)
        streams = dict((name, b'') for name, _, _ in pools)
        for em in emissions:
            k = em[0]
            if k == 'state':
                with patched_time(200.0):
                    subject.change_state(em[1], True)
            elif k == 'tick':
                sup.tick(now=em[1])
            elif k == 'log':
                cls = events.ProcessLogStdoutEvent if em[1] == 'stdout' else events.ProcessLogStderrEvent
                events.notify(cls(subject, subject.pid, em[2]))
            elif k == 'comm':
                cls = events.ProcessCommunicationStdoutEvent if em[1] == 'stdout' else events.ProcessCommunicationStderrEvent
                events.notify(cls(subject, subject.pid, em[2]))
            elif k == 'group_add':
                sup.add_process_group(FakeSupGroupConfig(em[1]))
            elif k == 'group_remove':
                g = sup.process_groups.get(em[1])
                if g is not None:
                    g.unstopped = False
                    sup.remove_process_group(em[1])
            elif k == 'running':
                events.notify(events.SupervisorRunningEvent())
            elif k == 'stopping':
                events.notify(events.SupervisorStoppingEvent())
            elif k == 'remote':
                iface.sendRemoteCommEvent(em[1], em[2])
            else:
                raise ValueError(em)
            for name, pool, opts in pools:
                streams[name] += drain_pool(pool, opts)
        return [(type(e).__name__, e.payload(), getattr(e, 'serial', None)) for e in emitted], streams
    finally:
        events.clear()


# ------------------------------------------------------------------ pools added and removed at run time

class LivePoolConfig(FakePoolConfig):
    """Group config of a listener pool as Supervisor.add_process_group uses it:
    make_group() builds the real EventListenerPool (which subscribes)."""
    def __init__(self, options, name, pool_events, registry):
        FakePoolConfig.__init__(self, options, name, pool_events)
        self.registry = registry

    def after_setuid(self):
        pass

    def make_group(self):
        pool = process.EventListenerPool(self)
        for proc in pool.processes.values():
            proc.state = ProcessStates.RUNNING
            proc.pid = 4242
            proc.listener_state = EventListenerStates.READY
            proc.pipes = {'stdin': 7}
            proc.dispatchers = {7: dispatchers.PInputDispatcher(proc, 'stdin', 7)}
        self.registry.append({'name': self.name, 'pool': pool, 'opts': self.options, 'alive': True,
                              'types': list(self.pool_events), 'stream': b''})
        return pool


def run_pool_history(ops):
    """ops: ('add_pool', name, [EventTypes names]) | ('remove_pool', name) | an
    emission of run_routing.  Pools are added with the real
    Supervisor.add_process_group and removed with the real
    Supervisor.remove_process_group (their listener stopped first, as
    supervisorctl remove requires), so PROCESS_GROUP_ADDED / REMOVED are raised by
    the real code as well.

    Returns (emitted, incarnations): emitted = [(class name, payload, serial,
    [indices of the incarnations alive when it was raised], index of the op that raised it)]; incarnations =
    [{'name', 'types', 'stream' (bytes on the listener's stdin), 'alive'}]."""
    from supervisor import rpcinterface
    events.clear()
    process.GlobalSerial.serial = -1
    registry = []
    emitted = []

    cur = [0]

    def truth(e):
        emitted.append((e, [i for i, inc in enumerate(registry) if inc['alive']], cur[0]))
    sup = supervisord.Supervisor(FakeOptions())
    iface = rpcinterface.SupervisorNamespaceRPCInterface(sup)
    subject = make_subprocess('subject', 'grp', ProcessStates.STOPPED, 77, 0, False, 100.0, 1, (0,))
    results = []
    try:
        for oi, op in enumerate(ops):
            cur[0] = oi
            # the observer must not depend on the code under test keeping it subscribed
            if (events.Event, truth) not in events.callbacks:
                events.callbacks.insert(0, (events.Event, truth))
            k = op[0]
            if k == 'add_pool':
                cfg = LivePoolConfig(FakeOptions('supervisor'), op[1], [getattr(events.EventTypes, t) for t in op[2]], registry)
                results.append(sup.add_process_group(cfg))
            elif k == 'remove_pool_refused':
                # the pool's listener is still running: remove_process_group must refuse and change nothing
                try:
                    results.append(sup.remove_process_group(op[1]))
                except KeyError:
                    results.append('KeyError')
            elif k == 'remove_pool':
                inc = [x for x in registry if x['name'] == op[1] and x['alive']]
                if inc:
                    for proc in inc[0]['pool'].processes.values():
                        proc.state = ProcessStates.STOPPED
                    inc[0]['alive'] = False     # before_remove() runs before REMOVED is raised
                try:
                    results.append(sup.remove_process_group(op[1]))
                except KeyError:
                    results.append('KeyError')
                except ValueError:
                    results.append('ValueError')
                if inc:
                    for proc in inc[0]['pool'].processes.values():
                        proc.state = ProcessStates.RUNNING   # so that a stray delivery would be written and seen
            elif k == 'state':
                with patched_time(200.0):
                    subject.change_state(op[1], True)
            elif k == 'tick':
                sup.tick(now=op[1])
            elif k == 'log':
                cls = events.ProcessLogStdoutEvent if op[1] == 'stdout' else events.ProcessLogStderrEvent
                events.notify(cls(subject, subject.pid, op[2]))
            elif k == 'comm':
                cls = events.ProcessCommunicationStdoutEvent if op[1] == 'stdout' else events.ProcessCommunicationStderrEvent
                events.notify(cls(subject, subject.pid, op[2]))
            elif k == 'running':
                events.notify(events.SupervisorRunningEvent())
            elif k == 'stopping':
                events.notify(events.SupervisorStoppingEvent())
            elif k == 'remote':
                iface.sendRemoteCommEvent(op[1], op[2])
            else:
                raise ValueError(op)
            for inc in registry:
                inc['stream'] += drain_pool(inc['pool'], inc['opts'])
        out_emitted = [(type(e).__name__, e.payload(), getattr(e, 'serial', None), alive, oi) for e, alive, oi in emitted]
        incs = [{'name': x['name'], 'types': [t.__name__ for t in x['types']], 'stream': x['stream'], 'alive': x['alive']}
                for x in registry]
        return out_emitted, incs, results
    finally:
        events.clear()


# ------------------------------------------------------------------ listeners that answer (OK / FAIL), several pools

class AnsweringOptions(FakeOptions):
    """Adds the read side of the seam: what the listener wrote on its stdout."""
    def __init__(self, identifier='supervisor'):
        FakeOptions.__init__(self, identifier)
        self.pending = {}

    def readfd(self, fd):
        return self.pending.pop(fd, b'')

    # a non-blocking pipe with finite room: room[fd] = free bytes (absent = unlimited);
    # with no room at all os.write raises EAGAIN
    def write(self, fd, data):
        room = getattr(self, 'room', {}).get(fd)
        if room is None:
            return FakeOptions.write(self, fd, data)
        if room < 0:
            import errno
            raise OSError(errno.EPIPE, 'Broken pipe')      # the reader is gone
        if room <= 0:
            import errno
            raise OSError(errno.EAGAIN, 'Resource temporarily unavailable')
        n = min(room, len(data))
        self.room[fd] = room - n
        self.written.append((fd, bytes(data[:n])))
        return n


def run_reject_history(pool_specs, ops):
    """pool_specs: [(name, [EventTypes names], listener priority)].  Each pool has
    one real listener Subprocess with a real PInputDispatcher (stdin) and a real
    PEventListenerDispatcher (stdout).  ops:
      ('emit', emission of run_routing) | ('dispatch',) |
      ('answer', pool name, True/False)  - the listener writes RESULT 2\\nOK / RESULT 4\\nFAIL
      ('ready', pool name)               - the listener writes READY\\n
    Returns (emitted [(class name, payload, serial)], {pool: bytes on its listener's stdin},
    {pool: [serials left in event_buffer]})."""
    from supervisor import rpcinterface
    events.clear()
    process.GlobalSerial.serial = -1
    emitted = []
    events.subscribe(events.Event, emitted.append)
    pools = {}
    try:
        for name, type_names, prio in pool_specs:
            opts = AnsweringOptions('supervisor')
            cfg = FakePoolConfig(opts, name, [getattr(events.EventTypes, t) for t in type_names])
            cfg.result_handler = dispatchers.default_handler
            for pc in cfg.process_configs:
                pc.priority = prio
                pc.stdout_logfile = None
            pool = process.EventListenerPool(cfg)
            for proc in pool.processes.values():
                proc.state = ProcessStates.RUNNING
                proc.pid = 4242
                proc.pipes = {'stdin': 7, 'stdout': 8}
                proc.dispatchers = {7: dispatchers.PInputDispatcher(proc, 'stdin', 7),
                                    8: dispatchers.PEventListenerDispatcher(proc, 'stdout', 8)}
            pools[name] = (pool, opts)
        subject = make_subprocess('subject', 'grp', ProcessStates.STOPPED, 77, 0, False, 100.0, 1, (0,))
        sup = supervisord.Supervisor(FakeOptions())
        iface = rpcinterface.SupervisorNamespaceRPCInterface(sup)

        def say(name, data):
            pool, opts = pools[name]
            for proc in pool.processes.values():
                opts.pending[8] = data
                proc.dispatchers[8].handle_read_event()

        for op in ops:
            k = op[0]
            if k == 'emit':
                em = op[1]
                if em[0] == 'state':
                    with patched_time(200.0):
                        subject.change_state(em[1], True)
                elif em[0] == 'tick':
                    sup.tick(now=em[1])
                elif em[0] == 'log':
                    events.notify(events.ProcessLogStdoutEvent(subject, subject.pid, em[2]))
                elif em[0] == 'remote':
                    iface.sendRemoteCommEvent(em[1], em[2])
                else:
                    raise ValueError(em)
            elif k == 'dispatch':
                for name in sorted(pools):
                    with patched_time(1000.0):
                        pools[name][0].dispatch()
            elif k == 'answer':
                say(op[1], b'RESULT 2\nOK' if op[2] else b'RESULT 4\nFAIL')
            elif k == 'ready':
                say(op[1], b'READY\n')
            else:
                raise ValueError(op)
        streams = dict((n, b''.join(d for _, d in o.written)) for n, (p, o) in pools.items())
        left = dict((n, [getattr(e, 'serial', None) for e in p.event_buffer]) for n, (p, o) in pools.items())
        return [(type(e).__name__, e.payload(), getattr(e, 'serial', None)) for e in emitted], streams, left
    finally:
        events.clear()


# ------------------------------------------------------------------ PROCESS_COMMUNICATION through the real output dispatcher

def run_capture(capmax, reads, channel='stdout', pname='worker', gname='grp', pid=3131, loglevel=None):
    """A real Subprocess with a real POutputDispatcher on `channel` whose capture
    buffer holds capmax bytes; the child's output arrives in the given reads (the
    caller puts the BEGIN / END tokens in them).  One real pool subscribed to
    PROCESS_COMMUNICATION receives what is raised.

    Returns [(class name, data bytes of the event, serial, pool serial, bytes on the
    listener's stdin)] for every PROCESS_COMMUNICATION event raised."""
    from supervisor import loggers
    events.clear()
    process.GlobalSerial.serial = -1
    try:
        from supervisor.options import ServerOptions
        pool, popts = make_pool('supervisor', 'pool', pool_events=[events.ProcessCommunicationEvent])
        opts = AnsweringOptions()
        # the real ServerOptions.getLogger, and the daemon's loglevel as configured
        opts.getLogger = lambda *a, **k: ServerOptions.getLogger(opts, *a, **k)
        opts.loglevel = loggers.LevelsByName.INFO if loglevel is None else loglevel
        opts.strip_ansi = False
        cfg = FakePConfig(opts, pname)
        for ch in ('stdout', 'stderr'):
            setattr(cfg, ch + '_logfile', None)
            setattr(cfg, ch + '_logfile_maxbytes', 0)
            setattr(cfg, ch + '_logfile_backups', 0)
            setattr(cfg, ch + '_syslog', False)
            setattr(cfg, ch + '_events_enabled', False)
            setattr(cfg, ch + '_capture_maxbytes', capmax if ch == channel else 0)
        proc = cfg.make_process(FakeGroup(gname))
        proc.pid = pid
        etype = events.ProcessCommunicationStdoutEvent if channel == 'stdout' else events.ProcessCommunicationStderrEvent
        disp = dispatchers.POutputDispatcher(proc, etype, 9)
        got = []
        events.subscribe(events.ProcessCommunicationEvent, got.append)
        out = []
        for r in reads:
            opts.pending[9] = r
            n = len(got)
            disp.handle_read_event()
            for e in got[n:]:
                stream = drain_pool(pool, popts)
                out.append((type(e).__name__, e.data, getattr(e, 'serial', None),
                            getattr(e, 'pool_serials', {}).get('pool'), stream))
        return out
    finally:
        events.clear()


# ------------------------------------------------------------------ one pool, several listeners that answer, misbehave and die

def run_listener_history(nlisteners, ops):
    """One real pool subscribed to REMOTE_COMMUNICATION with `nlisteners` real
    listener Subprocesses (real PInputDispatcher + PEventListenerDispatcher each).
    ops: ('emit',) | ('dispatch',) | ('ready', i) | ('ok', i) | ('fail', i) |
         ('garbage', i)  - a malformed result line while BUSY |
         ('reap', i)     - the real Subprocess.finish(pid, 0) of listener i |
         ('full', i)     - listener i's stdin pipe has no room (os.write raises EAGAIN) |
         ('drain', i)    - the pipe is writable again: the real handle_write_event()
    Returns (per op: [(listener index, bytes written to its stdin during the op)],
             serials left in the pool's buffer)."""
    from supervisor import rpcinterface
    events.clear()
    process.GlobalSerial.serial = -1
    try:
        opts = AnsweringOptions('supervisor')
        cfg = FakePoolConfig(opts, 'pool', [events.RemoteCommunicationEvent], nlisteners=nlisteners)
        cfg.result_handler = dispatchers.default_handler
        for pc in cfg.process_configs:
            pc.stdout_logfile = None
        pool = process.EventListenerPool(cfg)
        procs = list(pool.processes.values())
        fds = {}
        for k, proc in enumerate(procs):
            proc.state = ProcessStates.RUNNING
            proc.pid = 5000 + k
            proc.laststart = 1.0
            fin, fout = 100 + 2 * k, 101 + 2 * k
            fds[k] = (fin, fout)
            proc.pipes = {'stdin': fin, 'stdout': fout}
            proc.dispatchers = {fin: dispatchers.PInputDispatcher(proc, 'stdin', fin),
                                fout: dispatchers.PEventListenerDispatcher(proc, 'stdout', fout)}
        sup = supervisord.Supervisor(FakeOptions())
        iface = rpcinterface.SupervisorNamespaceRPCInterface(sup)
        out = []
        nem = 0
        for op in ops:
            before = len(opts.written)
            k = op[0]
            if k == 'emit':
                iface.sendRemoteCommEvent('t', 'event %d' % nem)
                nem += 1
            elif k == 'dispatch':
                with patched_time(1000.0):
                    pool.dispatch()
            elif k in ('ready', 'ok', 'fail', 'garbage'):
                i = op[1]
                data = {'ready': b'READY\n', 'ok': b'RESULT 2\nOK', 'fail': b'RESULT 4\nFAIL', 'garbage': b'RESLT two\n'}[k]
                opts.pending[fds[i][1]] = data
                procs[i].dispatchers[fds[i][1]].handle_read_event()
            elif k == 'reap':
                with patched_time(5000.0):
                    procs[op[1]].finish(procs[op[1]].pid, 0)
            elif k == 'epipe':
                # the listener's child died (not reaped yet): writing to its stdin raises EPIPE
                opts.room = getattr(opts, 'room', {})
                opts.room[fds[op[1]][0]] = -1
            elif k == 'full':
                # the listener does not read: its stdin pipe has no room left
                opts.room = getattr(opts, 'room', {})
                opts.room[fds[op[1]][0]] = 0
            elif k == 'drain':
                # the listener reads again: the pipe is writable, the main loop calls handle_write_event
                opts.room = getattr(opts, 'room', {})
                opts.room.pop(fds[op[1]][0], None)
                d = procs[op[1]].dispatchers.get(fds[op[1]][0])
                if d is not None and d.writable():
                    d.handle_write_event()
            else:
                raise ValueError(op)
            sends = []
            for fd, data in opts.written[before:]:
                idx = [j for j in fds if fds[j][0] == fd][0]
                sends.append((idx, data))
            out.append(sends)
        return out, [getattr(e, 'serial', None) for e in pool.event_buffer]
    finally:
        events.clear()


# ------------------------------------------------------------------ ticks raised by the real main loop

def run_loop_ticks(readings):
    """The real Supervisor.runforever, one pass per reading: poll() of pass k sets
    time.time() to readings[k]; tick() later in the same pass reads it.  Returns
    per pass the (class name, when, payload) of the TickEvents raised."""
    log = []
    opts = SupOptions(log)
    sup = supervisord.Supervisor(opts)
    out = [[] for _ in readings]
    state = {'k': -1}
    saved = list(events.callbacks)
    events.subscribe(events.TickEvent, lambda e: out[state['k']].append((type(e).__name__, e.when, e.payload())))
    try:
        with patched_time(readings[0] if readings else 0.0, modules=(supervisord,)) as fake:
            def mk(k):
                def chunk():
                    state['k'] = k
                    fake.now = readings[k]
                return chunk
            opts.poller = ScriptPoller([mk(k) for k in range(len(readings))])
            try:
                sup.runforever()
            except ScriptEnd:
                pass
    finally:
        events.callbacks[:] = saved
    return out


# ------------------------------------------------------------------ PROCESS_LOG through the real output dispatcher

def run_log_events(reads, channel='stdout', enabled=True, pname='worker', gname='grp', pid=3131):
    """A real POutputDispatcher without capture; returns the PROCESS_LOG events
    raised per read as [(class name, payload text, data bytes)]."""
    from supervisor import loggers
    saved = list(events.callbacks)
    try:
        opts = AnsweringOptions()
        opts.getLogger = loggers.getLogger
        opts.loglevel = loggers.LevelsByName.INFO
        opts.strip_ansi = False
        cfg = FakePConfig(opts, pname)
        for ch in ('stdout', 'stderr'):
            setattr(cfg, ch + '_logfile', None)
            setattr(cfg, ch + '_logfile_maxbytes', 0)
            setattr(cfg, ch + '_logfile_backups', 0)
            setattr(cfg, ch + '_syslog', False)
            setattr(cfg, ch + '_events_enabled', enabled and ch == channel)
            setattr(cfg, ch + '_capture_maxbytes', 0)
        proc = cfg.make_process(FakeGroup(gname) if gname is not None else None)
        proc.pid = pid
        etype = events.ProcessCommunicationStdoutEvent if channel == 'stdout' else events.ProcessCommunicationStderrEvent
        disp = dispatchers.POutputDispatcher(proc, etype, 9)
        got = []
        events.subscribe(events.Event, got.append)
        out = []
        for r in reads:
            opts.pending[9] = r
            n = len(got)
            disp.handle_read_event()
            disp.closed = False
            out.append([(type(e).__name__, e.payload(), e.data) for e in got[n:]])
        return out
    finally:
        events.callbacks[:] = saved


# ------------------------------------------------------------------ event types registered at run time

def make_extension_class(k):
    """A plug-in's event type: subclass of Event with its own payload."""
    def payload(self):
        return 'ext:%d' % k
    return type('Ext%dEvent' % k, (events.Event,), {'payload': payload})


def run_register_history(ops):
    """ops: ('raise_builtin',) - a built-in event (TICK_5) is raised and enveloped |
            ('register', name, k) - events.register(name, extension class k) |
            ('raise_ext', k)      - an instance of extension class k is raised.
    One real pool subscribed to EVENT receives everything.  Returns per raise
    (eventname bytes from the header, payload bytes), read at byte level; the
    registrations are undone afterwards."""
    events.clear()
    process.GlobalSerial.serial = -1
    added = []
    classes = {}
    try:
        pool, opts = make_pool('supervisor', 'pool', pool_events=[events.Event])
        out = []
        for op in ops:
            if op[0] == 'register':
                cls = classes.setdefault(op[2], make_extension_class(op[2]))
                if not hasattr(events.EventTypes, op[1]):
                    added.append(op[1])
                events.register(op[1], cls)
                continue
            if op[0] == 'raise_builtin':
                ev = events.Tick5Event(5, None)
            else:
                cls = classes.setdefault(op[1], make_extension_class(op[1]))
                ev = cls()
            data, exc, serial, ps = pool_send(pool, opts, ev)
            out.append((data, exc))
        return out
    finally:
        for name in added:
            try:
                delattr(events.EventTypes, name)
            except AttributeError:
                pass
        events.clear()


# ------------------------------------------------------------------ output held back at reap time, flushed by the real finish()

def run_finish_flush(state, pid, held_out, held_err, sts, killing=False, laststart=100.0, startsecs=1,
                     exitcodes=(0,), now=200.0, capmax=100, events_enabled=True, pname='worker', gname='grp'):
    """A real Subprocess with real POutputDispatchers on stdout and stderr
    (capture enabled, so short output is held back waiting for a possible token);
    the child writes held_out / held_err and is then reaped by the real
    Subprocess.finish(pid, sts).  Returns (raised AssertionError?, [(class name,
    payload rendered AFTER finish returned)], state, pid after)."""
    from supervisor import loggers
    saved = list(events.callbacks)
    try:
        opts = AnsweringOptions()
        opts.getLogger = loggers.getLogger
        opts.loglevel = loggers.LevelsByName.INFO
        opts.strip_ansi = False
        cfg = FakePConfig(opts, pname, startsecs=startsecs, exitcodes=exitcodes)
        for ch in ('stdout', 'stderr'):
            setattr(cfg, ch + '_logfile', None)
            setattr(cfg, ch + '_logfile_maxbytes', 0)
            setattr(cfg, ch + '_logfile_backups', 0)
            setattr(cfg, ch + '_syslog', False)
            setattr(cfg, ch + '_events_enabled', events_enabled)
            setattr(cfg, ch + '_capture_maxbytes', capmax)
        proc = cfg.make_process(FakeGroup(gname) if gname is not None else None)
        proc.state = state
        proc.pid = pid
        proc.killing = killing
        proc.laststart = laststart
        d_out = dispatchers.POutputDispatcher(proc, events.ProcessCommunicationStdoutEvent, 11)
        d_err = dispatchers.POutputDispatcher(proc, events.ProcessCommunicationStderrEvent, 12)
        proc.dispatchers = {11: d_out, 12: d_err}
        proc.pipes = {'stdout': 11, 'stderr': 12, 'stdin': None}
        got = []
        events.subscribe(events.Event, got.append)
        for fd, data, d in ((11, held_out, d_out), (12, held_err, d_err)):
            if data:
                opts.pending[fd] = data
                d.handle_read_event()
        before = len(got)
        raised = False
        with patched_time(now):
            try:
                proc.finish(pid, sts)
            except AssertionError:
                raised = True
        return raised, render_events(got[:before]), render_events(got[before:]), proc.state, proc.pid
    finally:
        events.callbacks[:] = saved


# ------------------------------------------------------------------ a listener's stdin pipe with finite room

def run_pipe(ops):
    """One real listener Subprocess with a real PInputDispatcher over a pipe with
    finite room.  ops: ('write', bytes, room) - Subprocess.write(bytes) while the
    pipe has `room` free bytes | ('drain', room) - handle_write_event().
    Returns (bytes accepted by the pipe, bytes left in input_buffer, exception
    name of the first call that raised or None)."""
    opts = AnsweringOptions()
    cfg = FakePConfig(opts, 'listener')
    proc = cfg.make_process(None)
    proc.state = ProcessStates.RUNNING
    proc.pid = 4242
    proc.pipes = {'stdin': 7}
    d = dispatchers.PInputDispatcher(proc, 'stdin', 7)
    proc.dispatchers = {7: d}
    opts.room = {}
    exc = None
    for op in ops:
        try:
            if op[0] == 'write':
                opts.room[7] = op[2]
                proc.write(op[1])
            else:
                opts.room[7] = op[1]
                if d.writable():
                    d.handle_write_event()
        except Exception as e:
            exc = exc or type(e).__name__
    return b''.join(x for _, x in opts.written), d.input_buffer, exc
