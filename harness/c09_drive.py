"""C09 correspondence driver: real EventListenerPool objects (a recording
subclass that calls the real methods), real Subprocess listeners, real
events.notify/subscribe; listeners are simulated by scripting their stdout
bytes and capturing their stdin (c10_env seam).

Operations (JSON-able):
  ['emit', ClassName]                       events.notify(a new event of that class)
  ['feed', pi, i, bytes]  ['writable', pi, i, w]
  ['spawn', pi, i, pid]  ['running', pi, i]  ['stop', pi, i]  ['finish', pi, i, last, w]
  ['dispatch', pi, [[w per listener] per _dispatchEvent call]]   pool.dispatch()
  ['transition', pi, [[w...]...]]                                  pool.transition()
"""
import re
import sys

import c10_env as env
from c10_env import events, sprocess, sdisp, ProcessStates, EventListenerStates
from vlib import zlit, bytes_lit, blit, coq_opt, coq_list

HEADER = re.compile(br'^ver:3\.0 server:(\S+) serial:(\d+) pool:(\S+) poolserial:(\d+) eventname:(\S+) len:(\d+)$')


class DummyProcess(object):
    """stands for the subject of ProcessLog/ProcessCommunication/ProcessState events"""
    pid = 1
    backoff = 0
    group = None

    class config:
        name = 'subject'


def make_event(cls):
    n = cls.__name__
    if issubclass(cls, events.ProcessStateEvent):
        return cls(DummyProcess(), ProcessStates.STOPPED)
    if issubclass(cls, (events.ProcessLogEvent, events.ProcessCommunicationEvent)):
        return cls(DummyProcess(), 1, b'x')
    if issubclass(cls, events.RemoteCommunicationEvent):
        return cls('t', 'd')
    if issubclass(cls, events.TickEvent):
        return cls(0, None)
    if issubclass(cls, events.ProcessGroupEvent):
        return cls('g')
    return cls()


class RecPool(sprocess.EventListenerPool):
    """the real pool; _acceptEvent calls are recorded, then executed by the real method"""
    rec = None
    index = None

    def _acceptEvent(self, event, head=False):
        before = list(self.event_buffer)
        sprocess.EventListenerPool._acceptEvent(self, event, head)
        after = list(self.event_buffer)
        if self.rec is not None:
            self.rec(self, event, head, before, after)


class RecPoolConfig(env.EventListenerPoolConfig):
    """the real pool configuration; make_group (called by Supervisor.add_process_group) builds the recording pool"""
    _world = None
    _index = None

    def make_group(self):
        w = self._world
        w._ensure_recorders()                    # events.clear() of a new daemon life removed them
        w.effs.append('ERegroup %d' % self._index)
        g = RecPool(self)
        g.rec = w._on_accept
        g.index = self._index
        return g


class World(object):
    def __init__(self, pool_cfgs, handler_kind=0, gserial=-1, strip_ansi=False):
        """pool_cfgs: list of (pool_events class-name list, buffer_size, nlisteners, initial pool serial, priority[, process-name prefix])"""
        self.options = env.fresh_world()
        self.options.strip_ansi = bool(strip_ansi)
        sprocess.GlobalSerial.serial = gserial
        self.effs = []
        self.cur = None
        self.next_vid = 1
        self.table = []          # event objects in creation order
        self.nerrors = 0
        base = sdisp.default_handler if handler_kind == 0 else env.test_handler

        def handler(event, response):
            base(event, response)
            if event is not None:
                self.effs.append('EAcked %d %d %s' % (self.cur[0], self.cur[1], zlit(event.vid)))
        # recorders first, so that they run before the pools' callbacks
        self._ensure_recorders()
        from supervisor.supervisord import Supervisor
        self.sup = Supervisor(self.options)      # the real add_process_group / remove_process_group
        self.handler = handler
        self.cfgs = pool_cfgs                    # grows when a pool is added
        self.names = []
        self.pserial = {}                        # (vid, pool index) -> poolserial, in order of assignment
        self.pools = []
        for k, c in enumerate(list(pool_cfgs)):
            subs, bufsize, nl, pserial, prio = c[:5]
            # optional 6th field: process-name prefix shared with other pools (names are unique per group
            # only).  Pools with shared names get distinct process priorities, pools with distinct names
            # share the priority 999, so that each way of confusing listeners of two pools occurs alone.
            prefix = c[5] if len(c) > 5 and c[5] else None
            classes = [getattr(events, n) for n in subs]
            p = env.Pool(self.options, 'p%d' % k, nl, buffer_size=bufsize, pool_events=classes, handler=handler,
                         priority=prio, proc_priority=(800 + k) if prefix else 999, group_class=RecPool,
                         proc_prefix=prefix)
            p.group.rec = self._on_accept
            p.group.index = k
            p.group.serial = pserial
            self.pools.append(p)
            self.names.append('p%d' % k)
            self.sup.process_groups['p%d' % k] = p.group
        self.errors_seen = 0

    # ---- recorders
    def _ensure_recorders(self):
        for entry in ((events.EventRejectedEvent, self._on_rejected), (events.Event, self._on_event)):
            if entry not in events.callbacks:
                events.callbacks.insert(0, entry)

    def _vid(self, ev):
        if not hasattr(ev, 'vid'):
            ev.vid = self.next_vid
            self.next_vid += 1
            self.table.append(ev)
        return ev.vid

    def _on_event(self, ev):
        self._vid(ev)

    def _on_rejected(self, rej):
        for pi, pool in enumerate(self.pools):
            for i, p in enumerate(pool.procs):
                if p is rej.process:
                    self.effs.append('ERejected %d %d %s' % (pi, i, coq_opt(zlit(rej.event.vid)) if rej.event is not None else 'None'))

    def _on_accept(self, group, event, head, before, after):
        pi = group.index
        vid = self._vid(event)
        if (vid, pi) not in self.pserial:
            self.pserial[(vid, pi)] = event.pool_serials[group.config.name]
        self.effs.append(('ERebuffered %d %s' if head else 'EOffered %d %s') % (pi, zlit(vid)))
        keep = ([event] + before) if head else (before + [event])
        if not _same(after, keep):
            drop = ([event] + before[1:]) if head else (before[1:] + [event])
            if before and _same(after, drop):
                self.effs.append('EDiscard %d %s' % (pi, zlit(before[0].vid)))
            else:
                self.effs.append('ERaise (* unexplained buffer change *)')

    # ---- operations
    def apply(self, op):
        self.effs = []
        self.skipped = False
        kind = op[0]
        nerr0 = len([1 for lv, _ in self.options.logger.lines if lv == 'error'])
        try:
            r = self._apply(op)
        except BaseException as e:   # judged by the monitor: nothing may escape from these entry points
            r = list(self.effs) + ['ERaise (* %s escaped from %s *)' % (type(e).__name__, kind)]
        nerr1 = len([1 for lv, _ in self.options.logger.lines if lv == 'error'])
        ndisc = len([1 for e in r if e.startswith(('EDiscard', 'EWriteError'))])
        self.discard_log_mismatch = (nerr1 - nerr0) != ndisc
        return r

    def _apply(self, op):
        kind = op[0]
        if kind == 'emit':
            ev = make_event(getattr(events, op[1]))
            self._vid(ev)
            events.notify(ev)
            return list(self.effs)
        pi = op[1] if len(op) > 1 else None
        if kind == 'remove':
            if pi >= len(self.pools) or self.sup.process_groups.get(self.names[pi]) is not self.pools[pi].group:
                return ['EInapplicable']
            try:
                r = self.sup.remove_process_group(self.names[pi])
            except BaseException as e:   # judged by the monitor: a removal attempt must not raise
                return ['ERaise (* remove_process_group raised %s *)' % type(e).__name__] + list(self.effs)
            return ['ERegroup %d' % pi if r else 'ERefused %d' % pi] + list(self.effs)
        if kind == 'add':
            # add (again) a pool configured like pool pi, under the same name: a new pool object
            if pi >= len(self.pools) or self.names[pi] in self.sup.process_groups:
                return ['EInapplicable']
            c = self.cfgs[pi]
            subs, bufsize, nl, _ps, prio = c[:5]
            prefix = c[5] if len(c) > 5 and c[5] else None
            k = len(self.pools)

            def maker(gcfg):
                gcfg._world, gcfg._index = self, k
                assert self.sup.add_process_group(gcfg)
                return self.sup.process_groups[gcfg.name]
            p = env.Pool(self.options, self.names[pi], nl, buffer_size=bufsize,
                         pool_events=[getattr(events, n) for n in subs], handler=self.handler, priority=prio,
                         proc_priority=(800 + k) if prefix else 999, proc_prefix=prefix,
                         gconfig_class=RecPoolConfig, maker=maker)
            self.pools.append(p)
            self.names.append(self.names[pi])
            self.cfgs.append(tuple(c[:3]) + (-1,) + tuple(c[4:]))
            return list(self.effs)
        if kind == 'restart':
            # a new daemon life in the same process: a new Supervisor runs the real run() over the same
            # configuration (new config, pool and listener objects); runforever returns at once
            from supervisor.supervisord import Supervisor
            live = [k for k in range(len(self.pools))
                    if self.sup.process_groups.get(self.names[k]) is self.pools[k].group]
            newpools = []
            for src in live:
                c = self.cfgs[src]
                subs, bufsize, nl, _ps, prio = c[:5]
                prefix = c[5] if len(c) > 5 and c[5] else None
                k = len(self.pools) + len(newpools)
                p = env.Pool(self.options, self.names[src], nl, buffer_size=bufsize,
                             pool_events=[getattr(events, n) for n in subs], handler=self.handler, priority=prio,
                             proc_priority=(800 + k) if prefix else 999, proc_prefix=prefix,
                             gconfig_class=RecPoolConfig, defer=True)
                p.gconfig._world, p.gconfig._index = self, k
                newpools.append((src, p))
            self.options.process_group_configs = [p.gconfig for _, p in newpools]
            sup = Supervisor(self.options)
            sup.runforever = lambda: None
            sup.run()
            self.sup = sup
            for src, p in newpools:
                p.attach(sup.process_groups[p.gconfig.name])
                self.pools.append(p)
                self.names.append(self.names[src])
                self.cfgs.append(tuple(self.cfgs[src][:3]) + (-1,) + tuple(self.cfgs[src][4:]))
            self.restarted = [src for src, _ in newpools]
            return list(self.effs)
        if pi >= len(self.pools):
            return ['EInapplicable']
        if self.sup.process_groups.get(self.names[pi]) is not self.pools[pi].group:
            # the pool was removed: its objects are unreachable for supervisord, nothing can happen to them
            self.skipped = True
            return ['EInapplicable']
        pool = self.pools[pi]
        if kind in ('dispatch', 'transition'):
            return self._dispatch(pool, pi, kind, op[2])
        i = op[2]
        if i >= len(pool.procs):
            return ['EInapplicable']
        self.cur = (pi, i)
        try:
            if kind == 'feed':
                ok = pool.op_feed(i, bytes(op[3]))
                return list(self.effs) if ok else ['EInapplicable']
            if kind == 'writable':
                r = pool.op_writable(i, tuple(op[3]))
                return ['ERaise'] if r == 'raise' else []
            if kind == 'spawn':
                return list(self.effs) if pool.op_spawn(i, op[3]) else ['EInapplicable']
            if kind == 'running':
                return list(self.effs) if pool.op_running(i) else ['EInapplicable']
            if kind == 'stop':
                return list(self.effs) if pool.op_stop(i) else ['EInapplicable']
            if kind == 'stopfail':
                return list(self.effs) if pool.op_stopfail(i) else ['EInapplicable']
            if kind == 'finish':
                r = pool.op_finish(i, bytes(op[3]), tuple(op[4]), False)
                if r is False:
                    return ['EInapplicable']
                return list(self.effs) + (['ERaise'] if r == 'raise' else [])
        except RecursionError:
            return list(self.effs) + ['ERaise']
        raise ValueError(op)

    def _dispatch(self, pool, pi, kind, wss):
        """pool.dispatch() / pool.transition() with one oracle list per _dispatchEvent call"""
        group = pool.group
        calls = [0]
        real = sprocess.EventListenerPool._dispatchEvent
        world = self

        def wrapped(event):
            ws = wss[calls[0]] if calls[0] < len(wss) else []
            calls[0] += 1
            for i, p in enumerate(pool.procs):
                if pool.pipe(p) is not None:
                    pool.pipe(p).outcome = tuple(ws[i]) if i < len(ws) else ('room', env.BIG)
            del pool.write_log[:]
            pool.last_env = None
            try:
                return real(group, event)
            finally:
                for i, res in pool.write_log:
                    if res == 'ok':
                        world.effs.append(world._sent_term(pi, i, event, pool.sent_bytes[-1]))
                    elif res == 'epipe':
                        world.effs.append('EEpipe %d %d' % (pi, i))
                    else:
                        # OSError other than EPIPE/EAGAIN: caught and logged by dispatch()
                        world.effs.append('EWriteError %d' % pi)
        group._dispatchEvent = wrapped
        try:
            if kind == 'dispatch':
                group.dispatch()
            else:
                group.transition()
        except OSError:
            pass
        finally:
            del group._dispatchEvent
        return list(self.effs)

    def _sent_term(self, pi, i, event, raw):
        head, _, rest = raw.partition(b'\n')
        m = HEADER.match(head)
        if not m:
            return 'ERaise (* unparsable envelope *)'
        sid, serial, pname, pserial, ename, ln = m.groups()
        cls = getattr(events.EventTypes, ename.decode(), None)
        ok = (pname.decode() == self.names[pi] and cls is not None and len(rest.decode('utf-8')) == int(ln))
        if not ok:
            return 'ERaise (* envelope header inconsistent *)'
        return 'ESent %d %d %s %s %s T_%s' % (pi, i, zlit(event.vid), zlit(int(serial)), zlit(int(pserial)), cls.__name__)

    # ---- observation
    def obs(self):
        pools = []
        for pool in self.pools:
            g = pool.group
            ls = []
            for p in pool.procs:
                si = pool.stdin_disp(p)
                ls.append('(%s, %s, %s, %s)' % (
                    env.PS_NAMES[p.state], env.LS_NAMES.get(p.listener_state, 'ACK'),
                    coq_opt(zlit(p.event.vid)) if p.event is not None else 'None',
                    zlit(_units(si.input_buffer) if si is not None else 0)))
            pools.append('(%s, %s, %s)' % (coq_list([zlit(e.vid) for e in g.event_buffer]), zlit(g.serial), coq_list(ls)))
        return '(%s, %s)' % (coq_list(pools), zlit(sprocess.GlobalSerial.serial))

    def raw(self):
        return tuple((tuple(e.vid for e in pool.group.event_buffer), pool.group.serial,
                      tuple((p.state, p.listener_state, getattr(p.event, 'vid', None)) for p in pool.procs))
                     for pool in self.pools)

    def table_term(self):
        out = []
        for ev in self.table:
            ps = [(pi, v) for (vid, pi), v in self.pserial.items() if vid == ev.vid]
            out.append('(%s, %s, %s)' % (
                zlit(ev.vid), coq_opt(zlit(ev.serial)) if hasattr(ev, 'serial') else 'None',
                coq_list(['(%d%%nat, %s)' % (pi, zlit(v)) for pi, v in ps])))
        return coq_list(out)


def _same(a, b):
    return len(a) == len(b) and all(x is y for x, y in zip(a, b))


def _units(buf):
    """number of envelopes waiting in an input_buffer, in the model's unit (4 numbers per envelope)"""
    n = 0
    rest = buf
    while rest:
        head, nl, tail = rest.partition(b'\n')
        m = HEADER.match(head)
        if not m or not nl:
            return -1
        ln = int(m.group(6))
        body = tail.decode('utf-8')[:ln].encode('utf-8')
        rest = tail[len(body):]
        n += 1
    return 4 * n


def parse_envelopes(raw):
    """captured stdin bytes -> list of (serial, pool, poolserial, eventname); None if not whole envelopes"""
    out = []
    rest = raw
    while rest:
        head, nl, tail = rest.partition(b'\n')
        m = HEADER.match(head)
        if not m or not nl:
            return None
        ln = int(m.group(6))
        body = tail.decode('utf-8')[:ln].encode('utf-8')
        if len(body.decode('utf-8')) != ln:
            return None
        rest = tail[len(body):]
        out.append((int(m.group(2)), m.group(3).decode(), int(m.group(4)), m.group(5).decode()))
    return out
