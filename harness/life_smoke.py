import sys, random, time
sys.path[:0]=['/verif/lib','/verif/harness']
import vlib; vlib.ensure_impl_path()
import life_driver, life_gen
rng=random.Random(int(sys.argv[1]) if len(sys.argv)>1 else 1)
N=int(sys.argv[2]) if len(sys.argv)>2 else 300
t0=time.time()
cases=[];scripts=[]
for i in range(N):
    s=life_gen.random_script(rng)
    r=life_driver.run_script(s)
    scripts.append((s,r))
    cases.append(life_gen.case_term(s,r))
print('impl',time.time()-t0, sum(1 for s,r in scripts if r['ended']=='crash'),'crashes', sum(1 for s,r in scripts if r['ended']=='exit'),'exits')
with vlib.WorkDir('t2') as wd:
    t0=time.time()
    bad,errs=vlib.coq_compare(life_gen.IMPORTS,'lcase','check_case',cases,wd,preamble=life_gen.PREAMBLE,shard=100)
    print('coq',time.time()-t0,len(bad),errs[:1])
    import json
    for i in bad[:3]:
        s,r=scripts[i]
        print(json.dumps(s))
        v,out=vlib.coq_eval(life_gen.IMPORTS,'model_answer %s'%cases[i],wd,preamble=life_gen.PREAMBLE)
        ms=v[v.index('], [')+3:]
        mt=[x.strip() for x in ms.strip('[]() ').split(';')]
        it=[life_gen.effect_term(e).strip('()').replace('%nat','') for e in r['trace']]
        mt=[x.replace('%nat','').replace('(','').replace(')','') for x in mt]
        it=[x.replace('(','').replace(')','') for x in it]
        for k in range(max(len(mt),len(it))):
            a=mt[k] if k<len(mt) else None; b=it[k] if k<len(it) else None
            if a!=b:
                print('first trace diff at',k,'model:',mt[max(0,k-3):k+3],'impl:',it[max(0,k-3):k+3]); break
        else:
            print('traces equal; snaps differ'); print(v[:v.index('], [')][-600:]); print(r['snaps'][-3:])
        print(r['crash'])
