"""Run one lifecycle script against the REAL supervisor code on the simulated
kernel and return the boundary snapshots and the effect trace, in the same
vocabulary as coq/Life/Model.v.

script = {
  'U': ticks per second (clock readings are now/U seconds),
  'procs': [ {startsecs, startretries, stopwaitsecs, stopsignal, priority, autostart,
              autorestart: 0|1|2 (never|unexpected|always), exitcodes: [..], stopasgroup,
              killasgroup, cmd: 0|1|2 (ok|notfound|notexec), group: g} ],
  'groups': [ {priority, procs:[indices]} ],
  'ops': [ {now, acts:[...], forkq:[...], killq:[...]} ],
}
acts: ['exit',k,code] ['sigdie',k,sig] ['unknown',sts] ['signal',s] ['poll']
      ['rpc',req,kind,...]  kind in start(i,wait) stop(i,wait) signal(i,sig,sigok)
      startgroup(g,wait) stopgroup(g,wait) startall(wait) stopall(wait) shutdown restart
"""
import os
import sys
import simkernel
from simkernel import SimKernel, EndOfScript, RecLogger

STATE_OF_EVENT = None


def _event_tables():
    from supervisor import events
    from supervisor.states import ProcessStates as PS
    return {
        events.ProcessStateStartingEvent: PS.STARTING, events.ProcessStateRunningEvent: PS.RUNNING,
        events.ProcessStateBackoffEvent: PS.BACKOFF, events.ProcessStateStoppingEvent: PS.STOPPING,
        events.ProcessStateExitedEvent: PS.EXITED, events.ProcessStateStoppedEvent: PS.STOPPED,
        events.ProcessStateFatalEvent: PS.FATAL, events.ProcessStateUnknownEvent: PS.UNKNOWN,
    }


class FakeSelect(object):
    """Stands in for the `select` module inside supervisor.poller, so that the REAL pollers (PollPoller, SelectPoller)
    run in the loop.  Readiness is computed from the simulated kernel with Linux pipe semantics; the kernel call of a
    pass (poll()/select()) is the scheduling point where the script's next step is applied.  A 'poll' fault of the
    step makes that call fail with the given errno."""
    POLLIN, POLLPRI, POLLOUT, POLLERR, POLLHUP, POLLNVAL = 1, 2, 4, 8, 16, 32
    error = OSError

    def __init__(self, driver):
        self.d = driver

    def _schedule(self):
        import errno as _errno
        self.d.at_poll()
        q = self.d.kernel.faults.get('poll')
        if q:
            code = q.pop(0)
            if code:
                raise OSError(code, 'sim injected fault in poll')

    def _ready(self, fd):
        """(open?, readable-now, hangup, writable-now, error) of descriptor fd"""
        ent = self.d.kernel.fds.get(fd)
        if ent is None:
            return (False, False, False, False, False)
        p, mode = ent
        if mode == 'r':
            return (True, bool(p.buf), p.w_refs <= 0, False, False)
        return (True, False, False, len(p.buf) < p.capacity, p.r_refs <= 0)

    def poll(self):
        return FakePollObject(self)

    def select(self, rl, wl, xl, timeout=None):
        import errno as _errno
        self._schedule()
        r, w = [], []
        for fd in sorted(set(rl) | set(wl)):
            if not self._ready(fd)[0]:
                raise OSError(_errno.EBADF, 'sim bad descriptor in select')
        for fd in sorted(rl):
            o, rd, hup, _, _ = self._ready(fd)
            if rd or hup:
                r.append(fd)
        for fd in sorted(wl):
            o, _, _, wr, err = self._ready(fd)
            if wr or err:
                w.append(fd)
        return r, w, []


class FakePollObject(object):
    def __init__(self, mod):
        self.m = mod
        self.reg = {}

    def register(self, fd, mask=7):
        self.reg[fd] = mask

    def unregister(self, fd):
        del self.reg[fd]          # KeyError for an unregistered descriptor, as select.poll does

    def poll(self, timeout=None):
        m = self.m
        m._schedule()
        out = []
        for fd in sorted(self.reg):
            mask = self.reg[fd]
            o, rd, hup, wr, err = m._ready(fd)
            if not o:
                out.append((fd, m.POLLNVAL))
                continue
            ev = 0
            if rd and mask & m.POLLIN:
                ev |= m.POLLIN
            if hup:
                ev |= m.POLLHUP
            if wr and mask & m.POLLOUT:
                ev |= m.POLLOUT
            if err:
                ev |= m.POLLERR
            if ev:
                out.append((fd, ev))
        return out


CMD = {0: '/sim/ok', 1: '/sim/missing', 2: '/sim/noexec', 3: '/sim/noperm', 4: '/sim/dir', 5: 'sim/rel/ok', 6: 'simcmd'}   # 5: relative, used as given


class Driver(object):
    def __init__(self, script, listeners=False):
        self.script = script
        self.kernel = SimKernel()
        if 'path' in script:
            # the daemon's $PATH: None = unset, '' = set but empty (both mean the default search path)
            env = dict((k_, v_) for k_, v_ in os.environ.items() if k_ != 'PATH')
            if script['path'] is not None:
                env['PATH'] = script['path']
            self.kernel.environ = env
        self.U = float(script['U'])
        self.snaps = []
        self.pending = []     # deferred RPC answers: (req, kind, Deferred-callable)
        self.multicall_errors = getattr(self, 'multicall_errors', [])
        self.opi = 0
        self.ended = None
        self.hooks = []       # extra per-poll hooks (output harnesses)

    # ---------------------------------------------------------- set-up
    def build(self, second=False):
        from supervisor.options import ServerOptions, ProcessConfig, ProcessGroupConfig
        from supervisor import events, rpcinterface, datatypes
        from supervisor.supervisord import Supervisor
        from supervisor.states import SupervisorStates
        if not second:
            self.undo = simkernel.install(self.kernel)
        opts = ServerOptions()
        opts.logger = RecLogger(self._logged)
        if self.script.get('mainlog') and self.script.get('logdir'):
            # the REAL activity logger (rotating file handler with the script's maxbytes/backups) plus a recording
            # handler: an exception raised by the logger itself is then an exception of the main loop
            from supervisor import loggers
            ml = self.script['mainlog']
            lg = loggers.getLogger(loggers.LevelsByName.INFO)
            loggers.handle_file(lg, os.path.join(self.script['logdir'], 'supervisord.log'),
                                '%(asctime)s %(levelname)s %(message)s\n', rotating=bool(ml.get('maxbytes', 0)),
                                maxbytes=ml.get('maxbytes', 0), backups=ml.get('backups', 0))
            sink = self._logged

            class _Rec(loggers.Handler):
                def emit(self, record):
                    d = record.asdict()
                    sink(d['levelname'], d['message'])
            h = _Rec()
            h.setLevel(lg.level)
            lg.addHandler(h)
            opts.logger = lg
        import supervisor.poller as spoller
        if not second:
            self._saved_select = (spoller, spoller.select)
        spoller.select = FakeSelect(self)
        opts.poller = (spoller.SelectPoller if self.script.get('poller') == 'select' else spoller.PollPoller)(opts)
        opts.mood = SupervisorStates.RUNNING
        opts.test = False
        opts.minfds = 5
        opts.loglevel = 20
        opts.strip_ansi = False
        opts.identifier = 'sim'
        opts.serverurl = None
        opts.pidhistory = {}
        self.options = opts
        self.pcfgs = []
        AR = {0: False, 1: datatypes.RestartWhenExitUnexpected, 2: datatypes.RestartUnconditionally}
        logdir = self.script.get('logdir')
        for i, c in enumerate(self.script['procs']):
            cap = c.get('capture', 0)
            lf = (lambda ch: os.path.join(logdir, 'p%d.%s.log' % (i, ch))) if logdir else (lambda ch: None)
            pc = ProcessConfig(
                opts, name='p%d' % i, uid=None, command=CMD[c['cmd']], directory=None, umask=None,
                priority=c['priority'], autostart=bool(c['autostart']), autorestart=AR[c['autorestart']],
                startsecs=c['startsecs'], startretries=c['startretries'],
                stdout_logfile=lf('out'), stdout_capture_maxbytes=cap, stdout_events_enabled=bool(c.get('events', 0)),
                stdout_syslog=False, stdout_logfile_backups=c.get('backups', 0), stdout_logfile_maxbytes=c.get('maxbytes', 0),
                stderr_logfile=lf('err'), stderr_capture_maxbytes=cap, stderr_logfile_backups=c.get('backups', 0), stderr_logfile_maxbytes=c.get('maxbytes', 0),
                stderr_events_enabled=bool(c.get('events', 0)), stderr_syslog=False,
                stopsignal=c['stopsignal'], stopwaitsecs=c['stopwaitsecs'], stopasgroup=bool(c['stopasgroup']),
                killasgroup=bool(c['killasgroup']), exitcodes=list(c['exitcodes']), redirect_stderr=False)
            self.pcfgs.append(pc)
        gcfgs = []
        for g, gc in enumerate(self.script['groups']):
            gcfgs.append(ProcessGroupConfig(opts, 'g%d' % g, gc['priority'], [self.pcfgs[i] for i in gc['procs']]))
        # optional event-listener pools (outside the Coq lifecycle model: monitor-judged scripts only)
        self.listener_pids = {}
        from supervisor.options import EventListenerConfig, EventListenerPoolConfig
        from supervisor.dispatchers import default_handler
        self.lcfgs = []
        for k, pool in enumerate(self.script.get('pools', [])):
            lp = []
            for j in range(pool.get('procs', 1)):
                lc = EventListenerConfig(
                    opts, name='l%d_%d' % (k, j), uid=None, command='/sim/ok', directory=None, umask=None,
                    priority=999, autostart=True, autorestart=AR[2], startsecs=0, startretries=3,
                    stdout_logfile=None, stdout_capture_maxbytes=0, stdout_events_enabled=False, stdout_syslog=False,
                    stdout_logfile_backups=0, stdout_logfile_maxbytes=0,
                    stderr_logfile=None, stderr_capture_maxbytes=0, stderr_logfile_backups=0, stderr_logfile_maxbytes=0,
                    stderr_events_enabled=False, stderr_syslog=False,
                    stopsignal=15, stopwaitsecs=1, stopasgroup=False, killasgroup=False, exitcodes=[0], redirect_stderr=False)
                lp.append(lc)
                self.lcfgs.append(lc)
            evs = [getattr(events.EventTypes, n) for n in pool.get('events', ['EVENT'])]
            gcfgs.append(EventListenerPoolConfig(opts, 'pool%d' % k, pool.get('priority', 1), lp, pool.get('buffer', 10), evs,
                                                 default_handler))
        opts.process_group_configs = gcfgs
        self.sup = Supervisor(opts)
        self.etab = _event_tables()
        self.procs = [None] * (len(self.pcfgs) + len(self.lcfgs))
        self.kernel.fork_owner = self._fork_owner
        self.rpc = rpcinterface.SupervisorNamespaceRPCInterface(self.sup)
        if second:
            # the second life of a restarted daemon goes through the REAL Supervisor.run(): it clears the module-global
            # subscriptions, adds the configured groups, installs the signal handlers and enters runforever()
            opts.first = False
            opts.nodaemon = True
            opts.server_configs = []
            opts.httpservers = []
            opts.pidfile = os.path.join(self.script.get('logdir') or '/verif/_work', 'supervisord.pid')
            self._need_bind = True
            return
        events.clear()
        events.subscribe(events.ProcessStateEvent, self._on_pstate)
        events.subscribe(events.SupervisorStateChangeEvent, self._on_sstate)
        for g, cfg in enumerate(gcfgs):
            if g >= len(self.script['groups']) or self.script['groups'][g].get('initial', 1):
                self.sup.add_process_group(cfg)
        self._bind_procs()
        opts.setsignals()            # Supervisor.run() does this before runforever()

    def _bind_procs(self):
        for i in range(len(self.pcfgs)):
            g = self.script['procs'][i]['group']
            grp = self.sup.process_groups.get('g%d' % g)
            self.procs[i] = grp.processes['p%d' % i] if grp is not None else None
        # listener processes follow the ordinary ones: index len(pcfgs)+n (scripts with pools are monitor-judged only)
        n = len(self.pcfgs)
        for lc in self.lcfgs:
            grp = self.sup.process_groups.get(lc.name.split('_')[0].replace('l', 'pool'))
            self.procs[n] = grp.processes[lc.name] if grp is not None else None
            n += 1

    # ---------------------------------------------------------- observers
    def _owner_from_stack(self):
        from supervisor.process import Subprocess
        f = sys._getframe(2)
        while f is not None:
            s = f.f_locals.get('self')
            if isinstance(s, Subprocess):
                try:
                    return self.procs.index_identity(s)
                except AttributeError:
                    for i, p in enumerate(self.procs):
                        if p is s:
                            return i
                    return -1
            f = f.f_back
        return -1

    def _fork_owner(self):
        return self._owner_from_stack()

    def _logged(self, level, msg):
        if msg.startswith('spawnerr: '):
            who = self._owner_from_stack()
            m = msg[len('spawnerr: '):]
            if m.startswith("can't find command") or m.startswith('command at') or m.startswith('no permission') \
                    or m.startswith("can't parse") or m.startswith('command is empty'):
                kind = 1
            elif m.startswith('too many open files') or m.startswith('unknown error making dispatchers'):
                kind = 2
            elif m.startswith('Too many processes') or m.startswith('unknown error during fork'):
                kind = 3
            else:
                kind = 0
            if kind:
                self.kernel.trace.append(('spawnfail', who, kind))

    def _on_pstate(self, ev):
        who = -1
        for i, p in enumerate(self.procs):
            if p is ev.process:
                who = i
        to = self.etab.get(ev.__class__, -1)
        xv = dict(ev.extra_values)
        x = xv.get('tries', xv.get('pid', 0))
        self.kernel.trace.append(('state', who, ev.from_state, to, int(x), bool(ev.expected)))

    def _on_sstate(self, ev):
        from supervisor import events
        self.kernel.trace.append(('sup', 1 if isinstance(ev, events.SupervisorRunningEvent) else 2))

    # ---------------------------------------------------------- the scheduling point
    def snapshot(self):
        k = self.kernel
        # what the API reports at this boundary (supervisor.getAllProcessInfo; refused while the daemon shuts down)
        from supervisor.xmlrpc import RPCError
        try:
            api = [[d['group'], d['name'], d['state'], d['statename'], d['pid']] for d in self.rpc.getAllProcessInfo()]
        except RPCError as e:
            api = ['fault', e.code]
        except Exception as e:
            api = ['error', '%s: %s' % (type(e).__name__, e)]
        return {
            'api': api,
            'procs': [((p.get_state(), p.pid) if p is not None else (0, 0)) for p in self.procs],
            'live': list(k.live), 'zombies': [z[0] for z in k.zombies],
            'hist': sorted(self.options.pidhistory.keys()), 'mood': self.options.mood,
        }

    def at_poll(self):
        ops = self.script['ops']
        if self.opi >= len(ops):
            raise EndOfScript()
        if getattr(self, '_need_bind', False):
            self._need_bind = False
            self._bind_procs()
            self._judge_subscriptions()
        self.snaps.append(self.snapshot())
        op = ops[self.opi]
        self.opi += 1
        k = self.kernel
        k.now = op['now'] / self.U
        k.trace.append(('pass', self.opi - 1, op['now']))      # harness marker, not an effect
        k.forkq = list(op.get('forkq', []))
        k.killq = list(op.get('killq', []))
        k.faults = dict((name, list(q)) for name, q in op.get('faults', {}).items())
        for (ck, chan, data) in op.get('outputs', []):
            data = bytes(data)
            if self.script.get('marks') and k.live:
                # a plain marker line naming the process whose child writes: it may only ever show up in that
                # process's own log files (judged at the end of the run)
                data += b'\nMARK-p%d-\n' % k.owner_of.get(k.live[ck % len(k.live)], -1)
            k.child_write(ck, chan, data)
        for a in op['acts']:
            self.do_act(a)
        k.trace.append(('endacts', self.opi - 1))              # harness marker: what follows comes from the loop itself
        self._listeners(op)
        for h in self.hooks:
            h(self, op)

    def _listeners(self, op):
        """Simulated event listeners: every live child of a listener process announces READY once and answers each
        envelope it finds on its stdin with RESULT 2\\nOK + READY (or what op['listener_reply'] says)."""
        if not self.lcfgs:
            return
        k = self.kernel
        for name, grp in self.sup.process_groups.items():
            if not name.startswith('pool'):
                continue
            for proc in grp.processes.values():
                pid = proc.pid
                if not pid or pid not in k.live or pid not in k.children_fds:
                    continue
                pipes = k.children_fds[pid]          # [(stdin pipe,'r'), (stdout pipe,'w'), (stderr pipe,'w')]
                if len(pipes) < 2:
                    continue
                stdin_p, stdout_p = pipes[0][0], pipes[1][0]
                if pid not in self.listener_pids:
                    self.listener_pids[pid] = True
                    stdout_p.buf += b'READY\n'
                if stdin_p.buf:
                    if not op.get('listener_deaf'):
                        stdin_p.buf = b''
                    stdout_p.buf += bytes(op.get('listener_reply', list(b'RESULT 2\nOKREADY\n')))

    def _answer(self, req, res):
        # res: ('value', v) | ('fault', code)
        if req is None:
            return                      # the envelope of a system.multicall: its parts were answered one by one
        if res[0] == 'fault':
            self.kernel.trace.append(('ans', req, res[1]))
        elif isinstance(res[1], list):
            out = []
            lnames = [lc.name for lc in self.lcfgs]
            for d in res[1]:
                if d['name'] in lnames:
                    idx = len(self.pcfgs) + lnames.index(d['name'])
                else:
                    idx = int(d['name'][1:])
                out.append((idx, d['status']))
            self.kernel.trace.append(('ansall', req, out))
        else:
            self.kernel.trace.append(('ans', req, 0))

    def _xml_call(self, req, method, args):
        """The same request through the real XML-RPC handler (marshalled request body -> supervisor_xmlrpc_handler
        .continue_request -> marshalled response); a deferred response is polled once at once, like the channel does,
        and then at every 'poll' act."""
        from supervisor.xmlrpc import RPCError
        from supervisor.http import NOT_DONE_YET
        import rpcstack
        if getattr(self, '_stack_for', None) is not self.sup:
            self._stack = rpcstack.RpcStack(self.sup, [('supervisor', self.rpc)])
            self._stack_for = self.sup
        res = self._stack.call('supervisor.' + method, list(args))

        def settle(r):
            if r[0] == 'value':
                return r[1]
            if r[0] == 'fault':
                raise RPCError(r[1])
            raise RPCError(500)          # HTTP error, wrong Content-Length, no answer: reported as code 500
        if res[0] == 'deferred':
            d = res[1]

            def cb():
                r = d.poll()
                return NOT_DONE_YET if r is None else settle(r)
            self._poll_deferred(req, cb, first=True)
            return
        try:
            self._answer(req, ('value', settle(res)))
        except RPCError as e:
            self._answer(req, ('fault', e.code))

    def _call(self, req, fn, *args):
        from supervisor.xmlrpc import RPCError
        from supervisor.http import NOT_DONE_YET
        import types
        if self.script.get('xml') and getattr(fn, '__self__', None) is self.rpc:
            return self._xml_call(req, fn.__name__, args)
        try:
            v = fn(*args)
        except RPCError as e:
            self._answer(req, ('fault', e.code))
            return
        if isinstance(v, types.FunctionType):
            # deferred: the channel polls it once at once (push_with_producer -> initiate_send)
            self._poll_deferred(req, v, first=True)
        else:
            self._answer(req, ('value', v))

    def _poll_deferred(self, req, cb, first=False):
        from supervisor.xmlrpc import RPCError
        from supervisor.http import NOT_DONE_YET
        try:
            v = cb()
        except RPCError as e:
            self._answer(req, ('fault', e.code))
            return True
        if v is NOT_DONE_YET:
            if req is not None:
                self.kernel.trace.append(('polled', req))     # harness marker: the deferred answer was polled, not ready
            if first:
                self.pending.append((req, cb))
            return False
        self._answer(req, ('value', v))
        return True

    def do_act(self, a):
        k = self.kernel
        kind = a[0]
        if kind == 'exit':
            k.child_exit(a[1], (a[2] & 255) * 256)
        elif kind == 'sigdie':
            k.child_exit(a[1], a[2])
        elif kind == 'unknown':
            k.unknown_zombie(a[1])
        elif kind == 'recycled':
            k.recycled_zombie(a[1], a[2])     # monitor-judged scripts only: an unknown child with a recycled pid
        elif kind == 'jobstop':
            k.child_jobstop(a[1])       # monitor-judged scripts only: nothing may happen to the process
        elif kind == 'signal':
            # delivered the way the kernel does it: to the handler supervisord installed (ServerOptions.setsignals);
            # without one the default action applies - SIGCHLD is ignored, the others terminate the daemon
            h = k.sig_handlers.get(a[1])
            if callable(h):
                h(a[1], None)
            elif a[1] != 17:
                raise simkernel.DaemonKilled(a[1])
        elif kind == 'poll':
            todo, self.pending = self.pending, []
            keep = []
            for (req, cb) in todo:
                if not self._poll_deferred(req, cb):
                    keep.append((req, cb))
            self.pending = keep + self.pending
        elif kind in ('addgroup', 'removegroup'):
            # configuration RPCs on groups that are in the parsed configuration but not (or no longer) active;
            # scripts using them are outside the Coq lifecycle model and are judged by the monitors only
            req, g = a[2], a[1]
            k.trace.append(('req', req, kind, g, -1))
            fn = self.rpc.addProcessGroup if kind == 'addgroup' else self.rpc.removeProcessGroup
            self._call(req, fn, 'g%d' % g)
            self._bind_procs()
        elif kind == 'reread':
            # supervisor.reloadConfig() against a configuration file describing the script's programs: reading the
            # configuration again must not disturb the bookkeeping of live children (monitor-judged scripts only)
            req = a[1]
            k.trace.append(('req', req, 'reread', -1, -1))
            try:
                self.options.configfile = self._config_file(edit=len(a) > 2 and bool(a[2]))
                self.rpc.reloadConfig()
                k.trace.append(('ans', req, 0))
            except Exception as e:
                k.trace.append(('ans', req, getattr(e, 'code', 500)))
        elif kind == 'remote':
            # supervisor.sendRemoteCommEvent(type, data) with any XML-RPC value (monitor-judged scripts only); an
            # exception inside the method stays in the HTTP channel (500), it is not a main-loop failure
            req = a[1]
            k.trace.append(('req', req, 'remote', -1, -1))
            try:
                self.rpc.sendRemoteCommEvent(a[2], a[3])
                k.trace.append(('ans', req, 0))
            except Exception:
                k.trace.append(('ans', req, 500))
        elif kind == 'multicall':
            self._multicall(a[1])
        elif kind == 'rpc':
            req, what = a[1], a[2]
            k.trace.append(('req', req, what, a[3] if len(a) > 3 else -1, a[4] if len(a) > 4 else -1))   # marker
            r = self.rpc
            def name(i):
                if i < len(self.pcfgs):
                    return 'g%d:p%d' % (self.script['procs'][i]['group'], i)
                if i < len(self.pcfgs) + len(self.lcfgs):       # a listener process of a pool
                    ln = self.lcfgs[i - len(self.pcfgs)].name
                    return '%s:%s' % (ln.split('_')[0].replace('l', 'pool'), ln)
                return 'g0:nosuch'
            gname = lambda g: ('g%d' % g) if g < len(self.script['groups']) else 'nosuchgroup'
            # namespec forms: a 6th element on start/stop gives a bare process name (no group part: BAD_NAME unless a group
            # of that name exists); on startgroup/stopgroup it routes the request through startProcess/stopProcess with
            # 'group:*' (1) or 'group:' (2), which must behave exactly like the group call
            if what in ('start', 'stop') and len(a) > 5:
                self._call(req, r.startProcess if what == 'start' else r.stopProcess, 'p%d' % a[5], bool(a[4]))
            elif what in ('startgroup', 'stopgroup') and len(a) > 5 and a[5]:
                self._call(req, r.startProcess if what == 'startgroup' else r.stopProcess,
                           gname(a[3]) + (':*' if a[5] == 1 else ':'), bool(a[4]))
            elif what == 'start':
                self._call(req, r.startProcess, name(a[3]), bool(a[4]))
            elif what == 'stop':
                self._call(req, r.stopProcess, name(a[3]), bool(a[4]))
            elif what == 'signal':
                sig = str(a[4]) if a[5] else 'NOSUCHSIG'
                self._call(req, r.signalProcess, name(a[3]), sig)
            elif what == 'startgroup':
                self._call(req, r.startProcessGroup, gname(a[3]), bool(a[4]))
            elif what == 'stopgroup':
                self._call(req, r.stopProcessGroup, gname(a[3]), bool(a[4]))
            elif what == 'startall':
                self._call(req, r.startAllProcesses, bool(a[3]))
            elif what == 'stopall':
                self._call(req, r.stopAllProcesses, bool(a[3]))
            elif what == 'signalall':          # monitor-judged scripts only (not in the Coq model)
                self._call(req, r.signalAllProcesses, str(a[3]))
            elif what == 'signalgroup':
                self._call(req, r.signalProcessGroup, gname(a[3]), str(a[4]))
            elif what == 'shutdown':
                self._call(req, r.shutdown)
            elif what == 'restart':
                self._call(req, r.restart)
            else:
                raise ValueError(what)
        else:
            raise ValueError(kind)

    def _multicall(self, subs):
        """system.multicall([...]) through the real XML-RPC handler and the real SystemNamespaceRPCInterface (monitor-
        judged scripts only).  subs: ['rpc', req, 'start'|'stop'|'signal', process, wait-or-signal] entries.  A multicall
        is a sequence of requests: request k+1 arrives when request k has been answered.  The supervisor namespace is
        replaced by a recording stand-in that forwards every call to the real interface and notes when each part is
        answered (its method returns / raises, or its deferred callback finishes); the 'req' marker of part k+1 is put
        into the trace at the moment part k is answered - never at the moment the real code chose to invoke it."""
        from supervisor.http import NOT_DONE_YET
        from supervisor.xmlrpc import RPCError
        import rpcstack
        import types
        k = self.kernel
        drv = self
        st = {'open': 0, 'known': {}, 'invoked': 0}

        def name(i):
            if i < len(self.pcfgs):
                return 'g%d:p%d' % (self.script['procs'][i]['group'], i)
            return 'g0:nosuch'

        def marker(j):
            a = subs[j]
            k.trace.append(('req', a[1], a[2], a[3], a[4]))

        def settle(j, code):
            st['known'][j] = code
            while st['open'] in st['known']:
                k.trace.append(('ans', subs[st['open']][1], st['known'][st['open']]))
                st['open'] += 1
                if st['open'] < len(subs):
                    marker(st['open'])

        def forward(method):
            real = getattr(self.rpc, method)

            def call(*args):
                j = st['invoked']
                st['invoked'] += 1
                want = calls[j] if j < len(calls) else None
                if want is None or want['methodName'] != 'supervisor.' + method or list(want['params']) != list(args):
                    drv.multicall_errors.append('part %d was invoked as %s%r' % (j, method, args))
                try:
                    v = real(*args)
                except RPCError as e:
                    settle(j, e.code)
                    raise
                if isinstance(v, types.FunctionType):
                    def cb():
                        try:
                            out = v()
                        except RPCError as e:
                            settle(j, e.code)
                            raise
                        if out is not NOT_DONE_YET:
                            settle(j, 0)
                        return out
                    cb.delay = getattr(v, 'delay', 0.05)
                    return cb
                settle(j, 0)
                return v
            return call

        fwd = dict((m, forward(m)) for m in ('startProcess', 'stopProcess', 'signalProcess'))

        class StandIn(object):          # (traverse() only calls bound methods)
            def startProcess(self, name, wait=True):
                return fwd['startProcess'](name, wait)

            def stopProcess(self, name, wait=True):
                return fwd['stopProcess'](name, wait)

            def signalProcess(self, name, signal):
                return fwd['signalProcess'](name, signal)
        calls = []
        for a in subs:
            if a[2] == 'signal':
                calls.append({'methodName': 'supervisor.signalProcess', 'params': [name(a[3]), str(a[4])]})
            else:
                calls.append({'methodName': 'supervisor.%sProcess' % a[2], 'params': [name(a[3]), bool(a[4])]})
        from supervisor.xmlrpc import SystemNamespaceRPCInterface
        subs_ = [('supervisor', StandIn())]
        subs_.append(('system', SystemNamespaceRPCInterface(subs_)))      # as supervisor.http.make_http_servers does
        stack = rpcstack.RpcStack(self.sup, subs_)
        marker(0)
        res = stack.call('system.multicall', [calls])

        def finish(r):
            # the envelope's answer: one entry per part, in order, each equal to what the part answered
            if r[0] != 'value' or not isinstance(r[1], list) or len(r[1]) != len(subs):
                drv.multicall_errors.append('system.multicall of %d calls answered %r' % (len(subs), r))
                return
            for j, v in enumerate(r[1]):
                got = v.get('faultCode') if isinstance(v, dict) else 0
                if st['known'].get(j) != got:
                    drv.multicall_errors.append('system.multicall entry %d is %r; the call itself answered %r'
                                                % (j, v, st['known'].get(j)))
        if res[0] == 'deferred':
            d = res[1]

            def outer():
                r = d.poll()
                if r is None:
                    return NOT_DONE_YET
                finish(r)
                return True
            self._poll_deferred(None, outer, first=True)
        else:
            finish(res)

    def _config_file(self, edit=False):
        import tempfile
        if getattr(self, '_cfgdir', None) is None:
            os.makedirs('/verif/_work', exist_ok=True)
            self._cfgdir = tempfile.mkdtemp(prefix='lifecfg-', dir='/verif/_work')
        d = self._cfgdir
        AR = {0: 'false', 1: 'unexpected', 2: 'true'}
        L = ['[supervisord]', 'logfile=%s/sd.log' % d, 'pidfile=%s/sd.pid' % d, 'childlogdir=%s' % d, '']
        for i, c in enumerate(self.script['procs']):
            L += ['[program:p%d]' % i, 'command=%s' % CMD[c['cmd']], 'priority=%d' % c['priority'],
                  'autostart=%s' % ('true' if c['autostart'] else 'false'), 'autorestart=%s' % AR[c['autorestart']],
                  'startsecs=%d' % c['startsecs'], 'startretries=%d' % c['startretries'],
                  'stopwaitsecs=%d' % (c['stopwaitsecs'] + (1 if edit else 0)), '']      # edit: every program differs
        for g, gc in enumerate(self.script['groups']):
            L += ['[group:g%d]' % g, 'programs=%s' % ','.join('p%d' % i for i in gc['procs']), 'priority=%d' % gc['priority'], '']
        path = os.path.join(d, 'supervisord.conf')
        with open(path, 'w') as f:
            f.write('\n'.join(L))
        return path

    # ---------------------------------------------------------- restart in process (supervisord.main's loop)
    def _judge_subscriptions(self):
        """After a restart only the pools of the running daemon (and the harness observers) may be subscribed."""
        from supervisor import events
        from supervisor.process import EventListenerPool
        mine = set(id(g) for g in self.sup.process_groups.values())
        stale = 0
        for (_t, cb) in list(events.callbacks):
            owner = getattr(cb, '__self__', None)
            if isinstance(owner, EventListenerPool) and id(owner) not in mine:
                stale += 1
        self.stale_pools = stale

    def _second_life(self):
        """What supervisord.main() does after a restart request: close the servers and the logger, make a new
        ServerOptions and a new Supervisor, and run it - through the real Supervisor.run()."""
        from supervisor import events
        from supervisor.medusa import asyncore_25
        try:
            self.options.close_httpservers()
            self.options.close_logger()
        except Exception:
            pass
        self.kernel.trace.append(('life', 2))
        real_clear = events.clear

        def clear_and_observe():
            real_clear()
            events.subscribe(events.ProcessStateEvent, self._on_pstate)
            events.subscribe(events.SupervisorStateChangeEvent, self._on_sstate)
        self.build(second=True)
        events.clear = clear_and_observe
        try:
            try:
                self.sup.run()
                self.ended = 'returned'
            except EndOfScript:
                self.ended = 'script'
            except asyncore_25.ExitNow:
                self.kernel.trace.append(('exitnow',))
                self.ended = 'exit'
            except simkernel.DaemonKilled as e:
                self.kernel.trace.append(('crash', 'killed by signal %s' % e.args[0]))
                self.crash_tb = 'supervisord installed no handler for signal %s' % e.args[0]
                self.ended = 'crash'
            except Exception as e:
                import traceback
                self.crash_tb = traceback.format_exc()
                self.kernel.trace.append(('crash', type(e).__name__))
                self.ended = 'crash'
        finally:
            events.clear = real_clear

    # ---------------------------------------------------------- run
    def run(self):

        from supervisor.medusa import asyncore_25
        try:
            self.build()
            try:
                self.sup.runforever()
                self.ended = 'returned'
            except EndOfScript:
                self.ended = 'script'
            except asyncore_25.ExitNow:
                self.kernel.trace.append(('exitnow',))
                self.ended = 'exit'
                from supervisor.states import SupervisorStates
                if self.script.get('second_life') and self.options.mood == SupervisorStates.RESTARTING \
                        and self.opi < len(self.script['ops']):
                    self._second_life()
            except simkernel.DaemonKilled as e:
                self.kernel.trace.append(('crash', 'killed by signal %s' % e.args[0]))
                self.crash_tb = ('supervisord installed no handler for signal %s: its default action terminates the daemon '
                                 'at once, without stopping any child' % e.args[0])
                self.ended = 'crash'
            except Exception as e:   # anything else escaping the main loop
                import traceback
                self.crash_tb = traceback.format_exc()
                self.kernel.trace.append(('crash', type(e).__name__))
                self.ended = 'crash'
        finally:
            self.undo()
            if getattr(self, '_cfgdir', None):
                import shutil
                shutil.rmtree(self._cfgdir, ignore_errors=True)
            if getattr(self, '_saved_select', None):
                self._saved_select[0].select = self._saved_select[1]
            from supervisor import events
            events.clear()
        misattributed = []
        if self.script.get('marks') and self.script.get('logdir') and os.path.isdir(self.script['logdir']):
            import re
            for fn in sorted(os.listdir(self.script['logdir'])):
                m = re.match(r'p(\d+)\.(out|err)\.log', fn)
                if not m:
                    continue
                try:
                    with open(os.path.join(self.script['logdir'], fn), 'rb') as f:
                        text = f.read()
                except OSError:
                    continue
                for w in set(re.findall(br'MARK-p(-?\d+)-', text)):
                    if int(w) != int(m.group(1)):
                        misattributed.append((fn, int(w)))
        return {'misattributed': misattributed, 'snaps': self.snaps, 'trace': self.kernel.trace, 'ended': self.ended,
                'crash': getattr(self, 'crash_tb', None), 'hangs': list(self.kernel.hangs),
                'stale_pools': getattr(self, 'stale_pools', 0),
                'multicall_errors': list(getattr(self, 'multicall_errors', []))}


def run_script(script):
    return Driver(script).run()

