"""C15 harness, update part: the real supervisorctl Controller.do_update, in-process,
against the real SupervisorNamespaceRPCInterface of a real Supervisor whose
runforever() is driven pass by pass (options.test, the loop's own single-pass
switch) on the simulated kernel of harness/simkernel.py with a virtual clock.

Configuration objects come from the real parse of generated files; children are
simulated: they die on the stop signal, or only on SIGKILL ("stubborn"), or the
kill() of them fails with EPERM ("killfail").

A scenario is
  {'groups': [ {'name', 'kind': program|group|listener|fcgi, 'fate': keep|change|remove,
                'members': [ {'name', 'recipe', 'stubborn', 'killfail'} ]} ],
   'added': [names], 'args': [words of the update command], 'corrupt': bool}
recipe in running|starting|stopped|fatal|backoff|exited|stopping.
"""
import errno
import os

import simkernel
from simkernel import SimKernel, RecLogger

RECIPES = ['running', 'starting', 'stopped', 'fatal', 'backoff', 'exited', 'stopping']
MAX_PASSES = 400


class Kernel(SimKernel):
    """SimKernel with per-pid child behaviour instead of a FIFO oracle."""

    def __init__(self):
        SimKernel.__init__(self)
        self.stubborn = set()     # pids that ignore everything but SIGKILL
        self.killfail = set()     # pids whose kill() raises EPERM

    def kill(self, target, sig):
        pid = abs(target)
        if pid in self.killfail:
            self.killq = [2]
        elif pid in self.stubborn and sig != simkernel.SIGKILL:
            self.killq = [1]
        else:
            self.killq = [0]
        return SimKernel.kill(self, target, sig)


class Poller(object):
    """What harness/life_driver.SimPoller does, without a script hook."""

    def __init__(self, kernel):
        self.k = kernel
        self.readables = set()
        self.writables = set()

    def register_readable(self, fd): self.readables.add(fd)
    def register_writable(self, fd): self.writables.add(fd)
    def unregister_readable(self, fd): self.readables.discard(fd)
    def unregister_writable(self, fd): self.writables.discard(fd)
    def before_daemonize(self): pass
    def after_daemonize(self): pass
    def close(self): pass

    def poll(self, timeout):
        k = self.k
        r, w = [], []
        for fd in sorted(self.readables):
            ent = k.fds.get(fd)
            if ent is None:
                self.readables.discard(fd)
                continue
            p = ent[0]
            if p.buf or p.w_refs <= 0:
                r.append(fd)
        for fd in sorted(self.writables):
            ent = k.fds.get(fd)
            if ent is None:
                self.writables.discard(fd)
                continue
            p = ent[0]
            if len(p.buf) < p.capacity or p.r_refs <= 0:
                w.append(fd)
        return r, w


# ------------------------------------------------------------------ files

def member_options(m, sockdir):
    r = m['recipe']
    o = [('command', '/sim/missing/x' if r in ('fatal', 'backoff') else '/sim/ok/%s' % m['name'])]
    if r == 'starting':
        o.append(('startsecs', '500'))
    if r == 'stopped':
        o.append(('autostart', 'false'))
    if r == 'fatal':
        o.append(('startretries', '0'))
    if r == 'backoff':
        o.append(('startretries', '90'))
    if r == 'exited':
        o.append(('autorestart', 'false'))
    if r == 'stopping':
        o.append(('stopwaitsecs', '600'))
    elif m.get('stubborn'):
        o.append(('stopwaitsecs', '3'))
    return o


def group_sections(g, sockdir, changed=False, new=False):
    k = g['kind']
    ms = g['members']
    events = list(g.get('events') or ['TICK_5'])
    if new and g.get('reorder'):
        events.reverse()          # same subscriptions, other order on the events= line
    if new and g.get('events_new'):
        events = list(g['events_new'])      # the edit is the subscription list itself
    # how a "changed" group differs: a process option by default, or the group's own kind of option
    how = g.get('change_opt') or 'umask'
    CH = {'umask': ('umask', '027'), 'priority': ('priority', '5'), 'socket_mode': ('socket_mode', '0770'),
          'socket_backlog': ('socket_backlog', '7'), 'buffer_size': ('buffer_size', '33'),
          'environment': ('environment', 'CH="1"'), 'stdout_logfile': ('stdout_logfile', 'NONE')}
    extra = [CH[how]] if changed and how not in ('events', 'none') else []
    if changed and how == 'events':
        events = events + ['PROCESS_STATE']
    if k == 'program':
        return [('program:%s' % g['name'], member_options(ms[0], sockdir) + extra)]
    if k == 'listener':
        return [('eventlistener:%s' % g['name'], member_options(ms[0], sockdir) + [('events', ','.join(events))] + extra)]
    if k == 'fcgi':
        return [('fcgi-program:%s' % g['name'], member_options(ms[0], sockdir)
                 + [('socket', 'unix://%s/%s.sock' % (sockdir, g['name']))] + extra)]
    secs = [('group:%s' % g['name'], [('programs', ','.join(m['name'] for m in ms))])]
    for i, m in enumerate(ms):
        secs.append(('program:%s' % m['name'], member_options(m, sockdir) + (extra if i == 0 else [])))
    return secs


def scenario_files(sc, sockdir, added_logs=False):
    """(old sections, new sections); with added_logs the added programs name their stdout log file"""
    old, new = [], []
    moves = sc.get('moves') or []          # [(member name, from group, to group)]: applied to the new file
    byname = dict((g['name'], g) for g in sc['groups'])

    def moved(g):
        if not moves or g['kind'] != 'group':
            return g
        ms = [m for m in g['members'] if not any(mv[0] == m['name'] and mv[1] == g['name'] for mv in moves)]
        for mname, frm, to in moves:
            if to == g['name']:
                ms = ms + [m for m in byname[frm]['members'] if m['name'] == mname]
        g2 = dict(g)
        g2['members'] = ms
        return g2
    for g in sc['groups']:
        old += group_sections(g, sockdir)
        if g['fate'] == 'keep':
            new += group_sections(g, sockdir, new=True)
        elif g['fate'] == 'change':
            new += group_sections(moved(g), sockdir, changed=not any(g['name'] in mv[1:] for mv in moves), new=True)
    for n in sc['added']:
        new.append(('program:%s' % n, [('command', '/sim/ok/%s' % n)]
                    + ([('stdout_logfile', '%s/%s.out.log' % (sockdir, n))] if added_logs else [])))
    return old, new


# ------------------------------------------------------------------ the run

class Hung(Exception):
    pass


class DaemonDied(Exception):
    """something that is not an RPCError (SystemExit included) left an RPC method or the main loop:
    a real supervisord would have exited or answered HTTP 500"""


class UpdateRun(object):
    def __init__(self, wd, scenario, rng=None):
        self.wd = wd
        self.sc = scenario
        self.rng = rng
        self.kernel = Kernel()
        self.kernel.now = 1000.0
        self.log = []             # (method, args, answer) as the client saw them
        self.owner = {}           # pid -> (group name, process name, id of the Subprocess)
        self.passes = 0
        self.after_reload = None  # the new file's config objects, taken when reloadConfig returned
        self.after_reload_enc = None
        self.kills_before = 0

    # -- daemon
    def boot(self, old_text):
        import c15_real
        from supervisor.options import ServerOptions
        from supervisor.supervisord import Supervisor
        from supervisor.states import SupervisorStates
        from supervisor import rpcinterface, events
        self.undo = simkernel.install(self.kernel)
        events.clear()
        self.path = os.path.join(self.wd, 'supervisord.conf')
        self.write(old_text)
        o = ServerOptions()
        o.configfile = self.path
        o.process_config(do_usage=False)
        o.logger = RecLogger()
        o.poller = Poller(self.kernel)
        o.mood = SupervisorStates.RUNNING
        o.test = True               # runforever() does exactly one pass per call
        o.pidhistory = {}
        wd = self.wd
        # mkstemp + os.close would go through the simulated kernel's descriptor table; the
        # name is all create_autochildlogs needs (the log file itself is opened by the loggers)
        o.get_autochildlog_name = lambda name, identifier, channel: os.path.join(
            wd, 'auto-%s-%s---%s.log' % (name, channel, identifier))
        self.options = o
        self.sup = Supervisor(o)
        for cfg in o.process_group_configs:
            self.sup.add_process_group(cfg)
        self.rpc = rpcinterface.SupervisorNamespaceRPCInterface(self.sup)

    def write(self, text):
        with open(self.path, 'wb') as f:
            f.write(text if isinstance(text, bytes) else text.encode('utf-8'))

    def one_pass(self, dt=1.0):
        self.passes += 1
        if self.passes > MAX_PASSES:
            raise Hung('more than %d passes' % MAX_PASSES)
        self.kernel.now += dt
        self.sup.runforever()
        self.scan()

    def scan(self):
        for gname, grp in self.sup.process_groups.items():
            for pname, p in grp.processes.items():
                if p.pid and p.pid not in self.owner:
                    self.owner[p.pid] = (gname, pname, id(p))
                    m = self.member(gname, pname)
                    if m is not None:
                        if m.get('stubborn') or m.get('recipe') == 'stopping':
                            self.kernel.stubborn.add(p.pid)
                        if m.get('killfail'):
                            self.kernel.killfail.add(p.pid)

    def member(self, gname, pname):
        for g in self.sc['groups']:
            if g['name'] == gname:
                for m in g['members']:
                    if m['name'] == pname:
                        return m
        return None

    def prepare(self):
        """bring every process into the state its recipe names"""
        from supervisor.states import ProcessStates as PS
        for _ in range(4):
            self.one_pass()
        for g in self.sc['groups']:
            grp = self.sup.process_groups[g['name']]
            for m in g['members']:
                p = grp.processes[m['name']]
                if m['recipe'] == 'exited' and p.pid:
                    self.kernel._die(p.pid, 0)
                if m['recipe'] == 'stopping':
                    try:
                        self.rpc.stopProcess('%s:%s' % (g['name'], m['name']), False)
                    except Exception:
                        pass        # (a killfail child: ends UNKNOWN; the run uses the state reached)
        for _ in range(2):
            self.one_pass()
        want = {'running': PS.RUNNING, 'starting': PS.STARTING, 'stopped': PS.STOPPED, 'fatal': PS.FATAL,
                'backoff': PS.BACKOFF, 'exited': PS.EXITED, 'stopping': PS.STOPPING}
        bad = []
        for g in self.sc['groups']:
            grp = self.sup.process_groups[g['name']]
            for m in g['members']:
                p = grp.processes[m['name']]
                if p.get_state() != want[m['recipe']]:
                    bad.append((g['name'], m['name'], m['recipe'], p.get_state()))
        return bad

    def snapshot(self):
        groups = []
        for gname, grp in self.sup.process_groups.items():
            procs = sorted(grp.processes.values())
            # the objects themselves are kept in the snapshot: an id() is only unique among live
            # objects, a group made later could otherwise reuse the id of one that was removed
            groups.append({'name': gname, 'gid': id(grp), 'cfg': grp.config, '_alive': (grp, procs),
                           'procs': [(p.config.name, p.pid, p.get_state(), id(p)) for p in procs]})
        return {'groups': groups, 'live': list(self.kernel.live), 'file': list(self.options.process_group_configs),
                'trace_len': len(self.kernel.trace)}

    # -- the client side
    def proxy(self):
        run = self

        class NS(object):
            def __getattr__(self, name):
                if name.startswith('_'):
                    raise AttributeError(name)
                return lambda *a: run.call(name, a)

        class Proxy(object):
            supervisor = NS()
        return Proxy()

    def call(self, method, args):
        """What the XML-RPC layer does with a method of the supervisor namespace: RPCError ->
        Fault, a deferred result is polled (the daemon keeps running) until it is done, the
        value is marshalled."""
        from supervisor.compat import xmlrpclib
        from supervisor.xmlrpc import RPCError
        from supervisor.http import NOT_DONE_YET
        import types
        if self.rng is not None and self.rng.random() < 0.5:
            self.one_pass()
        fn = getattr(self.rpc, method)
        try:
            v = fn(*args)
            if isinstance(v, types.FunctionType):
                cb = v
                v = cb()
                while v is NOT_DONE_YET:
                    self.one_pass()
                    v = cb()
        except RPCError as e:
            self.log.append((method, list(args), ('fault', e.code)))
            raise xmlrpclib.Fault(e.code, e.text)
        except (Hung, DaemonDied):
            raise
        except BaseException as e:       # SystemExit, KeyboardInterrupt, anything: judged, never propagated
            self.log.append((method, list(args), ('died', type(e).__name__, str(e)[:300])))
            raise DaemonDied('%s(%s) out of %s' % (type(e).__name__, str(e)[:200], method))
        v = xmlrpclib.loads(xmlrpclib.dumps((v,), methodresponse=True, allow_none=False))[0][0]
        self.log.append((method, list(args), ('value', v)))
        if method == 'reloadConfig':
            import c15_real
            self.after_reload = list(self.options.process_group_configs)
            # serialised now: addProcessGroup later replaces Automatic in these very objects
            self.after_reload_enc = [c15_real.encode_group(c, 100 + i) for i, c in enumerate(self.after_reload)]
        return v

    def controller(self):
        from supervisor import supervisorctl
        from supervisor.options import ClientOptions
        prox = self.proxy()

        class Opts(ClientOptions):
            def getServerProxy(self):
                return prox

        class Out(object):
            def __init__(self):
                self.msgs = []

            def write(self, m):
                self.msgs.append(m)

            def flush(self):
                pass
        o = Opts()
        o.interactive = False
        o.prompt = 'supervisor'
        o.serverurl = 'http://localhost:9001'
        o.username = None
        o.password = None
        out = Out()
        c = supervisorctl.Controller(o, stdout=out)
        return c, out

    def update(self, args):
        """Controller's do_update(arg); returns ('done', None) | ('fault', code) | ('exc', text)"""
        from supervisor.compat import xmlrpclib
        c, out = self.controller()
        self.out = out
        self.ctl = c
        do = c._get_do_func('update')
        try:
            do(' '.join(args))
        except xmlrpclib.Fault as e:
            return ('fault', e.faultCode)
        except Hung as e:
            return ('hung', str(e))
        except DaemonDied as e:
            return ('died', str(e))
        except BaseException as e:
            return ('died', '%s(%s) out of do_update' % (type(e).__name__, str(e)[:200]))
        return ('done', None)

    def close(self):
        from supervisor import events
        self.undo()
        events.clear()
