"""Simulated kernel + virtual clock under which the REAL Supervisor.runforever,
Subprocess, dispatchers, pollers' clients and RPC interface run unmodified.

No source hooks: the system calls are replaced one level below ServerOptions by
installing proxy modules in the namespaces of supervisor.options (os, fcntl)
and by giving every supervisor module that calls time.time() a clock proxy.
So ServerOptions.waitpid/readfd/make_pipes/close_* execute their own errno
handling against this kernel.

Kernel contract (what it assumes about Linux, recorded in the trusted base):
  * fork returns fresh increasing pids; a pid is not reused while unreaped
  * waitpid(-1, WNOHANG) returns dead children in the order they died, (0, 0)
    when children exist but none is dead, ECHILD when there are no children
  * kill(pid) / kill(-pgid): a live child dies from any signal unless the oracle
    says it ignores it (SIGKILL cannot be ignored); signalling a zombie
    succeeds; an absent pid gives ESRCH
  * pipe() returns the two lowest free descriptor numbers; close frees them
  * pipes deliver bytes in order; read on an empty pipe whose writer is open
    gives EAGAIN, on one whose writer is closed gives b'' (EOF)
"""
import errno
import os as _real_os
import sys
import time as _real_time

SIGKILL = 9


class EndOfScript(Exception):
    pass


class Pipe(object):
    def __init__(self):
        self.buf = b''
        self.r_refs = 1      # open references to the read end (parent's fd, child's copy)
        self.w_refs = 1
        self.capacity = 65536


class SimKernel(object):
    def __init__(self):
        self.live = []          # live child pids, fork order
        self.zombies = []       # (pid, status) FIFO
        self.nextpid = 1000
        self.fds = {}           # fd -> (pipe, 'r'|'w')
        self.children_fds = {}  # pid -> dict(stdin=rfd-pipe, stdout=pipe, stderr=pipe)
        self.forkq = []
        self.killq = []
        self.trace = []         # effects, in order
        self.now = 0.0
        self.last_pipes = []    # pipes created since the last fork (they belong to the next child)
        self.faults = {}        # call name -> list of errno values consumed per call (0 = no fault)
        self.fork_owner = None  # callback -> owner index
        self.flags = {}         # fd -> status flags set through fcntl(F_SETFL)
        self.hangs = []         # calls that would have blocked for ever on a blocking descriptor
        self.sig_handlers = {}  # signal number -> handler installed through signal.signal()
        self.reaped = []        # pids returned by waitpid, in order
        self.owner_of = {}      # pid -> index of the process that forked it
        self.jobstopped = []    # live children stopped by SIGSTOP/SIGTSTP and not yet reported to a WUNTRACED waiter

    def _fault(self, name):
        q = self.faults.get(name)
        if q:
            code = q.pop(0)
            if code:
                raise OSError(code, 'sim injected fault in %s' % name)

    # --- descriptors
    def _alloc_fd(self):
        fd = 100
        while fd in self.fds:
            fd += 1
        return fd

    def pipe(self):
        o = self.forkq[0] if self.forkq else 0
        if o in (1, 2):
            # this spawn attempt fails at pipe(); fork() will not be reached
            self.forkq.pop(0)
            raise OSError(errno.EMFILE if o == 1 else errno.ENFILE, 'sim pipe failure')
        p = Pipe()
        r = self._alloc_fd()
        self.fds[r] = (p, 'r')
        w = self._alloc_fd()
        self.fds[w] = (p, 'w')
        self.last_pipes.append((p, r, w))
        return r, w

    def close(self, fd):
        self._fault('close')
        ent = self.fds.pop(fd, None)
        if ent is None:
            raise OSError(errno.EBADF, 'sim bad fd')
        self.flags.pop(fd, None)
        p, mode = ent
        if mode == 'r':
            p.r_refs -= 1
        else:
            p.w_refs -= 1

    def read(self, fd, n):
        self._fault('read')
        ent = self.fds.get(fd)
        if ent is None or ent[1] != 'r':
            raise OSError(errno.EBADF, 'sim bad fd')
        p = ent[0]
        if p.buf:
            data, p.buf = p.buf[:n], p.buf[n:]
            return data
        if p.w_refs > 0:
            if not self.flags.get(fd, 0) & _real_os.O_NONBLOCK:
                # a blocking descriptor: the real read() would not return while a writer stays open
                self.hangs.append(('read', fd))
            raise OSError(errno.EAGAIN, 'sim would block')
        return b''

    def write(self, fd, data):
        self._fault('write')
        ent = self.fds.get(fd)
        if ent is None or ent[1] != 'w':
            raise OSError(errno.EBADF, 'sim bad fd')
        p = ent[0]
        if p.r_refs <= 0:
            raise OSError(errno.EPIPE, 'sim broken pipe')
        room = p.capacity - len(p.buf)
        if room <= 0 or (room < len(data) and not self.flags.get(fd, 0) & _real_os.O_NONBLOCK):
            if not self.flags.get(fd, 0) & _real_os.O_NONBLOCK:
                # a blocking descriptor: the real write() would not return until the reader drains the pipe
                self.hangs.append(('write', fd))
            if room <= 0:
                raise OSError(errno.EAGAIN, 'sim pipe full')
        p.buf += data[:room]
        return min(len(data), room)

    # --- processes
    def fork(self):
        o = self.forkq.pop(0) if self.forkq else 0
        if o in (3, 4):
            self.last_pipes = []
            raise OSError(errno.EAGAIN if o == 3 else errno.ENOMEM, 'sim fork failure')
        pid = self.nextpid
        self.nextpid += 1
        self.live.append(pid)
        # the child side: after dup2 and closing everything else it holds the read
        # end of the first pipe made for it (stdin) and the write ends of the others
        mine = []
        for n, (p, r, w) in enumerate(self.last_pipes):
            if n == 0:
                p.r_refs += 1
                mine.append((p, 'r'))
            else:
                p.w_refs += 1
                mine.append((p, 'w'))
        self.children_fds[pid] = mine
        self.last_pipes = []
        who = self.fork_owner() if self.fork_owner else -1
        self.owner_of[pid] = who
        self.trace.append(('fork', who, pid))
        return pid

    def _die(self, pid, status):
        self.live.remove(pid)
        self.zombies.append((pid, status))
        for (p, mode) in self.children_fds.pop(pid, []):
            if mode == 'r':
                p.r_refs -= 1
            else:
                p.w_refs -= 1

    # the child's side of its pipes (used by the output/listener harnesses)
    def child_pipe(self, pid, n):
        return self.children_fds[pid][n][0]

    def kill(self, target, sig):
        o = self.killq.pop(0) if self.killq else 0
        pid = abs(target)
        if o == 2:
            self.trace.append(('kill', target, sig, 2))
            raise OSError(errno.EPERM, 'sim kill not permitted')
        if o == 3:
            self.trace.append(('kill', target, sig, 1))
            raise OSError(errno.ESRCH, 'sim no such process')
        if pid in self.live:
            if o == 1 and sig != SIGKILL:
                self.trace.append(('kill', target, sig, 0))
                return
            self._die(pid, sig)
            self.trace.append(('kill', target, sig, 0))
            return
        if any(z[0] == pid for z in self.zombies):
            self.trace.append(('kill', target, sig, 0))
            return
        self.trace.append(('kill', target, sig, 1))
        raise OSError(errno.ESRCH, 'sim no such process')

    def waitpid(self, pid, flags):
        self._fault('waitpid')
        if not flags & _real_os.WNOHANG and not self.zombies and self.live:
            # a blocking wait while every child is alive: the real call would not return
            self.hangs.append(('waitpid', -1))
        if flags & _real_os.WUNTRACED and self.jobstopped:
            # a job-control stop is reported only to a waiter that asks for it (WUNTRACED): the child is ALIVE
            p = self.jobstopped.pop(0)
            if p in self.live:
                return p, (19 << 8) | 0x7f
        if self.zombies:
            p, sts = self.zombies.pop(0)
            self.trace.append(('wait', p, sts))
            self.reaped.append(p)
            return p, sts
        if not self.live:
            raise OSError(errno.ECHILD, 'sim no children')
        return 0, 0

    # script-side events
    def child_exit(self, k, status):
        if not self.live:
            return
        pid = self.live[k % len(self.live)]
        self._die(pid, status)

    def child_jobstop(self, k):
        """the k-th live child is stopped by job control (SIGSTOP): it stays alive"""
        if self.live:
            pid = self.live[k % len(self.live)]
            if pid not in self.jobstopped:
                self.jobstopped.append(pid)

    def child_write(self, k, chan, data):
        """the k-th live child writes to its stdout (chan 1) or stderr (chan 2)"""
        if not self.live:
            return
        pid = self.live[k % len(self.live)]
        pipes = self.children_fds.get(pid, [])
        if chan < len(pipes):
            p = pipes[chan][0]
            p.buf += data[:max(0, p.capacity - len(p.buf))]

    def unknown_zombie(self, status):
        pid = self.nextpid
        self.nextpid += 1
        self.zombies.append((pid, status))

    def recycled_zombie(self, k, status):
        """A child supervisord never forked (an orphan re-parented to it) dies with a pid that one of supervisord's own
        children had before it was reaped: the kernel recycles pids.  Monitor-judged scripts only."""
        old = [p for p in self.reaped if p not in self.live and all(z[0] != p for z in self.zombies)]
        if old:
            pid = old[k % len(old)]
            self.trace.append(('recycled', pid))      # harness marker: this pid number now names another child
            self.zombies.append((pid, status))


class FakeOS(object):
    """Stands in for the `os` module inside supervisor.options."""

    def __init__(self, kernel):
        self._k = kernel

    def __getattr__(self, name):
        return getattr(_real_os, name)

    @property
    def environ(self):
        # the daemon's own environment, when the script sets one (PATH searches of slash-less commands)
        env = getattr(self._k, 'environ', None)
        return _real_os.environ if env is None else env

    def fork(self):
        return self._k.fork()

    def waitpid(self, pid, flags):
        return self._k.waitpid(pid, flags)

    def kill(self, pid, sig):
        return self._k.kill(pid, sig)

    def killpg(self, pgid, sig):
        # never reaches the real kernel: simulated pids must not name real process groups
        if pgid <= 0:
            raise OSError(errno.EINVAL, 'sim killpg: invalid process group')
        return self._k.kill(-pgid, sig)

    def pipe(self):
        return self._k.pipe()

    def read(self, fd, n):
        if not isinstance(fd, int):
            raise TypeError("an integer is required (got type %s)" % type(fd).__name__)
        return self._k.read(fd, n)

    def write(self, fd, data):
        if not isinstance(fd, int):
            raise TypeError("an integer is required (got type %s)" % type(fd).__name__)
        return self._k.write(fd, data)

    def close(self, fd):
        if not isinstance(fd, int):      # os.close(None) is a TypeError, not an OSError
            raise TypeError("an integer is required (got type %s)" % type(fd).__name__)
        return self._k.close(fd)

    def getpid(self):
        return 999

    def stat(self, path):
        if path in ('/bin/simcmd', '/sim/bin/simcmd'):       # where the slash-less command `simcmd` can be found
            return _real_os.stat_result((0o100755, 1, 1, 1, 0, 0, 0, 0, 0, 0))
        if path.endswith('/simcmd') or path == 'simcmd':
            raise OSError(errno.ENOENT, 'sim: not in this directory')
        if path.startswith('sim/'):          # a relative command name with a slash is used as given, not searched in PATH
            return _real_os.stat_result((0o100755, 1, 1, 1, 0, 0, 0, 0, 0, 0))
        if path.startswith('/sim/'):
            if path.startswith('/sim/missing'):
                raise OSError(errno.ENOENT, 'sim missing')
            mode = 0o100755
            if path.startswith('/sim/noexec'):
                mode = 0o100644
            if path.startswith('/sim/dir'):
                mode = 0o040755
            return _real_os.stat_result((mode, 1, 1, 1, 0, 0, 0, 0, 0, 0))
        return _real_os.stat(path)

    def access(self, path, mode):
        if path in ('/bin/simcmd', '/sim/bin/simcmd'):
            return True
        if path.startswith('/sim/') or path.startswith('sim/'):
            if path.startswith('/sim/noperm'):
                # execute bits are set, but not for this user: readable, not executable
                return not (mode & _real_os.X_OK)
            return True
        return _real_os.access(path, mode)


def FakeSignal(kernel):
    """Stands in for the `signal` module inside supervisor.options: a module object with the real module's contents
    (so that `signal.__dict__` still lists the SIG* names) whose signal() records the handler in the simulated kernel
    (kernel.sig_handlers) instead of installing it."""
    import types
    import signal as _real_signal
    m = types.ModuleType('signal')
    m.__dict__.update(_real_signal.__dict__)

    def _signal(signum, handler):
        old = kernel.sig_handlers.get(int(signum), 0)
        kernel.sig_handlers[int(signum)] = handler
        return old
    m.signal = _signal
    return m


class DaemonKilled(Exception):
    """A signal whose default action terminates the process reached a daemon that installed no handler for it."""


class FakeFcntl(object):
    F_GETFL = 3
    F_SETFL = 4

    def __init__(self, kernel=None):
        self._k = kernel

    def fcntl(self, fd, op, arg=0):
        if self._k is None:
            return 0
        if op == self.F_SETFL:
            self._k.flags[fd] = arg
            return 0
        if op == self.F_GETFL:
            return self._k.flags.get(fd, 0)
        return 0


class Clock(object):
    """Stands in for the `time` module in supervisor modules."""

    def __init__(self, kernel):
        self._k = kernel

    def __getattr__(self, name):
        return getattr(_real_time, name)

    def time(self):
        return self._k.now


class RecLogger(object):
    """Activity log that records messages (level, text)."""

    def __init__(self, sink=None):
        self.data = []
        self.sink = sink
        self.handlers = []

    def _log(self, level, msg, **kw):
        if kw:
            try:
                msg = msg % kw
            except Exception:
                pass
        self.data.append((level, msg))
        if self.sink:
            self.sink(level, msg)

    def critical(self, msg, **kw): self._log('CRIT', msg, **kw)
    def error(self, msg, **kw): self._log('ERRO', msg, **kw)
    def warn(self, msg, **kw): self._log('WARN', msg, **kw)
    def info(self, msg, **kw): self._log('INFO', msg, **kw)
    def debug(self, msg, **kw): self._log('DEBG', msg, **kw)
    def trace(self, msg, **kw): self._log('TRAC', msg, **kw)
    def blather(self, msg, **kw): self._log('BLAT', msg, **kw)
    def log(self, level, msg, **kw): self._log(level, msg, **kw)
    def close(self): pass
    def getvalue(self): return ''


_PATCHED = []


def install(kernel):
    """Install the proxies; returns an undo function."""
    import supervisor.options as so
    import supervisor.process as sp
    import supervisor.supervisord as sd
    import supervisor.rpcinterface as sr
    import supervisor.http as sh
    saved = []

    def patch(mod, name, val):
        saved.append((mod, name, getattr(mod, name)))
        setattr(mod, name, val)

    patch(so, 'os', FakeOS(kernel))
    patch(so, 'fcntl', FakeFcntl(kernel))
    patch(so, 'signal', FakeSignal(kernel))
    clock = Clock(kernel)
    for mod in (sp, sd, sr, sh):
        if hasattr(mod, 'time'):
            patch(mod, 'time', clock)

    def undo():
        for mod, name, val in reversed(saved):
            setattr(mod, name, val)
    return undo
