"""C14 harness: structured configurations -> ini text -> the real
supervisor.options.ServerOptions -> dump of the resulting config objects, and
the same structured configuration as a Coq term for the model.

A *structured configuration* is
    {'main': [(section, [(key, value), ...]), ...],
     'incs': [(relative path, [(section, [(key, value), ...]), ...]), ...]}
`incs` lists the included files in the order the reader will read them.
"""
import os
import re
import sys

import vlib

ENV = {'C14_A': 'alpha', 'C14_B': 'b-b', 'C14_N': '7', 'C14_P': '/opt/x', 'C14_T': 'true', 'C14_E': 'TICK_5',
       'C14_S': 'USR1', 'C14_W': 'web',
       # values containing percent signs: substituted verbatim, never re-read as format expressions
       'C14_F': '%Y-%m-%d', 'C14_X': '%(x)s', 'C14_Q': 'a%%b 100%'}
ENV_KEYS = set('ENV_' + k for k in ENV)

# ------------------------------------------------------------------ rendering

SUBDIRS = ['', 'logs', 'sock', 'run', 'conf.d', 'conf.d/logs', 'conf.d/sock', 'conf.d/run',
           'conf.d/sub', 'conf.d/sub/logs', 'conf.d/sub/sock', 'conf.d/sub/run',
           'conf.d/d1', 'conf.d/d1/logs', 'conf.d/d1/sock', 'conf.d/d1/run',
           'conf.d/d2', 'conf.d/d2/logs', 'conf.d/d2/sock', 'conf.d/d2/run',
           'conf.d/d3', 'conf.d/d3/logs', 'conf.d/d3/sock', 'conf.d/d3/run']

def render_sections(sections, rng=None):
    """ini text of tokenised sections.  With an rng, semantically neutral
    noise is added: delimiters, comments, blank lines, inline comments,
    continuation indentation."""
    out = []
    for name, opts in sections:
        if rng is not None and rng.random() < 0.2:
            out.append(rng.choice(['; comment', '# comment [not:a:section]', '']))
        out.append('[%s]' % name)
        for k, v in opts:
            delim = '=' if rng is None else rng.choice(['=', '=', ' = ', ': ', '=  ', ' ='])
            lines = v.split('\n')
            first = lines[0]
            if rng is not None and first and rng.random() < 0.1:
                first += rng.choice(['  ; inline', '\t# inline'])
            out.append('%s%s%s' % (k, delim, first))
            for cont in lines[1:]:
                out.append(('  ' if rng is None else rng.choice(['  ', '\t', '    '])) + cont)
        if rng is not None and rng.random() < 0.3:
            out.append('')
    return '\n'.join(out) + '\n'


def write_case(cfg, here, rng=None):
    """Write the files of a structured configuration under `here`; returns the
    path of the main file."""
    for d in SUBDIRS:
        p = os.path.join(here, d)
        if not os.path.isdir(p):
            os.makedirs(p)
    main = os.path.join(here, 'supervisord.conf')
    with open(main, 'w') as f:
        f.write(cfg.get('main_text') if cfg.get('main_text') is not None else render_sections(cfg['main'], rng))
    for rel, secs in cfg.get('incs', []):
        with open(os.path.join(here, rel), 'w') as f:
            f.write(render_sections(secs, rng))
    return main


def existing_dirs(here):
    import tempfile
    return [(here + '/' + d).rstrip('/') for d in SUBDIRS] + ['/tmp', '/', tempfile.gettempdir()]


# ------------------------------------------------------------ the real reader

CLASSIFY = [
    ('name', r'^Invalid name: '),
    ('numprocs', r'%\(process_num\) must be present within process_name'),
    ('stopkill', r'Cannot set stopasgroup=true and killasgroup=false'),
    ('nocommand', r'does not specify a command'),
    ('unknown_event', r'^Unknown event type '),
    ('no_events', r'requires an "events" line'),
    ('buffer_size', r'sets invalid buffer_size'),
    ('redirect_listener', r'sets redirect_stderr=true'),
    ('result_handler', r'(cannot be resolved|is not callable) within \['),
    ('unknown_program', r'names unknown program or fcgi-program'),
    ('ambiguous_program', r'is ambiguous \(exists as program and fcgi-program\)'),
    ('socket_backlog', r'^Invalid socket_backlog value'),
    ('socket_mode', r'^Invalid socket_mode value'),
    ('socket_owner', r'^Invalid socket_owner value'),
    ('no_socket', r'requires a "socket" line'),
    ('socket', r' in \[fcgi-program:[^\]]*\] socket$'),
    ('exitcodes', r'^not a valid list of exit codes'),
    ('octal', r'can not be converted to an octal type'),
    ('int', r'^invalid literal for int\(\) with base 10'),
    ('bool', r'^not a valid boolean value'),
    ('autorestart', r"^invalid 'autorestart' value"),
    ('signal', r'is not a valid signal (name|number)'),
    ('loglevel', r'^bad logging level name'),
    ('env_syntax', r"^Unexpected (end of|'.*' between) key/value pairs"),
    ('quote', r'^No closing quotation'),
    ('no_supervisord', r'^\.ini file does not include supervisord section'),
    ('dirpath', r'^The directory named as part of the path'),
    ('directory', r'is not an existing directory'),
    ('user', r'^Invalid user (name|id)'),
    ('include_no_files', r'has \[include\] section, but no files setting'),
    ('ini_syntax', r'^(Source contains parsing errors|File contains no section headers|File contains parsing errors)'),
    ('no_file', r'^could not (find|read) config file'),
]


def classify(msg):
    if msg.startswith('Format string '):
        if ' which cannot be expanded. Available names: ' in msg:
            return 'expand_name'
        if ' is badly formatted: ' in msg:
            return 'expand_format'
    for kind, rx in CLASSIFY:
        if re.search(rx, msg):
            return kind
    return 'UNCLASSIFIED'


def set_environ():
    """Put the controlled variables into os.environ; returns what to hand to
    restore_environ()."""
    saved = dict((k, os.environ.get(k)) for k in ENV)
    for k, v in ENV.items():
        os.environ[k] = v
    return saved


def restore_environ(saved):
    for k, v in (saved or {}).items():
        if v is None:
            os.environ.pop(k, None)
        else:
            os.environ[k] = v


def new_options():
    """A real ServerOptions whose ENV_ expansion table was built (by its own
    __init__) from os.environ holding the controlled variables, which are set
    only around the construction; only the controlled names are kept."""
    from supervisor.options import ServerOptions
    saved = set_environ()
    try:
        o = ServerOptions()
    finally:
        restore_environ(saved)
    o.environ_expansions = dict((k, v) for k, v in o.environ_expansions.items() if k in ENV_KEYS)
    return o


def real_parse(path, cwd=None):
    """Run the real reader on the file.  ('ok', options) | ('err', kind, msg)
    | ('exc', exception type name, msg).  `path` may be relative to `cwd`, into
    which the process changes for the duration of the run."""
    o = new_options()
    o.configfile = path
    back = os.getcwd()
    if cwd is not None:
        os.chdir(cwd)
    try:
        return _real_parse(o)
    finally:
        os.chdir(back)


def _real_parse(o):
    cwd = os.getcwd()
    try:
        o.process_config(do_usage=False)
    except ValueError as e:
        return ('err', classify(str(e)), str(e))
    except Exception as e:
        return ('exc', type(e).__name__, str(e))
    except SystemExit as e:
        return ('exc', 'SystemExit', str(e))
    finally:
        if os.getcwd() != cwd:
            os.chdir(cwd)
            return ('exc', 'CHDIR', 'the reader changed the working directory')
    return ('ok', o)


# atoms: ('Z', n) ('S', s) ('B', b) ('N',) ('T', tag)
def _opt(kind, v):
    return ('N',) if v is None else (kind, v)


def _dict(d):
    out = [('Z', len(d))]
    for k, v in d.items():
        out += [('S', k), ('S', v)]
    return out


def _logfile(v):
    from supervisor.datatypes import Automatic, Syslog
    if v is None:
        return ('N',)
    if v is Automatic:
        return ('T', 'auto')
    if v is Syslog:
        return ('T', 'syslog')
    return ('S', v)


def _autorestart(v):
    from supervisor.datatypes import RestartUnconditionally, RestartWhenExitUnexpected
    if v is RestartWhenExitUnexpected:
        return ('T', 'unexpected')
    if v is RestartUnconditionally:
        return ('T', 'always')
    if v is False:
        return ('B', False)
    raise TypeError('unexpected autorestart value %r' % (v,))


def _strict(kind, v):
    """Type discipline of the dump: an int field must hold an int (bool is
    not accepted for an int field), a str field a str, a bool field a bool."""
    if kind == 'Z':
        if isinstance(v, bool) or not isinstance(v, int):
            raise TypeError('expected int, got %r' % (v,))
        return ('Z', int(v))
    if kind == 'S':
        if not isinstance(v, str):
            raise TypeError('expected str, got %r' % (v,))
        return ('S', v)
    if kind == 'B':
        if not isinstance(v, bool):
            raise TypeError('expected bool, got %r' % (v,))
        return ('B', v)
    raise TypeError(kind)


def _sopt(kind, v):
    return ('N',) if v is None else _strict(kind, v)


FIELD = {
    'name': lambda v: [_strict('S', v)],
    'uid': lambda v: [_sopt('Z', v)],
    'command': lambda v: [_strict('S', v)],
    'directory': lambda v: [_sopt('S', v)],
    'umask': lambda v: [_sopt('Z', v)],
    'priority': lambda v: [_strict('Z', v)],
    'autostart': lambda v: [_strict('B', v)],
    'autorestart': lambda v: [_autorestart(v)],
    'startsecs': lambda v: [_strict('Z', v)],
    'startretries': lambda v: [_strict('Z', v)],
    'stdout_logfile': lambda v: [_logfile(v)],
    'stdout_capture_maxbytes': lambda v: [_strict('Z', v)],
    'stdout_events_enabled': lambda v: [_strict('B', v)],
    'stdout_syslog': lambda v: [_strict('B', v)],
    'stdout_logfile_backups': lambda v: [_strict('Z', v)],
    'stdout_logfile_maxbytes': lambda v: [_strict('Z', v)],
    'stderr_logfile': lambda v: [_logfile(v)],
    'stderr_capture_maxbytes': lambda v: [_strict('Z', v)],
    'stderr_logfile_backups': lambda v: [_strict('Z', v)],
    'stderr_logfile_maxbytes': lambda v: [_strict('Z', v)],
    'stderr_events_enabled': lambda v: [_strict('B', v)],
    'stderr_syslog': lambda v: [_strict('B', v)],
    'stopsignal': lambda v: [('Z', int(v))],
    'stopwaitsecs': lambda v: [_strict('Z', v)],
    'stopasgroup': lambda v: [_strict('B', v)],
    'killasgroup': lambda v: [_strict('B', v)],
    'exitcodes': lambda v: [('Z', len(v))] + [_strict('Z', x) for x in v],
    'redirect_stderr': lambda v: [_strict('B', v)],
    'environment': lambda v: _dict(v),
    'serverurl': lambda v: [_sopt('S', v)],
}


EFFECTIVE = {
    'nodaemon': lambda v: _strict('B', v), 'user': lambda v: _sopt('S', v), 'umask': lambda v: _strict('Z', v),
    'directory': lambda v: _sopt('S', v), 'logfile': lambda v: _strict('S', v),
    'logfile_maxbytes': lambda v: _strict('Z', v), 'logfile_backups': lambda v: _strict('Z', v),
    'loglevel': lambda v: _strict('Z', v), 'pidfile': lambda v: _strict('S', v),
    'identifier': lambda v: _strict('S', v), 'childlogdir': lambda v: _strict('S', v),
    'minfds': lambda v: _strict('Z', v), 'minprocs': lambda v: _strict('Z', v),
    'nocleanup': lambda v: _strict('B', v), 'strip_ansi': lambda v: _strict('B', v),
    'profile_options': lambda v: _sopt('S', v), 'silent': lambda v: _strict('B', v),
}


def effective_problems(o):
    """Judge on the implementation: every ServerOptions attribute filled from
    [supervisord] must hold the section's (configured or section-default) value
    whenever the section has one."""
    s = o.configroot.supervisord
    out = []
    for name, confname in o.names_list:
        if confname and confname.startswith('supervisord.'):
            sv = getattr(s, confname.split('.', 1)[1])
            ev = getattr(o, name)
            if sv is not None and (ev != sv or type(ev) is not type(sv)):
                out.append('options.%s is %r although the [supervisord] section gives %r' % (name, ev, sv))
    return out


def dump_options(o):
    """Flat dump of the [supervisord] values and of every group / process
    config object, in the order coq/C14/Dump.v uses."""
    from supervisor import options as so
    from supervisor.events import getEventNameByType
    s = o.configroot.supervisord
    out = [('T', 'ok'),
           _strict('Z', s.minfds), _strict('Z', s.minprocs), _sopt('S', s.directory), _sopt('S', s.user),
           _strict('Z', s.umask), _strict('S', s.logfile), _strict('Z', s.logfile_maxbytes),
           _strict('Z', s.logfile_backups), _strict('Z', s.loglevel), _strict('S', s.pidfile),
           _strict('S', s.identifier), _strict('B', s.nodaemon), _strict('B', s.silent),
           _strict('S', s.childlogdir), _strict('B', s.nocleanup), _strict('B', s.strip_ansi)]
    out += _dict(s.environment)
    out.append(('T', 'effective'))
    for name, confname in o.names_list:
        if confname and confname.startswith('supervisord.'):
            out.append(EFFECTIVE[name](getattr(o, name)))
    if o.process_group_configs is not s.process_group_configs:
        raise TypeError('options.process_group_configs is not the list of groups the file just read configures '
                        '(%r instead of %r)' % ([g.name for g in o.process_group_configs],
                                                [g.name for g in s.process_group_configs]))
    for g in o.process_group_configs:
        out += [('T', 'group'), _strict('S', g.name), _strict('Z', g.priority), ('T', type(g).__name__)]
        if type(g) is so.EventListenerPoolConfig:
            names = sorted(getEventNameByType(t) for t in g.pool_events)
            out += [_strict('Z', g.buffer_size), ('Z', len(g.pool_events))] + [('S', n) for n in names]
            h = g.result_handler
            if not callable(h) or not hasattr(h, '__name__'):
                raise TypeError('result_handler is not a callable: %r' % (h,))
            out.append(('S', '%s:%s' % (h.__module__, h.__name__)))
        elif type(g) is so.FastCGIGroupConfig:
            sc = g.socket_config
            owner = getattr(sc, 'owner', None)
            out += [_strict('S', sc.url), _sopt('Z', sc.backlog), _sopt('Z', getattr(sc, 'mode', None)),
                    _sopt('Z', owner[0] if owner else None), _sopt('Z', owner[1] if owner else None)]
        elif type(g) is not so.ProcessGroupConfig:
            raise TypeError('unexpected group config class %r' % type(g))
        out.append(('Z', len(g.process_configs)))
        for p in g.process_configs:
            out.append(('T', type(p).__name__))
            for name in p.req_param_names + p.optional_param_names:
                out += FIELD[name](getattr(p, name))
    return out


def dump_or_error(r):
    """Comparable form of a real_parse result."""
    if r[0] == 'ok':
        try:
            return dump_options(r[1])
        except TypeError as e:
            return [('T', 'ill-typed'), ('S', str(e))]
    return [('T', r[0]), ('T', r[1])]


# ------------------------------------------------------------------ Coq terms

def cstr(s):
    if any((ord(ch) < 32 and ch not in '\n\t') or ord(ch) > 126 for ch in s):
        raise ValueError('string not representable as a Coq literal in this harness: %r' % s)
    return '"' + s.replace('"', '""') + '"'


def catom(a):
    if a[0] == 'Z':
        return 'AZ %s' % (('(%d)' % a[1]) if a[1] < 0 else str(a[1]))
    if a[0] == 'S':
        return 'AS %s' % cstr(a[1])
    if a[0] == 'B':
        return 'AB %s' % ('true' if a[1] else 'false')
    if a[0] == 'N':
        return 'AN'
    if a[0] == 'T':
        return 'AT %s' % cstr(a[1])
    raise ValueError(a)


def catoms(atoms):
    return '[' + '; '.join(catom(a) for a in atoms) + ']'


def csections(secs):
    return '[' + ';\n    '.join('(%s, [%s])' % (cstr(n), '; '.join('(%s, %s)' % (cstr(k), cstr(v)) for k, v in opts))
                            for n, opts in secs) + ']'


def merge_dups(secs):
    """What RawConfigParser(strict=False) hands out for one file whose text
    repeats a section or a key: later values win, first position kept."""
    order = []
    d = {}
    for n, opts in secs:
        if n not in d:
            d[n] = {}
            order.append(n)
        for k, v in opts:
            d[n][k] = v
    return [(n, list(d[n].items())) for n in order]


_ORACLE = {}


def oracle_tables():
    if not _ORACLE:
        import pwd, grp, platform, tempfile
        _ORACLE['users'] = [(p.pw_name, p.pw_uid) for p in pwd.getpwall()][:12]
        _ORACLE['pwgid'] = [(p.pw_uid, p.pw_gid) for p in pwd.getpwall()][:12]
        _ORACLE['groups'] = [(g.gr_name, g.gr_gid) for g in grp.getgrall()][:12]
        _ORACLE['host'] = platform.node()
        _ORACLE['tempdir'] = tempfile.gettempdir()
        _ORACLE['uid'] = os.getuid()
    return _ORACLE


def coq_preamble():
    """Definitions shared by every case of a shard (keeps the literals small)."""
    t = oracle_tables()
    z = lambda n: ('(%d)' % n) if n < 0 else str(n)
    import tempfile
    extra = ['/tmp', '/', tempfile.gettempdir()]
    return (
        'Open Scope string_scope.\n'
        'Definition c14_users : list (string * Z) := [%s].\n'
        'Definition c14_groups : list (string * Z) := [%s].\n'
        'Definition c14_pwgid : list (Z * Z) := [%s].\n'
        'Definition c14_environ : list (string * string) := [%s].\n'
        'Definition c14_ctx (here : string) : ctx :=\n'
        '  {| c_here := here; c_host := %s; c_environ := c14_environ;\n'
        '     c_dirs := (map (fun d => (here ++ d)%%string) [%s] ++ [%s])%%list;\n'
        '     c_users := c14_users; c_groups := c14_groups; c_uid := %s; c_pwgid := c14_pwgid; c_tempdir := %s |}.\n'
        'Definition c14_handlers : list string := [%s].\n'
        'Definition c14_in (here : string) (main : sections) (incs : list (string * sections)) : input :=\n'
        '  {| i_ctx := c14_ctx here; i_main := main; i_incs := incs; i_handlers := c14_handlers |}.\n' % (
            '; '.join('(%s, %s)' % (cstr(n), z(u)) for n, u in t['users']),
            '; '.join('(%s, %s)' % (cstr(n), z(g)) for n, g in t['groups']),
            '; '.join('(%s, %s)' % (z(u), z(g)) for u, g in t['pwgid']),
            '; '.join('(%s, %s)' % (cstr('ENV_' + k), cstr(v)) for k, v in sorted(ENV.items())),
            cstr(t['host']),
            '; '.join(cstr(('/' + d) if d else '') for d in SUBDIRS),
            '; '.join(cstr(d) for d in extra),
            z(t['uid']), cstr(t['tempdir']),
            '; '.join(cstr(h) for h in HANDLERS)))


HANDLERS = ['supervisor.dispatchers:default_handler']


def cinput(cfg, here):
    incs = '[' + ';\n   '.join('(%s, %s)' % (cstr(os.path.dirname(os.path.join(here, rel))), csections(merge_dups(secs)))
                             for rel, secs in cfg.get('incs', [])) + ']'
    return '(c14_in %s\n   %s\n   %s)' % (cstr(here), csections(merge_dups(cfg['main'])), incs)


def ccase(cfg, here, atoms):
    return '(%s,\n   %s)' % (cinput(cfg, here), catoms(atoms))
