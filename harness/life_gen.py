"""Script generators and Coq term printers for the lifecycle correspondence
(C01-C06, C13).  A script is a JSON-able dict (see life_driver.py)."""
import itertools
import json

STATE_NAME = {0: 'STOPPED', 10: 'STARTING', 20: 'RUNNING', 30: 'BACKOFF', 40: 'STOPPING',
              100: 'EXITED', 200: 'FATAL', 1000: 'UNKNOWN'}
AR = {0: 'ARNever', 1: 'ARUnexpected', 2: 'ARAlways'}
CMDK = {0: 'CmdOk', 1: 'CmdNotFound', 2: 'CmdNotExec', 3: 'CmdNotExec', 4: 'CmdNotExec', 5: 'CmdOk'}   # 3: no permission, 4: a directory


def z(n):
    n = int(n)
    return '(%d)' % n if n < 0 else '%d' % n


def nat(n):
    return '%d%%nat' % n


def b(x):
    return 'true' if x else 'false'


def zl(xs):
    return '[' + '; '.join(z(x) for x in xs) + ']'


def conf_term(c):
    return '(mkConf %s %s %s %s %s %s %s %s %s %s %s %s)' % (
        z(c['startsecs']), z(c['startretries']), z(c['stopwaitsecs']), z(c['stopsignal']), z(c['priority']),
        b(c['autostart']), AR[c['autorestart']], zl(c['exitcodes']), b(c['stopasgroup']), b(c['killasgroup']),
        CMDK[c['cmd']], nat(c['group']))


def group_term(g):
    return '(mkG %s [%s])' % (z(g['priority']), '; '.join(nat(i) for i in g['procs']))


def rpc_term(a):
    what = a[2]
    if what == 'start':
        return '(RStart %s %s)' % (nat(a[3]), b(a[4]))
    if what == 'stop':
        return '(RStop %s %s)' % (nat(a[3]), b(a[4]))
    if what == 'signal':
        return '(RSignal %s %s %s)' % (nat(a[3]), z(a[4]), b(a[5]))
    if what == 'startgroup':
        return '(RStartGroup %s %s)' % (nat(a[3]), b(a[4]))
    if what == 'stopgroup':
        return '(RStopGroup %s %s)' % (nat(a[3]), b(a[4]))
    if what == 'startall':
        return '(RStartAll %s)' % b(a[3])
    if what == 'stopall':
        return '(RStopAll %s)' % b(a[3])
    if what == 'shutdown':
        return 'RShutdown'
    if what == 'restart':
        return 'RRestart'
    raise ValueError(what)


def act_term(a):
    k = a[0]
    if k == 'exit':
        return '(AExit %s %s)' % (nat(a[1]), z(a[2]))
    if k == 'sigdie':
        return '(ASigDie %s %s)' % (nat(a[1]), z(a[2]))
    if k == 'unknown':
        return '(AUnknown %s)' % z(a[1])
    if k == 'signal':
        return '(ASignal %s)' % z(a[1])
    if k == 'poll':
        return 'APoll'
    if k == 'rpc':
        return '(ARpc %s %s)' % (z(a[1]), rpc_term(a))
    raise ValueError(k)


def op_term(o):
    return '(mkPass %s [%s] %s %s)' % (z(o['now']), '; '.join(act_term(a) for a in o['acts']),
                                      zl(o.get('forkq', [])), zl(o.get('killq', [])))


def snap_term(s):
    return '(mkSnap [%s] %s %s %s %s)' % (
        '; '.join('(%s, %s)' % (z(st), z(pid)) for st, pid in s['procs']),
        zl(s['live']), zl(s['zombies']), zl(s['hist']), z(s['mood']))


def effect_term(e):
    k = e[0]
    if k == 'fork':
        return '(EFork %s %s)' % (nat(max(e[1], 0)) if e[1] >= 0 else nat(99), z(e[2]))
    if k == 'spawnfail':
        return '(ESpawnFail %s %s)' % (nat(e[1]) if e[1] >= 0 else nat(99), z(e[2]))
    if k == 'kill':
        return '(EKill %s %s %s)' % (z(e[1]), z(e[2]), z(e[3]))
    if k == 'wait':
        return '(EWait %s %s)' % (z(e[1]), z(e[2]))
    if k == 'state':
        frm = STATE_NAME.get(e[2], 'UNKNOWN')
        to = STATE_NAME.get(e[3], 'UNKNOWN')
        return '(EState %s %s %s %s %s)' % (nat(e[1]) if e[1] >= 0 else nat(99), frm, to, z(e[4]), b(e[5]))
    if k == 'sup':
        return '(ESup %s)' % z(e[1])
    if k == 'ans':
        return '(EAns %s %s)' % (z(e[1]), z(e[2]))
    if k == 'ansall':
        return '(EAnsAll %s [%s])' % (z(e[1]), '; '.join('(%s, %s)' % (nat(i), z(c)) for i, c in e[2]))
    if k == 'crash':
        return '(ECrash 0)'
    if k == 'exitnow':
        return 'EExitNow'
    raise ValueError(k)


def case_term(script, result):
    return '(mkCase %s [%s] [%s] [%s] [%s] [%s])' % (
        z(script['U']),
        '; '.join(conf_term(c) for c in script['procs']),
        '; '.join(group_term(g) for g in script['groups']),
        '; '.join(op_term(o) for o in script['ops']),
        '; '.join(snap_term(s) for s in result['snaps']),
        '; '.join(effect_term(e) for e in result['trace'] if e[0] not in MARKERS))


MARKERS = ('pass', 'req', 'endacts', 'polled')      # harness-only trace entries (pass boundaries, RPC issue points)
PREAMBLE = 'Open Scope Z_scope.'
IMPORTS = ['SV.Life.Model', 'SV.Life.Corr']

# ------------------------------------------------------------------ generators

BASE = dict(startsecs=1, startretries=1, stopwaitsecs=2, stopsignal=15, priority=999, autostart=1,
            autorestart=1, exitcodes=[0], stopasgroup=0, killasgroup=0, cmd=0, group=0)


def mkconf(**kw):
    c = dict(BASE)
    c.update(kw)
    return c


def conf_grid():
    """Single-process configuration grid including all zero values."""
    out = []
    for ss in (0, 1, 2):
        for sr in (0, 1, 3):
            for ar in (0, 1, 2):
                for au in (0, 1):
                    out.append(mkconf(startsecs=ss, startretries=sr, autorestart=ar, autostart=au))
    return out


def small_alphabet(U):
    """One-process pass alphabet: (clock delta in ticks, acts, forkq, killq)."""
    return [
        ('+0', 0, [], [], []),
        ('+1s', U, [], [], []),
        ('+half', 1, [], [], []),
        ('+big', 10 * U, [], [], []),
        ('-jump', -3 * U, [], [], []),
        ('exit0', U, [['exit', 0, 0]], [], []),
        ('exit1', 0, [['exit', 0, 1]], [], []),
        ('sigdie', U, [['sigdie', 0, 11]], [], []),
        ('start', 0, [['rpc', 0, 'start', 0, 0]], [], []),
        ('startw', U, [['rpc', 0, 'start', 0, 1]], [], []),
        ('stop', 0, [['rpc', 0, 'stop', 0, 0]], [], []),
        ('stopw', U, [['rpc', 0, 'stop', 0, 1], ['poll']], [], [1]),
        ('poll', U, [['poll']], [], []),
        ('term', 0, [['signal', 15]], [], []),
        ('forkfail', U, [], [3], []),
        ('pipefail', U, [], [1], []),
        ('eperm', 0, [['rpc', 0, 'stop', 0, 0]], [], [2]),
        ('stopweperm', U, [['rpc', 0, 'stop', 0, 1], ['poll']], [], [2]),
    ]


def script_from_word(confs, groups, word, U=2, t0=200):
    ops = []
    t = t0
    req = 0
    for (name, dt, acts, fq, kq) in word:
        t = max(100, t + dt)      # readings stay far above startsecs*U: the code uses laststart == 0 as 'never started'
        acts2 = []
        for a in acts:
            a = list(a)
            if a[0] == 'rpc':
                req += 1
                a[1] = req
            acts2.append(a)
        ops.append({'now': t, 'acts': acts2, 'forkq': list(fq), 'killq': list(kq)})
    return {'U': U, 'procs': confs, 'groups': groups, 'ops': ops}


def exhaustive_single(depth, confs=None, U=2, alphabet=None):
    confs = confs if confs is not None else conf_grid()
    alpha = alphabet if alphabet is not None else small_alphabet(U)
    for c in confs:
        for word in itertools.product(alpha, repeat=depth):
            yield script_from_word([c], [{'priority': 999, 'procs': [0]}], word, U)


def random_script(rng, U=2, nprocs=None, maxlen=30, hostile=0.15, shutdown=0.25, rpcw=0.25):
    n = nprocs if nprocs is not None else rng.choice([1, 2, 2, 3, 4])
    ng = rng.choice([1, 1, 2, 3]) if n > 1 else 1
    confs = []
    for i in range(n):
        confs.append(mkconf(
            startsecs=rng.choice([0, 0, 1, 1, 2, 5]), startretries=rng.choice([0, 1, 2, 3]),
            stopwaitsecs=rng.choice([0, 1, 2, 5]), stopsignal=rng.choice([15, 2, 1, 9, 10]),
            priority=rng.choice([1, 5, 5, 999]), autostart=rng.choice([0, 1, 1]),
            autorestart=rng.choice([0, 1, 2]), exitcodes=rng.choice([[0], [0, 2], [], [1]]),
            stopasgroup=rng.choice([0, 0, 1]), killasgroup=rng.choice([0, 1]),
            cmd=rng.choice([0, 0, 0, 0, 0, 0, 5, 1, 2, 3, 4]), group=rng.randrange(ng)))
    for c in confs:
        if c['stopasgroup']:
            c['killasgroup'] = 1          # the configuration parser enforces this
    groups = []
    for g in range(ng):
        groups.append({'priority': rng.choice([1, 5, 5, 999]), 'procs': [i for i, c in enumerate(confs) if c['group'] == g]})
    t = rng.choice([100, 107, 200, 1000])
    ops = []
    req = 0
    poller = rng.choice(['poll', 'poll', 'select'])      # the real PollPoller / SelectPoller over the simulated kernel
    length = rng.randrange(3, maxlen)
    sent_shutdown = False
    for _ in range(length):
        r = rng.random()
        if r < 0.08:
            dt = -rng.randrange(1, 8 * U)
        elif r < 0.25:
            dt = 0
        elif r < 0.85:
            dt = rng.randrange(1, 2 * U + 1)
        else:
            dt = rng.randrange(2 * U, 15 * U)
        t = max(100, t + dt)
        acts = []
        for _k in range(rng.choice([0, 0, 1, 1, 1, 2, 3])):
            r = rng.random()
            if r < 0.30:
                acts.append(['exit', rng.randrange(4), rng.choice([0, 0, 0, 1, 2, 2, 128, 130, 255])])
            elif r < 0.36:
                acts.append(['sigdie', rng.randrange(4), rng.choice([9, 11, 15, 6, 40, 64, 127, 139])])
            elif r < 0.40:
                acts.append(['unknown', rng.choice([0, 256, 9, 40, 127, 139, 65280])])
            elif r < 0.40 + rpcw:
                req += 1
                kind = rng.random()
                i = rng.randrange(n + (1 if rng.random() < 0.05 else 0))
                if kind < 0.35:
                    acts.append(['rpc', req, 'start', i, rng.choice([0, 1])])
                elif kind < 0.65:
                    acts.append(['rpc', req, 'stop', i, rng.choice([0, 1])])
                elif kind < 0.75:
                    acts.append(['rpc', req, 'signal', i, rng.choice([1, 10, 15]), 1 if rng.random() < 0.9 else 0])
                elif kind < 0.80:
                    acts.append(['rpc', req, 'startall', rng.choice([0, 1])])
                elif kind < 0.87:
                    acts.append(['rpc', req, 'stopall', rng.choice([0, 1])])
                elif kind < 0.92:
                    acts.append(['rpc', req, 'startgroup', rng.randrange(ng + 1), rng.choice([0, 1]), rng.choice([0, 0, 1, 2])])
                else:
                    acts.append(['rpc', req, 'stopgroup', rng.randrange(ng + 1), rng.choice([0, 1]), rng.choice([0, 0, 1, 2])])
                if rng.random() < 0.04:
                    # a bare process name (no group part) names no process here: BAD_NAME, like an unknown index
                    req += 1
                    acts.append(['rpc', req, rng.choice(['start', 'stop']), n, rng.choice([0, 1]), rng.randrange(n)])
            elif r < 0.85:
                acts.append(['poll'])
            else:
                if rng.random() < shutdown or sent_shutdown:
                    sent_shutdown = True
                    k = rng.random()
                    if k < 0.5:
                        acts.append(['signal', rng.choice([15, 2, 3, 1])])
                    elif k < 0.8:
                        req += 1
                        acts.append(['rpc', req, rng.choice(['shutdown', 'restart'])])
                    else:
                        acts.append(['signal', rng.choice([17, 12, 1])])
        fq, kq = [], []
        if rng.random() < hostile:
            fq = [rng.choice([0, 1, 2, 3, 4]) for _ in range(rng.randrange(1, 3))]
        if rng.random() < hostile:
            kq = [rng.choice([0, 1, 1, 2, 3]) for _ in range(rng.randrange(1, 3))]
        elif rng.random() < 0.3:
            kq = [1] * 4     # children ignoring the stop signal
        op = {'now': t, 'acts': acts, 'forkq': fq, 'killq': kq}
        if rng.random() < hostile / 2:
            # the poll()/select() call of this pass is interrupted (EINTR; for select also EBADF): no I/O on this
            # pass, nothing else changes - the lifecycle model does not see it
            op['faults'] = {'poll': [4 if poller == 'poll' else rng.choice([4, 9])]}
        ops.append(op)
    return {'U': U, 'procs': confs, 'groups': groups, 'ops': ops, 'poller': poller,
            'xml': rng.random() < 0.3}      # requests through the real XML-RPC handler instead of direct calls


def canonical(result):
    return json.dumps([result['snaps'], [e for e in result['trace'] if e[0] not in MARKERS]], sort_keys=True)
