"""C19 harness: the real FileHandler / RotatingFileHandler (through
loggers.handle_file and a real Logger) on real files under the work directory.

Operations (JSON-able tuples):
  ('w', [bytes...])   logger.info(msg)                 -> handler.emit
  ('c',)              handler.remove(); handler.reopen()   (dispatchers.removelogs)
  ('r',)              handler.reopen()                     (reopenlogs / SIGUSR2)
  ('d', i)            external: unlink <path>.i (i = 0: the live log)
  ('x', i, [bytes])   external: a new file is moved over <path>.i
For several handlers on one path the first three carry the handler index:
  ('w', who, msg) ('c', who) ('r', who)
"""
import contextlib
import io
import os
import shutil
import sys


class Bytes(object):
    """Generator of message payloads whose bytes are all different for a long
    while, so that misplaced or lost bytes show in a comparison."""

    def __init__(self):
        self.n = 0

    def take(self, size):
        out = bytes(((self.n + i) % 250) + 1 for i in range(size))
        self.n += size
        return out


def fname(base, i):
    return base if i == 0 else '%s.%d' % (base, i)


def snapshot(d, base):
    """{index: content} of the directory; a foreign name -> ('foreign', name)"""
    out = {}
    b = os.path.basename(base)
    for n in os.listdir(d):
        if os.path.isdir(os.path.join(d, n)):
            continue            # a directory put in the way of a backup name: not a log file
        if n == b:
            idx = 0
        elif n.startswith(b + '.') and n[len(b) + 1:].isdigit() and str(int(n[len(b) + 1:])) == n[len(b) + 1:]:
            idx = int(n[len(b) + 1:])
        else:
            return ('foreign', n)
        with open(os.path.join(d, n), 'rb') as f:
            out[idx] = f.read()
    return out


@contextlib.contextmanager
def quiet_stderr():
    """Handler.handleError prints tracebacks to sys.stderr; keep them."""
    old = sys.stderr
    buf = io.StringIO()
    sys.stderr = buf
    try:
        yield buf
    finally:
        sys.stderr = old


class Rig(object):
    """A fresh directory with `n` real handlers created through handle_file on one path."""

    def __init__(self, workdir, maxbytes, backups, n=1, tag='rig'):
        from supervisor import loggers
        self.loggers_mod = loggers
        self.d = os.path.join(workdir, tag)
        if os.path.isdir(self.d):
            for leftover in os.listdir(self.d):
                os.remove(os.path.join(self.d, leftover))
        else:
            os.makedirs(self.d)
        self.base = os.path.join(self.d, 'log')
        self.loggers = []
        for _ in range(n):
            lg = loggers.getLogger()
            loggers.handle_file(lg, self.base, '%(message)s', rotating=not not maxbytes,
                                maxbytes=maxbytes, backups=backups)
            self.loggers.append(lg)
        self.tmp = 0

    def apply(self, op, who=0):
        """Returns None or the exception that came out."""
        k = op[0]
        try:
            with quiet_stderr():
                if k == 'w':
                    self.loggers[who].info(bytes(op[-1]))
                elif k == 'c':
                    for h in self.loggers[who].handlers:
                        h.remove()
                        h.reopen()
                elif k == 'r':
                    for h in self.loggers[who].handlers:
                        h.reopen()
                elif k == 'd':
                    try:
                        os.remove(fname(self.base, op[1]))
                    except OSError:
                        pass
                elif k == 'x':
                    self.tmp += 1
                    t = os.path.join(os.path.dirname(self.d), 'tmp-%d-%d' % (os.getpid(), self.tmp))
                    with open(t, 'wb') as f:
                        f.write(bytes(op[2]))
                    os.rename(t, fname(self.base, op[1]))
                else:
                    raise AssertionError(op)
        except Exception as e:     # what the caller of emit/removelogs would see
            return e
        return None

    def snap(self):
        return snapshot(self.d, self.base)

    def close(self):
        for lg in self.loggers:
            with quiet_stderr():
                try:
                    lg.close()
                except Exception:
                    pass


# ---------------------------------------------------------------- the property
# judged on the observed files (used to classify disagreements and to recognise
# the shared-log finding)

def judge_sizes(snap, maxbytes, backups, after_write):
    """None or a description of a violated bound (file set, backup sizes, live size)."""
    if not isinstance(snap, dict):
        return 'foreign file %r' % (snap,)
    nb = max(backups, 0)
    for i in snap:
        if i < 0 or i > nb:
            return 'file .%d exists with backups=%d' % (i, backups)
    if maxbytes > 0:
        for i, c in snap.items():
            if i >= 1 and len(c) < maxbytes:
                return 'backup .%d has %d bytes < maxbytes %d' % (i, len(c), maxbytes)
        if after_write and 0 in snap and len(snap[0]) >= maxbytes:
            return 'live log has %d bytes >= maxbytes %d after a completed write' % (len(snap[0]), maxbytes)
    return None


def judge_suffix(snap, written):
    """The concatenation .N ... .1 log must be a suffix of everything written."""
    if not isinstance(snap, dict):
        return 'foreign file'
    cat = b''.join(snap[i] for i in sorted(snap, reverse=True))
    if not written.endswith(cat):
        return 'concatenation of the files (%d bytes) is not a suffix of the %d bytes written' % (len(cat), len(written))
    return None
