"""C10 correspondence driver: runs operation lists on the real listener code
(c10_env) and renders what was observed as Coq terms for SV.C10.Proc.check_sys.

An operation list is JSON-able:
  ['feed', i, bytes]            stdout of listener i readable, readfd returns bytes (b'' = EOF)
  ['writable', i, w]            stdin dispatcher of listener i polled writable
  ['spawn', i, pid] ['running', i] ['stop', i] ['finish', i, last, w, quick]
  ['dispatch', vid, [w, ...]]   pool._dispatchEvent(event vid); w per listener
with w = ['room', n] | ['again'] | ['epipe'] | ['err'].
"""
import sys

import c10_env as env
from c10_env import events, sprocess, sdisp, ProcessStates, EventListenerStates
from vlib import zlit, bytes_lit, blit, coq_opt, coq_list


class RecSubprocess(sprocess.Subprocess):
    """the real Subprocess; assignments to listener_state are also recorded"""

    @property
    def listener_state(self):
        return self.__dict__.get('_ls')

    @listener_state.setter
    def listener_state(self, v):
        self.__dict__['_ls'] = v
        rec = self.__dict__.get('_ls_rec')
        if rec is not None:
            rec(self, v)


class World(object):
    def __init__(self, nlisteners=1, handler_kind=0, strip_ansi=False):
        self.options = env.fresh_world()
        # options.strip_ansi concerns the child log only; every listener gets a child log (attached at spawn)
        self.options.strip_ansi = bool(strip_ansi)
        self.strip_ansi = bool(strip_ansi)
        self.logged = []         # (data read, bytes given to childlog.info) per stdout read
        self.outs = []
        self.cur = None
        self.recording = False
        base = sdisp.default_handler if handler_kind == 0 else env.test_handler

        def handler(event, response):
            base(event, response)
            self.outs.append(('processed', self.cur, getattr(event, 'vid', None)))
        events.subscribe(events.EventRejectedEvent, self._on_rejected)
        self.pool = env.Pool(self.options, 'p', nlisteners, buffer_size=50, handler=handler)
        for p in self.pool.procs:
            ls = p.listener_state
            p.__class__ = RecSubprocess
            p.__dict__['_ls'] = ls
            p.__dict__['_ls_rec'] = self._on_state
        self.events = {}

    def _on_rejected(self, rej):
        i = self.pool.procs.index_is(rej.process) if hasattr(self.pool.procs, 'index_is') else \
            [k for k, p in enumerate(self.pool.procs) if p is rej.process][0]
        self.outs.append(('rejected', i, getattr(rej.event, 'vid', None) if rej.event is not None else None))

    def _on_state(self, proc, v):
        if self.recording:
            i = [k for k, p in enumerate(self.pool.procs) if p is proc][0]
            self.outs.append(('state', i, v))

    def event(self, vid):
        if vid not in self.events:
            e = env.Ev(vid)
            e.serial = vid
            e.pool_serials = {'p': vid}
            self.events[vid] = e
        return self.events[vid]

    def envelope(self, vid):
        e = self.event(vid)
        from supervisor.compat import as_bytes
        return as_bytes(self.pool.group._eventEnvelope(e.__class__, e.serial, e.pool_serials['p'], e.payload()))

    # ---- one operation; returns the list of model-level effects (Coq terms)
    def apply(self, op):
        self.outs = []
        pool = self.pool
        kind = op[0]
        souts = []
        try:
            if kind == 'feed':
                self.cur = op[1]
                self.recording = True
                d = pool.stdout_disp(pool.procs[op[1]])
                n0 = len(d.childlog.lines) if d is not None and d.childlog is not None else 0
                ok = pool.op_feed(op[1], bytes(op[2]))
                self.recording = False
                if ok and d.childlog is not None:
                    new = [m for lv, m in d.childlog.lines[n0:] if lv == 'info']
                    if bytes(op[2]):
                        self.logged.append((bytes(op[2]), new[0] if len(new) == 1 else None))
                    elif new:
                        self.logged.append((b'', None))
                if not ok:
                    return ['SInapplicable']
                r = self._render_outs()
                if pool.misrouted is not None:
                    r.append('SRaise (* bytes of listener %d were handled by the dispatcher of listener %r *)' % pool.misrouted)
                    pool.misrouted = None
                return r
            if kind == 'writable':
                r = pool.op_writable(op[1], tuple(op[2]))
                return ['SRaise'] if r == 'raise' else []
            if kind == 'spawn':
                if not pool.op_spawn(op[1], op[2]):
                    return ['SInapplicable']
                pool.stdout_disp(pool.procs[op[1]]).childlog = env.RecLogger()
                return []
            if kind == 'running':
                return [] if pool.op_running(op[1]) else ['SInapplicable']
            if kind == 'stop':
                return [] if pool.op_stop(op[1]) else ['SInapplicable']
            if kind == 'stopfail':
                return [] if pool.op_stopfail(op[1]) else ['SInapplicable']
            if kind == 'spawnfail':
                return [] if pool.op_spawnfail(op[1]) else ['SInapplicable']
            if kind == 'finish':
                self.cur = op[1]
                self.recording = True
                r = pool.op_finish(op[1], bytes(op[2]), tuple(op[3]), op[4])
                self.recording = False
                if r is False:
                    return ['SInapplicable']
                # ProcessState notifications of change_state are not part of the C10 model
                o = self._render_outs()
                if r == 'raise':
                    o.append('SRaise')
                return o
            if kind == 'dispatch':
                e = self.event(op[1])
                log, r = pool.op_dispatch(e, [tuple(w) for w in op[2]])
                for i, res in log:
                    if res == 'ok':
                        souts.append('SSent %d %s' % (i, zlit(op[1])))
                    elif res == 'epipe':
                        souts.append('SEpipe %d' % i)
                    else:
                        souts.append('SRaise')
                if r is False:
                    souts.append('SNotSent')
                return souts
        except RecursionError:
            self.recording = False
            return ['SOut %d OCrash' % (self.cur or 0)]
        except BaseException as e:  # judged by the monitor: nothing may escape from these entry points
            self.recording = False
            return self._render_outs() + ['SRaise (* %s escaped from %s *)' % (type(e).__name__, kind)]
        raise ValueError('unknown operation %r' % (op,))

    def _render_outs(self):
        r = []
        for o in self.outs:
            if o[0] == 'state':
                r.append('SOut %d (OState %s)' % (o[1], env.LS_NAMES[o[2]]))
            elif o[0] == 'rejected':
                r.append('SOut %d (ORejected %s)' % (o[1], coq_opt(zlit(o[2])) if o[2] is not None else 'None'))
            elif o[0] == 'processed':
                r.append('SOut %d (OProcessed %s)' % (o[1], coq_opt(zlit(o[2])) if o[2] is not None else 'None'))
        return r

    # ---- observation of one process as a Coq `proc`
    def obs_listener(self, p):
        so = self.pool.stdout_disp(p)
        evid = getattr(p.event, 'vid', -1) if p.event is not None else None
        ls = env.LS_NAMES.get(p.listener_state, 'ACK') if p.listener_state is not None else 'ACK'
        if so is not None:
            return '(mkL %s %s %s %s %s %s)' % (
                ls, bytes_lit(so.state_buffer), coq_opt(zlit(so.resultlen)) if so.resultlen is not None else 'None',
                bytes_lit(so.result), coq_opt(zlit(evid)) if evid is not None else 'None', blit(so.closed))
        return '(mkL %s [] None [] %s true)' % (ls, coq_opt(zlit(evid)) if evid is not None else 'None')

    def obs_proc(self, p):
        pool = self.pool
        si = pool.stdin_disp(p)
        pipe = pool.pipe(p)
        l = self.obs_listener(p)
        return '(mkP %s %s %s %s %s %s %s %s %s [])' % (
            env.PS_NAMES[p.state], zlit(p.pid), blit(p.killing), l, blit(si is not None),
            bytes_lit(si.input_buffer) if si is not None else '[]',
            blit(si.closed) if si is not None else 'true',
            bytes_lit(pipe.accepted) if pipe is not None else '[]',
            blit(pipe.broken) if pipe is not None else 'false')

    def raw_key(self):
        """cheap hashable summary of the same attributes (no Coq rendering)"""
        out = []
        pool = self.pool
        for p in pool.procs:
            so, si, pipe = pool.stdout_disp(p), pool.stdin_disp(p), pool.pipe(p)
            out.append((p.state, p.pid, p.killing, p.listener_state,
                        getattr(p.event, 'vid', -1) if p.event is not None else None,
                        (so.state_buffer, so.resultlen, so.result, so.closed) if so is not None else None,
                        (si.input_buffer, si.closed) if si is not None else None,
                        (pipe.accepted, pipe.broken, pipe.hangs) if pipe is not None else None))
        return tuple(out)

    def obs_key(self):
        """hashable summary of everything the model compares"""
        return tuple(self.obs_proc(p) for p in self.pool.procs)

    def obs_sys(self):
        return coq_list([self.obs_proc(p) for p in self.pool.procs])


def w_term(w):
    if w[0] == 'room':
        return '(WRoom %s)' % zlit(w[1])
    return {'again': 'WAgain', 'epipe': 'WEpipe', 'err': 'WErr'}[w[0]]


def op_term(world, op):
    k = op[0]
    if k == 'feed':
        return '(SProc %d (PFeed %s))' % (op[1], bytes_lit(bytes(op[2])))
    if k == 'writable':
        return '(SProc %d (PWritable %s))' % (op[1], w_term(op[2]))
    if k == 'spawn':
        return '(SProc %d (PSpawn %s))' % (op[1], zlit(op[2]))
    if k == 'running':
        return '(SProc %d PRunning)' % op[1]
    if k == 'stop':
        return '(SProc %d PStop)' % op[1]
    if k == 'stopfail':
        return '(SProc %d PStopFail)' % op[1]
    if k == 'spawnfail':
        return '(SProc %d PSpawnFail)' % op[1]
    if k == 'finish':
        return '(SProc %d (PFinish %s %s %s))' % (op[1], bytes_lit(bytes(op[2])), w_term(op[3]), blit(op[4]))
    if k == 'dispatch':
        return '(SDispatch %s %s %s)' % (zlit(op[1]), bytes_lit(world.envelope(op[1])), coq_list([w_term(w) for w in op[2]]))
    raise ValueError(op)


def run_case(nlisteners, handler_kind, setup_ops, ops, maxdig, strip_ansi=False):
    """Run setup_ops then ops on a fresh world.  Returns (coq_case, trace) where
    trace = [(obs_key, outs)] after every op of `ops`."""
    w = World(nlisteners, handler_kind, strip_ansi)
    for op in setup_ops:
        w.apply(op)
    del w.logged[:]
    start = w.obs_sys()
    run_case.last_start = w.raw_key()
    run_case.last_start_listeners = [w.obs_listener(p) for p in w.pool.procs]
    op_terms, exp_terms, trace = [], [], []
    for op in ops:
        op_terms.append(op_term(w, op))
        outs = w.apply(op)
        key = w.obs_key()
        trace.append((w.raw_key(), tuple(outs)))
        exp_terms.append('(%s, %s)' % (coq_list(list(key)), coq_list(outs)))
    run_case.last_final_listeners = [w.obs_listener(p) for p in w.pool.procs]
    run_case.last_logged = list(w.logged)
    case = '(%s, %s, %s,\n     %s,\n     %s)' % (zlit(handler_kind), zlit(maxdig), start, coq_list(op_terms), coq_list(exp_terms))
    return case, trace


SETUPS = {
    'ACK': [['spawn', 0, 101], ['running', 0]],
    'READY': [['spawn', 0, 101], ['running', 0], ['feed', 0, b'READY\n']],
    'BUSY': [['spawn', 0, 101], ['running', 0], ['feed', 0, b'READY\n'], ['dispatch', 7, [['room', env.BIG]]]],
    'UNKNOWN': [['spawn', 0, 101], ['running', 0], ['feed', 0, b'XXXXXXX']],
}


# ---------------------------------------------------------------- monitors
# Direct checks of the property statement on an implementation trace (raw keys):
# per process (state, pid, killing, listener_state, event, (buf, rlen, result,
# closed) | None, (ibuf, iclosed) | None, (accepted, broken) | None).

def monitor(start, ops, trace, envelopes):
    """Returns None, or a description of the first step at which the
    implementation's own trace breaks the property statement."""
    RUNNING, READY, BUSY, UNKNOWN = (env.ProcessStates.RUNNING, EventListenerStates.READY,
                                     EventListenerStates.BUSY, EventListenerStates.UNKNOWN)
    n = len(start)
    bal = [1 if start[i][4] is not None else 0 for i in range(n)]
    written = []
    for i in range(n):
        acc = start[i][7][0] if start[i][7] is not None else b''
        ib = start[i][6][0] if start[i][6] is not None else b''
        written.append(acc + ib)
    pre = start
    for k, (op, (post, outs)) in enumerate(zip(ops, trace)):
        kind = op[0]
        where = {'step': k, 'operation': [x if not isinstance(x, (bytes, bytearray)) else list(x) for x in op]}
        for i in range(n):
            if post[i][7] is not None and post[i][7][2] > (pre[i][7][2] if pre[i][7] is not None and kind != 'spawn' else 0):
                return dict(where, broken='supervisord would sleep in write(2) on the stdin of listener %d: the descriptor '
                                          'is blocking (make_pipes did not set O_NONBLOCK) and the data does not fit the '
                                          'room the pipe has (large envelope, or a listener that does not read)' % i)
        if kind == 'writable' and op[2][0] == 'room' and pre[op[1]][6] is not None and pre[op[1]][7] is not None:
            # a write event with enough room, stdin open, pipe intact: the rest of a partly written
            # envelope must go out - also while the listener is being stopped and finishes its event
            i = op[1]
            ibuf, iclosed = pre[i][6]
            if ibuf and not iclosed and not pre[i][7][1] and op[2][1] >= len(ibuf) and pre[i][1]:
                if post[i][6] is None or post[i][6][0] != b'' or post[i][7][0] != pre[i][7][0] + ibuf:
                    return dict(where, broken='listener %d: %d bytes of a partly written envelope stay unsent although its '
                                              'stdin is open and writable (process state %s, killing=%s): the listener '
                                              'received a header announcing more payload than it ever gets'
                                              % (i, len(ibuf), pre[i][0], pre[i][2]))
        for o in outs:
            if o.startswith('SRaise (*') and 'escaped from' in o:
                return dict(where, broken='an exception left the listener code and would reach the main loop: ' + o[10:-3])
            if o.startswith('SRaise (* bytes of listener'):
                return dict(where, broken='output of one listener reached the state machine of another: ' + o[10:-3] +
                                          ' (a stale dispatcher is registered for a descriptor number that was reused)')
        if kind == 'dispatch' and 'SRaise' in outs and not any(w[0] == 'err' for w in op[2]):
            return dict(where, broken='_dispatchEvent raised although no write failed with an error other than EAGAIN/EPIPE '
                                      '(a full pipe must count as 0 bytes sent: the listener goes BUSY and gets the '
                                      'envelope with the next write events)')
        if kind == 'finish' and 'SInapplicable' not in outs and 'SRaise' not in outs and post[op[1]][4] is not None:
            return dict(where, broken='listener %d died holding event %r and still holds it: the event was not returned '
                                      'to the pool (process state before: %s, killing=%s)' % (op[1], post[op[1]][4], pre[op[1]][0], pre[op[1]][2]))
        if kind == 'finish' and 'SRaise' in outs:
            return dict(where, broken='an exception escaped from finish() (drain of a dead listener): it would end the main loop')
        if kind != 'dispatch':
            i = op[1]
            for j in range(n):
                if j != i and post[j] != pre[j]:
                    return dict(where, broken='an operation on listener %d changed listener %d' % (i, j))
            if kind == 'spawn' and 'SInapplicable' not in outs:
                written[i] = b''
            if kind == 'feed' and pre[i][3] == UNKNOWN and pre[i][5] is not None and not pre[i][5][3]:
                if post[i][3] != UNKNOWN or post[i][5][0] != b'' or outs:
                    return dict(where, broken='a listener in UNKNOWN state reacted to its output')
        for o in outs:
            if o.startswith('SSent '):
                i = int(o.split()[1])
                vid = op[1]
                if not (pre[i][0] == RUNNING and pre[i][3] == READY and post[i][3] == BUSY and post[i][4] == vid):
                    return dict(where, broken='event sent to a listener that was not RUNNING+READY or is not BUSY afterwards')
                bal[i] += 1
            elif o.startswith('SOut ') and ('(ORejected (Some' in o or '(OProcessed (Some' in o):
                bal[int(o.split()[1])] -= 1
        if kind == 'dispatch':
            # a write that reached the stdin dispatcher appended one whole envelope
            for i in range(n):
                if pre[i][6] is not None and post[i][6] is not None and pre[i][7] is not None and \
                        len(post[i][7][0]) + len(post[i][6][0]) > len(pre[i][7][0]) + len(pre[i][6][0]):
                    written[i] += envelopes[op[1]]
        for i in range(n):
            slot = 1 if post[i][4] is not None else 0
            if bal[i] != slot or bal[i] not in (0, 1):
                return dict(where, broken='listener %d: events sent minus events given back = %d, event slot = %d' % (i, bal[i], slot))
            if post[i][7] is not None:
                acc = post[i][7][0]
                if post[i][6] is not None and not post[i][6][1]:
                    if acc + post[i][6][0] != written[i]:
                        return dict(where, broken='listener %d: accepted + buffered stdin bytes are not the whole envelopes in order' % i)
                elif not written[i].startswith(acc):
                    return dict(where, broken='listener %d: accepted stdin bytes are not a prefix of the envelopes' % i)
        pre = post
    return None
