"""Drive the real XML-RPC handler (supervisor.xmlrpc.supervisor_xmlrpc_handler)
in-process with a recording request object, as the HTTP channel would.

call() returns one of
  ('value', v)      marshalled result, unmarshalled again with xmlrpclib
  ('fault', code)   a fault struct
  ('http', status)  request.error(status) was called (400 / 500 ...)
  ('deferred', d)   the method answered with a deferred callback; d.poll()
                    advances it and returns None (not done) or one of the above
"""
import sys
from supervisor.compat import xmlrpclib, as_bytes, as_string
from supervisor import xmlrpc as sxmlrpc
from supervisor.http import NOT_DONE_YET


class _ServerLogger(object):
    def __init__(self):
        self.lines = []

    def log(self, *a):
        self.lines.append(a)


class _Server(object):
    def __init__(self):
        self.logger = _ServerLogger()


class _Channel(object):
    def __init__(self):
        self.producers = []
        self.server = _Server()
        self.current_request = None

    def push_with_producer(self, p):
        self.producers.append(p)

    def close_when_done(self):
        pass


class FakeRequest(object):
    version = '1.1'
    command = 'POST'
    uri = '/RPC2'

    def __init__(self):
        self.channel = _Channel()
        self.headers = {}
        self.pushed = []
        self.errors = []
        self.is_done = False
        self.header = []
        self.reply_code = 200
        self.outgoing = []

    def build_reply_header(self):
        return b''

    def log(self, *a):
        pass

    def __setitem__(self, k, v):
        self.headers[k] = v

    def __getitem__(self, k):
        return self.headers[k]

    def has_key(self, k):
        return k in self.headers

    def __contains__(self, k):
        return k in self.headers

    def push(self, data):
        self.pushed.append(data)

    def done(self, *a, **kw):
        self.is_done = True

    def error(self, code):
        self.errors.append(code)

    def get_header(self, name):
        return None

    def get_server_url(self):
        return 'http://localhost'


def _decode_body(body):
    try:
        v, _ = xmlrpclib.loads(body)
        return ('value', v[0])
    except xmlrpclib.Fault as f:
        return ('fault', f.faultCode)
    except Exception as e:  # e.g. ExpatError: the response is not well-formed XML
        return ('malformed-xml', type(e).__name__)


class Deferred(object):
    def __init__(self, request, producer):
        self.request = request
        self.producer = producer
        self.result = None

    def poll(self):
        if self.result is not None:
            return self.result
        out = self.producer.more()
        if out is NOT_DONE_YET:
            return None
        if self.request.errors:
            self.result = ('http', self.request.errors[-1])
        elif self.request.pushed:
            body = b''.join(as_bytes(x) for x in self.request.pushed if not hasattr(x, 'more'))
            cl = self.request.headers.get('Content-Length')
            if cl is not None and int(cl) != len(body):
                self.result = ('bad-content-length', (int(cl), len(body)))
            else:
                self.result = _decode_body(body)
        else:
            self.result = ('none', out)
        return self.result


class RpcStack(object):
    def __init__(self, supervisord, subinterfaces):
        self.handler = sxmlrpc.supervisor_xmlrpc_handler(supervisord, subinterfaces)

    def direct(self, method, params=()):
        """The handler's own dispatch (traverse) without XML marshalling."""
        from supervisor.xmlrpc import RPCError
        try:
            return ('value', self.handler.call(method, tuple(params)))
        except RPCError as e:
            return ('fault', e.code)
        except Exception as e:
            return ('exception', type(e).__name__)

    def call(self, method, params=(), raw_xml=None):
        req = FakeRequest()
        data = raw_xml if raw_xml is not None else xmlrpclib.dumps(tuple(params), method)
        self.handler.continue_request(data, req)
        if req.errors:
            return ('http', req.errors[-1])
        if req.channel.producers and not req.pushed:
            return ('deferred', Deferred(req, req.channel.producers[0]))
        if req.pushed:
            body = b''.join(as_bytes(x) for x in req.pushed)
            # what an HTTP client would see: the declared length must be the number of body bytes
            cl = req.headers.get('Content-Length')
            if cl is not None and int(cl) != len(body):
                return ('bad-content-length', (int(cl), len(body)))
            return _decode_body(body)
        return ('none', None)
