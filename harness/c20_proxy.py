"""C20 harness: the real supervisorctl Controller, in-process, against a scripted
server proxy; and the translation of a run into Coq terms for SV.C20.Ctl.

A *script* is a JSON-able list of responses consumed one per XML-RPC call:
  ['unit'] ['str', s] ['int', n]
  ['results', [[name, group, status, description], ...]]
  ['infos', [[name, group, state, statename, description, pid], ...]]
  ['info', [name, group, state, statename, description, pid]]
  ['cinfos', [[name, group, inuse, autostart, group_prio, process_prio], ...]]
  ['reload', added, changed, removed]
  ['fault', code, faultString]            -> xmlrpclib.Fault
  ['sock', errno, text]                   -> socket.error(errno, text)
  ['proto', errcode, errmsg]              -> xmlrpclib.ProtocolError
An exhausted script behaves as ['sock', 0, 'script exhausted'].
A script entry may also be a callable (method, args) -> entry (dynamic oracle); the
entries actually served are recorded in `served`.
"""
import re
import socket

PROTO_URL = '127.0.0.1/RPC2'
DEFAULT_URL = 'http://localhost:9001'


class ScriptedServer(object):
    def __init__(self, script, responder=None):
        self.script = list(script)
        self.responder = responder
        self.calls = []
        self.served = []

    def call(self, method, args):
        from supervisor.compat import xmlrpclib
        self.calls.append((method, list(args)))
        if self.script:
            r = self.script.pop(0)
        elif self.responder is not None:
            r = self.responder(method, args, len(self.calls) - 1)
        else:
            r = ['sock', 0, 'script exhausted']
        self.served.append(r)
        k = r[0]
        if k == 'fault':
            raise xmlrpclib.Fault(r[1], r[2])
        if k == 'sock':
            raise socket.error(r[1], r[2])
        if k == 'proto':
            raise xmlrpclib.ProtocolError(PROTO_URL, r[1], r[2], {})
        return py_value(r)


def py_value(r):
    k = r[0]
    if k == 'unit':
        return True
    if k == 'str':
        return r[1]
    if k == 'int':
        return r[1]
    if k == 'results':
        return [{'name': x[0], 'group': x[1], 'status': x[2], 'description': x[3]} for x in r[1]]
    if k == 'infos':
        return [_info(x) for x in r[1]]
    if k == 'info':
        return _info(r[1])
    if k == 'cinfos':
        return [{'name': x[0], 'group': x[1], 'inuse': x[2], 'autostart': x[3], 'group_prio': x[4],
                 'process_prio': x[5]} for x in r[1]]
    if k == 'reload':
        return [[list(r[1]), list(r[2]), list(r[3])]]
    raise ValueError('bad script entry %r' % (r,))


def _info(x):
    return {'name': x[0], 'group': x[1], 'state': x[2], 'statename': x[3], 'description': x[4], 'pid': x[5]}


class _NS(object):
    def __init__(self, server):
        self._server = server

    def __getattr__(self, name):
        if name.startswith('_'):
            raise AttributeError(name)
        return lambda *a: self._server.call(name, a)


class _Proxy(object):
    def __init__(self, server):
        self.supervisor = _NS(server)


class _Out(object):
    """Records one entry per write() call (Controller.output writes message + newline)."""
    encoding = 'utf-8'

    def __init__(self):
        self.msgs = []

    def write(self, m):
        self.msgs.append(m)

    def flush(self):
        pass


class _HttpShim(object):
    """Stands in for the module supervisor.http_client inside supervisorctl (attribute of the
    supervisorctl module, patched in the harness process only): `tail -f` / `maintail -f` must not
    open real connections.  A GET is recorded as the pseudo call ('_http_get', [path])."""
    def __init__(self, server):
        self._server = server

    def Listener(self):
        return object()

    def HTTPHandler(self, listener, username, password):
        shim = self

        class H(object):
            def get(self, serverurl, path):
                shim._server.calls.append(('_http_get', [path]))

            def close(self):
                pass
        return H()


def make_controller(server, url=DEFAULT_URL):
    """A real Controller over a real ClientOptions object (not realized: no config
    file, no argv) whose getServerProxy returns the scripted proxy."""
    from supervisor import supervisorctl
    from supervisor.options import ClientOptions

    class Opts(ClientOptions):
        def getServerProxy(self):
            return _Proxy(server)

    o = Opts()
    o.interactive = False
    o.prompt = 'supervisor'
    o.serverurl = url
    o.username = None
    o.password = None
    out = _Out()
    supervisorctl.http_client = _HttpShim(server)
    c = supervisorctl.Controller(o, stdout=out)
    return c, out


def plugin_config(workdir, nplugins, url=DEFAULT_URL):
    """A client configuration file with `nplugins` (1 or 2) extra [ctlplugin:*] sections."""
    import os
    path = os.path.join(workdir, 'ctl_plugins_%d.conf' % nplugins)
    text = '[supervisorctl]\nserverurl = %s\n\n[ctlplugin:x]\nsupervisor.ctl_factory = c20_plugins:make_x\n' % url
    if nplugins >= 2:
        text += '\n[ctlplugin:y]\nsupervisor.ctl_factory = c20_plugins:make_y\n'
    with open(path, 'w') as f:
        f.write(text)
    return path


def run_real_configured(line, script, config_path):
    """Controller.onecmd(line) with a real ClientOptions realized from a configuration file
    (so options.plugin_factories holds the default plugin followed by the configured ones)."""
    from supervisor import supervisorctl
    from supervisor.options import ClientOptions
    srv = ScriptedServer(script)

    class Opts(ClientOptions):
        def getServerProxy(self):
            return _Proxy(srv)

    o = Opts()
    o.realize(['-c', config_path])
    o.interactive = False
    out = _Out()
    supervisorctl.http_client = _HttpShim(srv)
    c = supervisorctl.Controller(o, stdout=out)
    escaped = None
    try:
        c.onecmd(line)
    except BaseException as e:
        escaped = '%s: %s' % (type(e).__name__, e)
    return {'msgs': list(out.msgs), 'status': c.exitstatus, 'calls': srv.calls, 'escaped': escaped,
            'plugins': [p.name for p in o.plugins]}


_HELP = {}


def help_texts():
    """messages printed by each help_<topic>() of the real plugin"""
    if not _HELP:
        srv = ScriptedServer([])
        c, out = make_controller(srv)
        plugin = c.options.plugins[0]
        for a in dir(plugin):
            if a.startswith('help_'):
                del out.msgs[:]
                getattr(plugin, a)()
                _HELP[a[5:]] = list(out.msgs)
    return _HELP


def run_real(line, script, url=DEFAULT_URL, responder=None):
    """Run Controller.onecmd(line); returns dict(msgs, status, calls, served, escaped)."""
    srv = ScriptedServer(script, responder)
    c, out = make_controller(srv, url)
    escaped = None
    try:
        c.onecmd(line)
    except BaseException as e:  # a traceback escaping onecmd is a finding
        escaped = '%s: %s' % (type(e).__name__, e)
    return {'msgs': list(out.msgs), 'status': c.exitstatus, 'calls': srv.calls, 'served': srv.served,
            'escaped': escaped}


def run_main(words, script, url=DEFAULT_URL, stdin_text=None, config_path=None):
    """The one-shot entry point: supervisorctl.main(['-s', url] + words) with a real ClientOptions
    (real realize(): argv parsing, no config file) whose getServerProxy returns the scripted proxy.
    Returns dict(msgs, exit_code, calls); exit_code is what sys.exit() was called with."""
    import sys
    from supervisor import supervisorctl
    from supervisor.options import ClientOptions
    srv = ScriptedServer(script)

    class Opts(ClientOptions):
        def getServerProxy(self):
            return _Proxy(srv)

    out = _Out()
    old = sys.stdout
    supervisorctl.http_client = _HttpShim(srv)
    code = 'main() returned without sys.exit'
    escaped = None
    old_in = sys.stdin
    try:
        sys.stdout = out
        if stdin_text is not None:
            import io
            sys.stdin = io.StringIO(stdin_text)
        try:
            supervisorctl.main(args=(['-c', config_path] if config_path else []) + ['-s', url] + list(words),
                               options=Opts())
        except SystemExit as e:
            code = e.code
        except BaseException as e:
            escaped = '%s: %s' % (type(e).__name__, e)
    finally:
        sys.stdout = old
        sys.stdin = old_in
    return {'msgs': list(out.msgs), 'exit_code': code, 'calls': srv.calls, 'escaped': escaped}


def enc_warning():
    from supervisor import supervisorctl
    return supervisorctl.not_all_langs()


# ---------------------------------------------------------------- Coq terms

def cs(s):
    """Coq string term."""
    if all(32 <= ord(ch) <= 126 for ch in s):
        return '"%s"' % s.replace('"', '""')
    if any(ord(ch) > 255 for ch in s):
        raise ValueError('non latin-1 text: %r' % s)
    return '(sb [%s])' % '; '.join(str(ord(ch)) for ch in s)


def cz(n):
    return '(%d)' % n if n < 0 else '%d' % n


def cb(b):
    return 'true' if b else 'false'


def clist(items):
    return '[' + '; '.join(items) + ']'


def sock_class(errno_):
    return type(socket.error(errno_, 'x')).__name__


def coq_presult(x):
    return '(Build_presult %s %s %s %s)' % (cs(x[0]), cs(x[1]), cz(x[2]), cs(x[3]))


def coq_pinfo(x):
    return '(Build_pinfo %s %s %s %s %s %s)' % (
        cs(x[0]), cs(x[1]), cz(x[2]), cs(x[3]), cs(x[4]), cz(x[5]))


def coq_resp(r):
    k = r[0]
    if k == 'unit':
        return 'RVal VUnit'
    if k == 'str':
        return 'RVal (VStr %s)' % cs(r[1])
    if k == 'int':
        return 'RVal (VInt %s)' % cz(r[1])
    if k == 'results':
        return 'RVal (VResults %s)' % clist(coq_presult(x) for x in r[1])
    if k == 'infos':
        return 'RVal (VInfos %s)' % clist(coq_pinfo(x) for x in r[1])
    if k == 'info':
        return 'RVal (VInfo %s)' % coq_pinfo(r[1])
    if k == 'cinfos':
        return 'RVal (VCInfos %s)' % clist(
            '(Build_cinfo %s %s %s %s %s %s)' % (
                cs(x[0]), cs(x[1]), cb(x[2]), cb(x[3]), cz(x[4]), cz(x[5])) for x in r[1])
    if k == 'reload':
        return 'RVal (VReload %s %s %s)' % tuple(clist(cs(n) for n in r[i]) for i in (1, 2, 3))
    if k == 'fault':
        return 'RFault %s %s' % (cz(r[1]), cs(r[2]))
    if k == 'sock':
        return 'RSock %s %s %s' % (cz(r[1]), cs(sock_class(r[1])), cs(r[2]))
    if k == 'proto':
        return 'RProto %s %s %s' % (cz(r[1]), cs(PROTO_URL), cs(r[2]))
    raise ValueError('bad script entry %r' % (r,))


_ERR = re.compile(r"^error: <class '([^']*)'>, (.*): file: (.*) line: (\d+)$", re.S)
NOGROUP = 'ERROR: no such group: '


def canon_lines(msgs):
    """messages -> list of ('text', s) | ('err', cls, v) | ('help', topic) | ('raw', repr)"""
    helps = help_texts()
    out = []
    i = 0
    n = len(msgs)
    while i < n:
        hit = None
        for topic, seq in helps.items():
            if seq and msgs[i:i + len(seq)] == seq:
                if hit is None or len(seq) > len(helps[hit]):
                    hit = topic
        if hit is not None:
            out.append(('help', hit))
            i += len(helps[hit])
            continue
        m = msgs[i]
        i += 1
        if not isinstance(m, str) or not m.endswith('\n'):
            out.append(('raw', repr(m)))
            continue
        m = m[:-1]
        e = _ERR.match(m)
        if e:
            out.append(('err', e.group(1), e.group(2)))
        else:
            out.append(('text', m))
    # the 'no such group' messages of do_update come out in set order: sort each run
    j = 0
    while j < len(out):
        k = j
        while k < len(out) and out[k][0] == 'text' and out[k][1].startswith(NOGROUP):
            k += 1
        if k - j > 1:
            out[j:k] = sorted(out[j:k])
        j = max(k, j + 1)
    return out


def coq_line(l):
    if l[0] == 'text':
        return 'LText %s' % cs(l[1])
    if l[0] == 'err':
        return 'LErr %s %s' % (cs(l[1]), cs(l[2]))
    if l[0] == 'help':
        return 'LHelp %s' % cs(l[1])
    raise ValueError('unrepresentable output %r' % (l,))


def coq_call(c):
    m, args = c
    items = []
    for a in args:
        if isinstance(a, bool) or not isinstance(a, (int, str)):
            raise ValueError('unrepresentable argument %r' % (a,))
        items.append('AZ %s' % cz(a) if isinstance(a, int) else 'AS %s' % cs(a))
    return '(mkcall %s %s)' % (cs(m), clist(items))


def coq_case(line, served, lines, status, calls, url=DEFAULT_URL, enc=None):
    """A term of type Ctl.ctl_case."""
    return '(mkcase %s %s %s %s %s %s %s)' % (
        cs(url), 'None' if enc is None else '(Some %s)' % cs(enc), cs(line),
        clist(coq_resp(r) for r in served), clist(coq_line(l) for l in lines), cz(status),
        clist(coq_call(c) for c in calls))


# ---------------------------------------------------------------- fast comparison
# Elaborating string literals dominates coqc's time (about 20 KB/s), so every
# distinct string of a shard is defined once (Definition sN := "...") and the case
# terms refer to it by name.

_STR = re.compile(r'"(?:[^"]|"")*"')


def pooled(terms):
    """-> (preamble defining the distinct string literals, rewritten terms)"""
    pool = {}

    def sub(m):
        s = m.group(0)
        if s not in pool:
            pool[s] = 's%d_' % len(pool)
        return pool[s]
    out = [_STR.sub(sub, t) for t in terms]
    pre = ''.join('Definition %s := %s.\n' % (v, k) for k, v in pool.items())
    return pre, out


def compare(vlib, imports, case_type, check_fn, terms, workdir, tag, preamble, shard=500):
    """vlib.coq_compare shard by shard (each shard with its own string pool), in parallel.
    Returns (bad indices, errors)."""
    from concurrent.futures import ThreadPoolExecutor
    jobs = []
    for k in range(0, len(terms), shard):
        pre, ts = pooled(terms[k:k + shard])
        jobs.append((k, pre, ts))

    def one(job):
        k, pre, ts = job
        bad, errs = vlib.coq_compare(imports, case_type, check_fn, ts, workdir, shard=len(ts) + 1,
                                     tag='%s%d' % (tag, k // shard), preamble=preamble + pre)
        return [k + i for i in bad], errs
    bad, errs = [], []
    with ThreadPoolExecutor(max_workers=vlib.NCPU) as ex:
        for b, e in ex.map(one, jobs):
            bad += b
            errs += e
    return sorted(bad), errs


# ------------------------------------------------ real transport against a threaded HTTP server
class RealHttpServer(object):
    """A threaded XML-RPC server on 127.0.0.1:<free port> (stdlib SimpleXMLRPCServer, HTTP/1.1 keep-alive)
    answering the supervisor namespace; supervisorctl talks to it through the REAL ClientOptions.getServerProxy /
    xmlrpc.SupervisorTransport (persistent connection, Content-Length per request).  `faults` maps a process /
    group name to (code, text).  Every call received is recorded in `calls`."""
    def __init__(self, faults=None):
        self.faults = faults or {}
        self.calls = []

    def _dispatch(self, method, params):
        from supervisor.compat import xmlrpclib
        self.calls.append((method, list(params)))
        m = method.split('.', 1)[-1]
        if m == 'getVersion':
            return '3.0'
        if params and isinstance(params[0], str) and params[0] in self.faults:
            c, text = self.faults[params[0]]
            raise xmlrpclib.Fault(c, text)
        if m == 'getProcessInfo':
            return {'name': params[0], 'group': params[0], 'state': 20, 'statename': 'RUNNING', 'description': 'pid 77',
                    'pid': 77}
        if m == 'getAllProcessInfo':
            return [{'name': 'worker:0', 'group': 'web', 'state': 20, 'statename': 'RUNNING', 'description': 'pid 5', 'pid': 5},
                    {'name': 'a', 'group': 'a', 'state': 20, 'statename': 'RUNNING', 'description': 'pid 6', 'pid': 6}]
        if m.endswith('ProcessGroup') and m != 'addProcessGroup' and m != 'removeProcessGroup':
            return [{'name': 'p', 'group': params[0], 'status': 80, 'description': 'OK'}]
        return True

    def __enter__(self):
        import threading
        from xmlrpc.server import SimpleXMLRPCServer, SimpleXMLRPCRequestHandler
        import socketserver

        class Handler(SimpleXMLRPCRequestHandler):
            protocol_version = 'HTTP/1.1'
            timeout = 3
            rpc_paths = ('/', '/RPC2')

        class Srv(socketserver.ThreadingMixIn, SimpleXMLRPCServer):
            daemon_threads = True

        self.srv = Srv(('127.0.0.1', 0), requestHandler=Handler, logRequests=False, allow_none=True)
        self.srv.register_instance(self)
        self.url = 'http://127.0.0.1:%d' % self.srv.server_address[1]
        self.thread = threading.Thread(target=self.srv.serve_forever, kwargs={'poll_interval': 0.05})
        self.thread.daemon = True
        self.thread.start()
        return self

    def __exit__(self, *a):
        self.srv.shutdown()
        self.srv.server_close()


def run_real_transport(line, server):
    """Controller.onecmd(line) over the real transport (real ClientOptions.getServerProxy)."""
    import socket as _socket
    from supervisor import supervisorctl
    from supervisor.options import ClientOptions
    o = ClientOptions()
    o.interactive = False
    o.prompt = 'supervisor'
    o.serverurl = server.url
    o.username = None
    o.password = None
    out = _Out()
    c = supervisorctl.Controller(o, stdout=out)
    escaped = None
    old = _socket.getdefaulttimeout()
    _socket.setdefaulttimeout(8)
    try:
        c.onecmd(line)
    except BaseException as e:
        escaped = '%s: %s' % (type(e).__name__, e)
    finally:
        _socket.setdefaulttimeout(old)
    return {'msgs': list(out.msgs), 'status': c.exitstatus, 'escaped': escaped}
