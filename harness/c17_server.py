"""C17 harness: the REAL HTTP servers built by supervisor.http.make_http_servers
(unix socket under the work directory and inet on 127.0.0.1 port 0), driven over
the actual sockets with the medusa asyncore map polled in-process.

Probes (none of them changes what the server does):
  * every element of hs.handlers is put behind a `ChainProbe` that records, per
    request, what the dispatch loop saw (command, uri, version, header lines)
    and what match() answered, and delegates to the real element;
  * the handler *inside* each supervisor_auth_handler (or a bare handler, should
    the chain contain one) is put behind an `InnerProbe` that records each
    handle_request call and delegates to the real handler;
  * the supervisord object given to make_http_servers is a `RecordingProxy`:
    every attribute access is logged (so "no RPC method ran, no process was
    touched, no log file was opened" is observable as an empty access log);
  * process stubs log start/stop/signal calls; log files carry SECRET markers.
"""
import os
import socket
import time

import vlib

SECRET_MAIN = b'SECRET-MAINLOG-7f3a'
SECRET_PROC = b'SECRET-PROCLOG-91bc'


class Logger(object):
    def __init__(self):
        self.lines = []

    def _log(self, *a, **k):
        self.lines.append(a)

    critical = error = warn = info = debug = trace = blather = log = _log

    def close(self):
        pass

    handlers = []


class RecordingProxy(object):
    """Transparent proxy that logs every attribute read on the wrapped object."""

    def __init__(self, target, log, name):
        object.__setattr__(self, '_t', target)
        object.__setattr__(self, '_log', log)
        object.__setattr__(self, '_name', name)

    def __getattr__(self, attr):
        object.__getattribute__(self, '_log').append(
            '%s.%s' % (object.__getattribute__(self, '_name'), attr))
        return getattr(object.__getattribute__(self, '_t'), attr)

    def __setattr__(self, attr, v):
        object.__getattribute__(self, '_log').append(
            '%s.%s=' % (object.__getattribute__(self, '_name'), attr))
        setattr(object.__getattribute__(self, '_t'), attr, v)


class PConfig(object):
    def __init__(self, name, logfile):
        self.name = name
        self.stdout_logfile = logfile
        self.stderr_logfile = None
        self.priority = 999
        self.autostart = False
        self.startsecs = 1
        self.stopsignal = 15
        self.command = '/bin/true'


class Proc(object):
    """Process stub: state RUNNING, records every state-changing call."""

    def __init__(self, name, logfile, calls):
        from supervisor import states
        self.config = PConfig(name, logfile)
        self.calls = calls
        self.state = states.ProcessStates.RUNNING
        self.pid = 4242
        self.laststart = 1000
        self.laststop = 0
        self.spawnerr = None
        self.exitstatus = None
        self.delay = 0
        self.killing = False
        self.group = None

    def get_state(self):
        return self.state

    def stop(self):
        from supervisor import states
        self.calls.append(('stop', self.config.name))
        self.state = states.ProcessStates.STOPPED
        self.pid = 0

    def stop_report(self):
        pass

    def spawn(self):
        from supervisor import states
        self.calls.append(('spawn', self.config.name))
        self.state = states.ProcessStates.RUNNING
        self.pid = 4243

    def signal(self, sig):
        self.calls.append(('signal', self.config.name, sig))

    def removelogs(self):
        self.calls.append(('removelogs', self.config.name))

    def reopenlogs(self):
        self.calls.append(('reopenlogs', self.config.name))

    def transition(self):
        pass

    def write(self, chars):
        self.calls.append(('stdin', self.config.name))

    def __lt__(self, other):
        return self.config.priority < other.config.priority


class GConfig(object):
    def __init__(self, name):
        self.name = name
        self.priority = 999


class Group(object):
    def __init__(self, name, procs):
        self.config = GConfig(name)
        self.processes = procs

    def __lt__(self, other):
        return self.config.priority < other.config.priority


class RecNamespace(object):
    """An extra RPC namespace ('rec') whose methods only record the call."""

    def __init__(self, calls):
        self.calls = calls

    def ping(self, *args):
        self.calls.append(('rec.ping',) + tuple(args))
        return 'pong'

    def kill(self, name):
        self.calls.append(('rec.kill', name))
        return True


class Options(object):
    def __init__(self, wd, logger):
        from supervisor import states
        self.mood = states.SupervisorStates.RUNNING
        self.logger = logger
        self.logfile = os.path.join(wd, 'main.log')
        self.identifier = 'supervisor'
        self.server_configs = []
        self.rpcinterface_factories = []
        self.httpservers = []
        self.serverurl = None
        self.pidfile = os.path.join(wd, 'pid')


class Supervisord(object):
    def __init__(self, options, groups):
        self.options = options
        self.process_groups = groups

    def get_state(self):
        return self.options.mood

    def reap(self):
        pass


class ChainProbe(object):
    """Sits where the real chain element sat in hs.handlers."""

    def __init__(self, real, index, tb):
        self.real = real
        self.index = index
        self.tb = tb

    def match(self, request):
        try:
            r = self.real.match(request)
        except BaseException as e:
            self.tb.observed.append((self.index, _req_fields(request), 'crash:' + type(e).__name__))
            raise
        self.tb.observed.append((self.index, _req_fields(request), bool(r)))
        return r

    def handle_request(self, request):
        self.tb.chain_calls.append(self.index)
        return self.real.handle_request(request)

    def __getattr__(self, a):
        return getattr(self.real, a)


class InnerProbe(object):
    def __init__(self, real, index, tb):
        self.real = real
        self.index = index
        self.tb = tb

    def match(self, request):
        return self.real.match(request)

    def handle_request(self, request):
        self.tb.inner_calls.append((self.index, getattr(request, 'auth_info', None)))
        return self.real.handle_request(request)

    def __getattr__(self, a):
        return getattr(self.real, a)


def _req_fields(r):
    return (r.command, r.uri, r.version, list(r.header))


def parse_server_section(wd, username, password, sockname, inet_creds=None):
    """Server configs through the REAL config parser (options.py).  `inet_creds`:
    (user, password) of the inet section when it differs from the unix one."""
    from supervisor.options import ServerOptions, UnhosedConfigParser
    text = '[unix_http_server]\nfile=%s\n' % sockname
    text2 = '[inet_http_server]\nport=127.0.0.1:9001\n'
    iu, ip = inet_creds if inet_creds is not None else (username, password)
    if username is not None:
        text += 'username=%s\n' % username.replace('%', '%%')
    if password is not None:
        text += 'password=%s\n' % password.replace('%', '%%')
    if iu is not None:
        text2 += 'username=%s\n' % iu.replace('%', '%%')
    if ip is not None:
        text2 += 'password=%s\n' % ip.replace('%', '%%')
    parser = UnhosedConfigParser()
    parser.expansions = {}
    parser.read_string(text + text2)
    so = ServerOptions()
    configs = so.server_configs_from_parser(parser)
    for c in configs:
        if c['family'] == socket.AF_INET:
            c['port'] = 0    # any free port (the parser does not accept 0)
    return configs


def parse_sections(wd, tag, sections, expansions=None):
    """Any shape of server sections through the REAL config parser.
    sections: list of (section name, {'username': text or None, 'password': text or None})
    where the texts are written into the file verbatim (so %(ENV_X)s works with
    `expansions`).  Returns the parsed configs (inet ports set to 0 = any free port)."""
    from supervisor.options import ServerOptions, UnhosedConfigParser
    text = ''
    for i, (name, opts) in enumerate(sections):
        text += '[%s]\n' % name
        if name.startswith('unix_http_server'):
            text += 'file=%s\n' % os.path.join(wd, '%s%d.sock' % (tag, i))
        else:
            text += 'port=127.0.0.1:%d\n' % (9001 + i)
        for key in ('username', 'password'):
            if opts.get(key) is not None:
                text += '%s=%s\n' % (key, opts[key])
        text += '\n'
    parser = UnhosedConfigParser()
    parser.expansions = dict(expansions or {})
    parser.read_string(text)
    configs = ServerOptions().server_configs_from_parser(parser)
    for c in configs:
        if c['family'] == socket.AF_INET:
            c['port'] = 0
    return configs, text


def parse_config_file(wd, tag, server_text, environ=None, supervisord_environment=None):
    """A whole configuration file through the REAL ServerOptions.read_config
    (process environment -> environ_expansions, [supervisord] environment=,
    UnhosedConfigParser, server_configs_from_parser).  `environ`: variables put
    into os.environ for the construction of ServerOptions and the parse (restored
    afterwards).  `server_text`: the server sections, with {SOCK0}, {SOCK1} ...
    standing for unix socket paths under wd.  Returns (configs, full text)."""
    from supervisor.options import ServerOptions
    for i in range(4):
        server_text = server_text.replace('{SOCK%d}' % i, os.path.join(wd, '%s%d.sock' % (tag, i)))
    text = '[supervisord]\nlogfile=%s\npidfile=%s\nchildlogdir=%s\n' % (
        os.path.join(wd, tag + '-sd.log'), os.path.join(wd, tag + '-sd.pid'), wd)
    if supervisord_environment:
        text += 'environment=%s\n' % supervisord_environment
    text += '\n' + server_text
    path = os.path.join(wd, tag + '.conf')
    with open(path, 'w') as f:
        f.write(text)
    saved = {}
    try:
        for k, v in (environ or {}).items():
            saved[k] = os.environ.get(k)
            os.environ[k] = v
        so = ServerOptions()
        so.here = wd
        section = so.read_config(path)
        configs = section.server_configs
    finally:
        for k, v in saved.items():
            if v is None:
                os.environ.pop(k, None)
            else:
                os.environ[k] = v
    for c in configs:
        if c['family'] == socket.AF_INET:
            c['port'] = 0
    return configs, text


class Testbed(object):
    """One make_http_servers() result with probes attached."""

    def __init__(self, wd, username, password, tag='s', via_parser=True, inet_creds=None, sections=None,
                 expansions=None, configs=None, config_text=None):
        from supervisor import http as shttp
        from supervisor.medusa import asyncore_25 as asyncore
        from supervisor import rpcinterface
        self.asyncore = asyncore
        self.wd = wd
        self.username, self.password = username, password
        self.logger = Logger()
        self.proc_calls = []
        self.rpc_calls = []
        self.access = []
        self.observed = []
        self.chain_calls = []
        self.inner_calls = []
        with open(os.path.join(wd, 'main.log'), 'wb') as f:
            f.write(b'line one\n' + SECRET_MAIN + b'\n')
        plog = os.path.join(wd, 'p.log')
        with open(plog, 'wb') as f:
            f.write(b'out\n' + SECRET_PROC + b'\n')
        self.proc = Proc('p', plog, self.proc_calls)
        groups = {'g': Group('g', {'p': self.proc})}
        self.proc.group = groups['g']
        opts = Options(wd, self.logger)
        self.sockname = os.path.join(wd, tag + '.sock')
        self.config_text = config_text
        if configs is not None:
            opts.server_configs = configs
        elif sections is not None:
            opts.server_configs, self.config_text = parse_sections(wd, tag, sections, expansions)
        elif via_parser:
            opts.server_configs = parse_server_section(wd, username, password, self.sockname, inet_creds)
        else:
            opts.server_configs = [
                {'family': socket.AF_UNIX, 'file': self.sockname, 'chmod': 0o700, 'chown': (-1, -1),
                 'username': username, 'password': password, 'section': 'unix_http_server', 'name': None},
                {'family': socket.AF_INET, 'host': '127.0.0.1', 'port': 0,
                 'username': username, 'password': password, 'section': 'inet_http_server', 'name': None}]
        self.configs = opts.server_configs
        sup = Supervisord(opts, groups)
        self.sup = sup
        proxy = RecordingProxy(sup, self.access, 'supervisord')
        rc = self.rpc_calls
        opts.rpcinterface_factories = [
            ('supervisor', rpcinterface.make_main_rpcinterface, {}),
            ('rec', lambda supervisord, **kw: RecNamespace(rc), {}),
        ]
        self.servers = shttp.make_http_servers(opts, proxy)
        self.addrs = []
        self.chains = []
        for config, hs in self.servers:
            chain = []
            for i, h in enumerate(list(hs.handlers)):
                wrapped = isinstance(h, shttp.supervisor_auth_handler)
                if wrapped:
                    inner_name = type(h.handler).__name__
                    h.handler = InnerProbe(h.handler, i, self)
                    hs.handlers[i] = ChainProbe(h, i, self)
                else:
                    inner_name = type(h).__name__
                    hs.handlers[i] = ChainProbe(InnerProbe(h, i, self), i, self)
                chain.append((inner_name, wrapped))
            self.chains.append(chain)
            self.inner_names = [n for n, _ in chain]
            if config['family'] == socket.AF_UNIX:
                self.addrs.append((socket.AF_UNIX, config['file']))
            else:
                self.addrs.append((socket.AF_INET, hs.socket.getsockname()))
        del self.access[:]

    def reset(self):
        del self.access[:]
        del self.observed[:]
        del self.chain_calls[:]
        del self.inner_calls[:]
        del self.proc_calls[:]
        del self.rpc_calls[:]
        from supervisor import states
        self.proc.state = states.ProcessStates.RUNNING
        self.proc.pid = 4242

    def poll(self, n=1):
        for _ in range(n):
            self.asyncore.poll(0.0, self.asyncore.socket_map)

    def exchange(self, which, raw, max_polls=400, want_more=False, cuts=()):
        """Send raw bytes on a fresh connection to server #which; poll the server
        until the response is complete (Content-Length satisfied, chunked stream
        started, or the connection closed).  Returns (bytes received, closed).
        `cuts`: offsets at which the request is cut into separately sent segments
        (the server is polled, i.e. reads, between two segments)."""
        bounds = sorted(set(x for x in cuts if 0 < x < len(raw))) + [len(raw)]
        fam, addr = self.addrs[which]
        c = socket.socket(fam, socket.SOCK_STREAM)
        c.settimeout(2.0)
        c.connect(addr)
        c.setblocking(False)
        self.poll(2)
        sent = 0
        buf = b''
        closed = False
        idle = 0
        for it in range(max_polls):
            if sent < len(raw):
                try:
                    nxt = [b for b in bounds if b > sent][0]
                    sent += c.send(raw[sent:min(nxt, sent + 65536)])
                    if sent < len(raw):
                        self.poll(2)          # the channel reads this segment before the next one is sent
                except (BlockingIOError, InterruptedError):
                    pass
                except (BrokenPipeError, ConnectionResetError):
                    sent = len(raw)
            self.poll(1)
            got = False
            try:
                d = c.recv(65536)
                if d == b'':
                    closed = True
                    break
                buf += d
                got = True
            except (BlockingIOError, InterruptedError):
                pass
            except (ConnectionResetError, BrokenPipeError):
                closed = True
                break
            if sent >= len(raw) and response_complete(buf) and not want_more:
                # a few more polls so a pending close is noticed
                for _ in range(3):
                    self.poll(1)
                    try:
                        d = c.recv(65536)
                        if d == b'':
                            closed = True
                            break
                        buf += d
                    except (BlockingIOError, InterruptedError):
                        pass
                    except (ConnectionResetError, BrokenPipeError):
                        closed = True
                        break
                break
            if not got and sent >= len(raw):
                idle += 1
                if idle > 8:
                    # Nothing arrives.  A refusal is produced in the same poll as
                    # the request; only an inner handler that started deferred
                    # work (it touched supervisord) can still answer later, and
                    # deferred producers are polled every `delay` = 0.1 s.
                    if not self.inner_calls or not self.access or self._tail_stuck():
                        break
                    time.sleep(0.01)
                if idle > 60:
                    break
            else:
                idle = 0
        c.close()
        self.poll(3)
        return buf, closed

    def _tail_stuck(self):
        """A tail stream outside chunked mode sits in the globbing producer until
        64 KB accumulate: nothing more will arrive."""
        return bool(self.inner_calls) and self.inner_names[self.inner_calls[0][0]] in (
            'logtail_handler', 'mainlogtail_handler')

    def close(self):
        for config, hs in self.servers:
            hs.close()
        for fd, obj in list(self.asyncore.socket_map.items()):
            try:
                obj.close()
            except Exception:
                pass
        for fam, addr in self.addrs:
            if fam == socket.AF_UNIX:
                try:
                    os.unlink(addr)
                except OSError:
                    pass


def response_complete(buf):
    i = buf.find(b'\r\n\r\n')
    if i < 0:
        return False
    head = buf[:i].decode('latin-1').split('\r\n')
    hd = {}
    for line in head[1:]:
        if ':' in line:
            k, v = line.split(':', 1)
            hd[k.strip().lower()] = v.strip()
    body = buf[i + 4:]
    if 'content-length' in hd:
        try:
            return len(body) >= int(hd['content-length'])
        except ValueError:
            return True
    if hd.get('transfer-encoding', '').lower() == 'chunked':
        # a tail stream never ends: the head plus the first chunk is enough
        return len(body) > 0 or True
    return False


def parse_response(buf):
    """(status or None, headers dict (lower-case names), body)"""
    i = buf.find(b'\r\n\r\n')
    if i < 0:
        return None, {}, buf
    head = buf[:i].decode('latin-1').split('\r\n')
    parts = head[0].split(' ')
    try:
        status = int(parts[1])
    except (IndexError, ValueError):
        status = None
    hd = {}
    for line in head[1:]:
        if ':' in line:
            k, v = line.split(':', 1)
            hd[k.strip().lower()] = v.strip()
    return status, hd, buf[i + 4:]
