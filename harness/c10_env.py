"""Environment seam for the C10 / C09 correspondence runs.

Real classes from /repo's working tree: Subprocess, EventListenerPool,
EventListenerConfig, EventListenerPoolConfig, PEventListenerDispatcher,
PInputDispatcher, events.notify/subscribe.  Replaced: the `options` object
(system calls: make_pipes, fork, readfd, write, kill, close_*; logger) and the
clock seen by supervisor.process (a virtual clock object put in the module
namespace of this harness process only; nothing under /repo is touched).
"""
import errno
import fcntl as _real_fcntl
import os
import sys

import vlib

vlib.ensure_impl_path()

from supervisor import events, process as sprocess, states  # noqa: E402
from supervisor import dispatchers as sdisp  # noqa: E402
from supervisor.options import EventListenerConfig, EventListenerPoolConfig  # noqa: E402
from supervisor.states import ProcessStates, EventListenerStates  # noqa: E402

BIG = 1000000


class VClock(object):
    """stands in for the `time` module inside supervisor.process"""

    def __init__(self):
        self.now = 1000.0

    def time(self):
        return self.now


CLOCK = VClock()
sprocess.time = CLOCK


class RecLogger(object):
    def __init__(self):
        self.lines = []

    def _rec(self, level):
        def f(msg, *a, **k):
            self.lines.append((level, msg))
        return f

    def __getattr__(self, name):
        if name in ('debug', 'info', 'warn', 'error', 'critical', 'trace', 'blather', 'log'):
            return self._rec(name)
        raise AttributeError(name)


class FakePipe(object):
    """kernel side of a listener's stdin: a pipe with finite room.  `blocking` is what the
    real make_pipes left in the descriptor's status flags: on a blocking descriptor a write
    that does not fit would sleep until the listener reads (a deaf listener: for ever) - the
    daemon hangs.  That is counted in `hangs`; the run then goes on as if the listener had
    read, so that the rest of the history can still be observed."""

    def __init__(self, blocking=False):
        self.accepted = b''
        self.broken = False
        self.outcome = ('room', BIG)
        self.calls = 0
        self.blocking = blocking
        self.hangs = 0

    def write(self, data):
        self.calls += 1
        if self.broken:
            raise OSError(errno.EPIPE, 'broken pipe')
        kind = self.outcome[0]
        if self.blocking and kind in ('room', 'again'):
            room = self.outcome[1] if kind == 'room' else 0
            if len(data) > room:
                self.hangs += 1
            self.accepted += data
            return len(data)
        if kind == 'room':
            k = max(0, min(self.outcome[1], len(data)))
            self.accepted += data[:k]
            return k
        if kind == 'again':
            raise OSError(errno.EAGAIN, 'try again')
        if kind == 'epipe':
            self.broken = True
            raise OSError(errno.EPIPE, 'broken pipe')
        raise OSError(errno.EIO, 'io error')


class _OsProxy(object):
    """stands in for `os` inside supervisor.options while make_pipes runs"""

    def __init__(self, opts):
        self._o = opts

    def _alloc(self):
        # like the kernel: the lowest descriptor number that is not open
        fd = 10
        while fd in self._o.open_fds:
            fd += 1
        self._o.open_fds.add(fd)
        self._o.fd_flags.pop(fd, None)
        return fd

    def pipe(self):
        r = self._alloc()
        return r, self._alloc()

    def write(self, fd, data):
        # the kernel side of a listener's stdin
        return self._o.stdin_pipes[fd].write(data)

    def close(self, fd):
        if fd not in self._o.open_fds:
            raise OSError(errno.EBADF, 'bad file descriptor')
        self._o.open_fds.discard(fd)
        self._o.closed_fds.append(fd)

    def __getattr__(self, name):
        return getattr(os, name)


class _FcntlProxy(object):
    def __init__(self, opts):
        self._o = opts

    def fcntl(self, fd, op, arg=0):
        if op == _real_fcntl.F_SETFL:
            self._o.fd_flags[fd] = arg
            return 0
        if op == _real_fcntl.F_GETFL:
            return self._o.fd_flags.get(fd, 0)
        return 0

    def __getattr__(self, name):
        return getattr(_real_fcntl, name)


def _real_options_call(opts, method, *args):
    """run a method of the REAL ServerOptions over the os/fcntl proxies"""
    import supervisor.options as so
    saved = so.os, so.fcntl
    so.os, so.fcntl = _OsProxy(opts), _FcntlProxy(opts)
    try:
        inst = so.ServerOptions.__new__(so.ServerOptions)     # no option parsing needed for these methods
        return getattr(so.ServerOptions, method)(inst, *args)
    finally:
        so.os, so.fcntl = saved


def real_make_pipes(opts, stderr):
    return _real_options_call(opts, 'make_pipes', stderr)


class FakeOptions(object):
    identifier = 's'
    strip_ansi = False
    minfds = 10
    loglevel = 20

    def __init__(self):
        self.logger = RecLogger()
        self.pidhistory = {}
        self.mood = states.SupervisorStates.RUNNING
        self.next_fd = 10
        self.next_pid = 100
        self.reads = {}          # fd -> bytes returned by the next readfd
        self.stdin_pipes = {}    # fd -> FakePipe
        self.closed_fds = []
        self.fd_flags = {}       # fd -> status flags set through fcntl(F_SETFL)
        self.open_fds = set()    # descriptor numbers in use (lowest free number is handed out next)

    # --- system-call seam
    def make_pipes(self, stderr=True):
        """the REAL ServerOptions.make_pipes, run over os/fcntl proxies that hand out descriptor
        numbers and record the status flags set with F_SETFL (self.fd_flags)"""
        fds = real_make_pipes(self, stderr)
        nonblock = self.fd_flags.get(fds['stdin'], 0) & os.O_NONBLOCK
        self.stdin_pipes[fds['stdin']] = FakePipe(blocking=not nonblock)
        return fds

    def close_parent_pipes(self, pipes):
        _real_options_call(self, 'close_parent_pipes', pipes)      # the real method: descriptor numbers become free

    def close_child_pipes(self, pipes):
        _real_options_call(self, 'close_child_pipes', pipes)

    fork_fails = False

    def fork(self):
        if self.fork_fails:
            raise OSError(errno.EAGAIN, 'resource temporarily unavailable')
        return self.next_pid

    # --- what Supervisor.run() touches besides the process groups
    nodaemon = True
    first = False
    process_group_configs = ()

    def openhttpservers(self, supervisord):
        pass

    def setsignals(self):
        pass

    def write_pidfile(self):
        pass

    def cleanup(self):
        pass

    def readfd(self, fd):
        return self.reads.pop(fd, b'')

    def write(self, fd, data):
        # the REAL ServerOptions.write over the os proxy: its return value is what flush() slices by
        return _real_options_call(self, 'write', fd, data)

    kill_fails = False

    def kill(self, pid, sig):
        if self.kill_fails:
            raise OSError(errno.EPERM, 'operation not permitted')

    def stat(self, filename):
        import os
        return os.stat(filename)

    def check_execv_args(self, filename, argv, st):
        pass

    def get_path(self):
        return ['/bin', '/usr/bin']

    def getLogger(self, *a, **k):
        return RecLogger()

    def get_autochildlog_name(self, name, identifier, channel):
        return '/nonexistent/%s-%s-%s.log' % (name, channel, identifier)


def listener_config(options, name, priority=999):
    return EventListenerConfig(
        options, name=name, uid=None, command='/bin/sh', directory=None, umask=None, priority=priority,
        autostart=False, autorestart=False, startsecs=1, startretries=3,
        stdout_logfile=None, stdout_capture_maxbytes=0, stdout_events_enabled=False, stdout_syslog=False,
        stdout_logfile_backups=0, stdout_logfile_maxbytes=0,
        stderr_logfile=None, stderr_capture_maxbytes=0, stderr_logfile_backups=0, stderr_logfile_maxbytes=0,
        stderr_events_enabled=False, stderr_syslog=False,
        stopsignal=15, stopwaitsecs=10, stopasgroup=False, killasgroup=False,
        exitcodes=[0], redirect_stderr=False, environment=None, serverurl=None)


def test_handler(event, response):
    """second result handler of the runs (Listener.test_handler in the model)"""
    if response[:1] == b'!':
        # anything a handler may raise, also exceptions that are no `Exception`: sys.exit(), Ctrl-C, GeneratorExit
        if response[1:2] == b'S':
            raise SystemExit(3)
        if response[1:2] == b'K':
            raise KeyboardInterrupt()
        if response[1:2] == b'G':
            raise GeneratorExit()
        raise KeyError('handler failed')
    if response[:1] != b'O':
        raise sdisp.RejectEvent(response)


PS_NAMES = {
    ProcessStates.STOPPED: 'PS_STOPPED', ProcessStates.STARTING: 'PS_STARTING',
    ProcessStates.RUNNING: 'PS_RUNNING', ProcessStates.BACKOFF: 'PS_BACKOFF',
    ProcessStates.STOPPING: 'PS_STOPPING', ProcessStates.EXITED: 'PS_EXITED',
    ProcessStates.FATAL: 'PS_FATAL', ProcessStates.UNKNOWN: 'PS_UNKNOWN',
}
LS_NAMES = {
    EventListenerStates.ACKNOWLEDGED: 'ACK', EventListenerStates.READY: 'READY',
    EventListenerStates.BUSY: 'BUSY', EventListenerStates.UNKNOWN: 'UNKNOWN',
}


class Ev(events.RemoteCommunicationEvent):
    """a concrete event with a short payload; vid = identifier used by the model"""

    def __init__(self, vid):
        events.RemoteCommunicationEvent.__init__(self, '', '')
        self.vid = vid


class Pool(object):
    """One real EventListenerPool with n real listener Subprocess objects."""

    def __init__(self, options, name, nlisteners, buffer_size=10, pool_events=(), handler=None,
                 priority=999, proc_priority=999, group_class=None, proc_prefix=None,
                 gconfig_class=None, maker=None, defer=False):
        self.options = options
        # process names are unique within a group only: proc_prefix lets different pools use the same names
        self.pconfigs = [listener_config(options, '%s%d' % (proc_prefix or name, i), proc_priority) for i in range(nlisteners)]
        self.gconfig = (gconfig_class or EventListenerPoolConfig)(options, name, priority, self.pconfigs, buffer_size,
                                                                  list(pool_events), handler or sdisp.default_handler)
        # real EventListenerPool (subscribes itself); group_class may be a recording subclass
        # maker: creates the group from the config some other real way (Supervisor.add_process_group)
        self.write_log = []
        self.sent_bytes = []
        if defer:
            return          # the group is made later from self.gconfig (Supervisor.run()); then call attach(group)
        if maker is not None:
            group = maker(self.gconfig)
        else:
            group = self.gconfig.make_group() if group_class is None else group_class(self.gconfig)
        self.attach(group)

    def attach(self, group):
        self.group = group
        self.procs = [self.group.processes[c.name] for c in self.pconfigs]
        assert list(self.group.processes.values()) == self.procs
        self.write_log = []
        self.sent_bytes = []
        for i, p in enumerate(self.procs):
            self._wrap_write(i, p)

    def _wrap_write(self, i, p):
        real = p.write

        def write(chars):
            self.sent_bytes.append(chars)
            try:
                r = real(chars)
            except OSError as e:
                self.write_log.append((i, 'epipe' if e.args[0] == errno.EPIPE else 'err'))
                raise
            self.write_log.append((i, 'ok'))
            return r
        p.write = write

    # --- access to the pieces
    def stdout_disp(self, p):
        fd = p.pipes.get('stdout') if p.pipes else None
        return p.dispatchers.get(fd) if fd is not None else None

    def stdin_disp(self, p):
        fd = p.pipes.get('stdin') if p.pipes else None
        return p.dispatchers.get(fd) if fd is not None else None

    def pipe(self, p):
        return getattr(p, '_vpipe', None)

    # --- operations (return None when the model's guard is not met)
    misrouted = None

    def op_feed(self, i, data):
        """the child of listener i wrote `data` to its stdout: the main loop finds the dispatcher of
        that descriptor number in the combined map of the group (get_dispatchers, as runforever does)"""
        p = self.procs[i]
        own = self.stdout_disp(p)
        if own is None or not own.readable():
            return False
        d = self.group.get_dispatchers().get(own.fd)
        if d is not own:
            # judged by the monitors: the bytes of this child reach another process's dispatcher
            self.misrouted = (i, [k for k, q in enumerate(self.procs) if d is not None and q is d.process])
        if d is None or not d.readable():
            return True
        self.options.reads[d.fd] = data
        d.handle_read_event()
        return True

    def op_writable(self, i, w):
        p = self.procs[i]
        d = self.stdin_disp(p)
        if d is None:
            return 'ok'
        self.pipe(p).outcome = w
        try:
            if d.writable():
                d.handle_write_event()
        except OSError:
            return 'raise'
        return 'ok'

    def op_spawn(self, i, pid):
        p = self.procs[i]
        if p.pid or pid == 0 or p.state not in (ProcessStates.EXITED, ProcessStates.FATAL,
                                                 ProcessStates.BACKOFF, ProcessStates.STOPPED):
            return False
        self.options.next_pid = pid
        r = p.spawn()
        assert r == pid
        p._vpipe = self.options.stdin_pipes[p.pipes['stdin']]
        return True

    def op_spawnfail(self, i):
        """spawn() whose fork() fails: pipes and dispatchers were made, then everything is closed again"""
        p = self.procs[i]
        if p.pid or p.state not in (ProcessStates.EXITED, ProcessStates.FATAL,
                                    ProcessStates.BACKOFF, ProcessStates.STOPPED):
            return False
        self.options.fork_fails = True
        try:
            r = p.spawn()
        finally:
            self.options.fork_fails = False
        assert r is None and p.state == ProcessStates.BACKOFF and not p.pid
        return True

    def op_running(self, i):
        p = self.procs[i]
        if p.state != ProcessStates.STARTING or not p.pid:
            return False
        CLOCK.now += 10          # past startsecs, for this call only
        try:
            p.transition()
        finally:
            CLOCK.now -= 10
        assert p.state == ProcessStates.RUNNING
        return True

    def op_stop(self, i):
        p = self.procs[i]
        if not p.pid or p.state not in (ProcessStates.RUNNING, ProcessStates.STARTING):
            return False
        p.stop()
        return True

    def op_stopfail(self, i):
        """stop() while the kernel refuses the signal (EPERM): the process ends in state UNKNOWN, pid kept"""
        p = self.procs[i]
        if not p.pid or p.state not in (ProcessStates.RUNNING, ProcessStates.STARTING):
            return False
        self.options.kill_fails = True
        try:
            p.stop()
        finally:
            self.options.kill_fails = False
        assert p.state == ProcessStates.UNKNOWN and not p.killing
        return True

    def op_finish(self, i, last, w, quick):
        p = self.procs[i]
        st = p.state
        if not p.pid:
            return False
        if st == ProcessStates.UNKNOWN:
            ok = True
        elif p.killing:
            ok = st == ProcessStates.STOPPING
        elif quick:
            ok = st == ProcessStates.STARTING
        else:
            ok = st in (ProcessStates.RUNNING, ProcessStates.STARTING)
        if not ok:
            return False
        d = self.stdout_disp(p)
        if d is not None:
            self.options.reads[d.fd] = last
        self.pipe(p).outcome = w
        dt = 0.5 if quick else 10
        CLOCK.now += dt
        try:
            p.finish(p.pid, 0)
        except OSError:
            return 'raise'
        finally:
            CLOCK.now -= dt
        return True

    def op_dispatch(self, event, ws):
        """real _dispatchEvent; returns (list of (i, 'ok'|'epipe'|'err'), returned value or 'raise')"""
        for i, p in enumerate(self.procs):
            if self.pipe(p) is not None:
                self.pipe(p).outcome = ws[i] if i < len(ws) else ('room', BIG)
        del self.write_log[:]
        try:
            r = self.group._dispatchEvent(event)
        except OSError:
            r = 'raise'
        return list(self.write_log), r


def fresh_world():
    """new options object, empty subscription table, clock reset"""
    events.clear()
    CLOCK.now = 1000.0
    return FakeOptions()
