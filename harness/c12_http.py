"""C12 harness, HTTP side: the XML-RPC handler as a client reaches it.

`HttpBed(world, workdir)` takes a C12 world (stub daemon) and builds the server
through the REAL supervisor.http.make_http_servers with the configured
`rpcinterface_factories` - the stock 'supervisor' namespace plus a third-party
extension namespace 'ext' ([rpcinterface:ext]) - on an AF_UNIX socket in the
work directory.  Requests are then fed to a REAL deferring_http_channel of that
server (found_terminator, the medusa xmlrpc collector, continue_request,
deferring_http_request.done(), push_with_producer, refill_buffer,
initiate_send, close_when_done); only the connected socket is scripted
(c16b_stream.ScriptedSocket: accepts at most k bytes per send()), and
`supervisor.http.time` is a fake clock so that deferred producers are polled
without sleeping.
"""
import os
import socket

from supervisor.compat import xmlrpclib
from supervisor import http as shttp
from supervisor.http import NOT_DONE_YET
from supervisor.xmlrpc import supervisor_xmlrpc_handler, RPCError, Faults
from rpcstack import RpcStack
from c16b_stream import ScriptedSocket, FakeClock


class ExtNamespace(object):
    """A third-party rpcinterface as the docs describe them (configuration.rst,
    [rpcinterface:x]): constructed by a factory with (supervisord, **config)."""

    version = '1.0'                     # public, not callable
    table = {'a': 1}

    def __init__(self, supervisord, **config):
        self.supervisord = supervisord
        self.config = config

    def ping(self):
        # public and callable, but written without a docstring
        return 'pong'

    def vague(self, x):
        """Does something useful; the author wrote no @param / @return lines."""
        return [x, x]

    def documented(self, name):
        """ Say hello

        @param string name    who to greet
        @return string result the greeting
        """
        return u'héllo ' + name

    def later(self, n):
        """ Answer after n passes of the main loop

        @param int n          number of passes
        @return string result text
        """
        left = [int(n)]

        def cb():
            left[0] -= 1
            if left[0] > 0:
                return NOT_DONE_YET
            if n < 0:
                raise RPCError(Faults.FAILED, u'négative')
            return u'done é'
        cb.delay = 0.05
        return cb

    def _secret(self):
        """ @return string result  never reachable """
        return 'secret'


def make_ext(supervisord, **config):
    return ExtNamespace(supervisord, **config)


EXT_PUBLIC = ['ext.documented', 'ext.later', 'ext.ping', 'ext.vague']


class Sock(ScriptedSocket):
    def shutdown(self, how):
        self.shut = how


class _Log(object):
    def __init__(self):
        self.lines = []

    def log(self, *a):
        self.lines.append(a)


class HttpBed(object):
    def __init__(self, world, workdir, with_ext=True):
        from supervisor.rpcinterface import make_main_rpcinterface
        self.world = world
        HttpBed._n = getattr(HttpBed, '_n', 0) + 1
        self.sockfile = os.path.join(workdir, 's%d' % HttpBed._n)
        opts = world.options
        opts.server_configs = [{'family': socket.AF_UNIX, 'file': self.sockfile, 'chmod': 0o700, 'chown': (-1, -1),
                                'username': None, 'password': None, 'section': 'unix_http_server'}]
        opts.rpcinterface_factories = [('supervisor', make_main_rpcinterface, {})]
        if with_ext:
            opts.rpcinterface_factories.append(('ext', make_ext, {'greeting': 'hi'}))
        self.servers = shttp.make_http_servers(opts, world.supervisord)
        self.hs = self.servers[0][1]
        hs = [h for h in self.hs.handlers if isinstance(h, supervisor_xmlrpc_handler)]
        assert len(hs) == 1, 'make_http_servers installed %d XML-RPC handlers' % len(hs)
        self.handler = hs[0]
        # the world's own call helpers now go through the factory-built handler
        world.iface = self.handler.rpcinterface.supervisor
        world.iface._now = lambda: 1700000000
        world.system = self.handler.rpcinterface.system
        st = RpcStack.__new__(RpcStack)
        st.handler = self.handler
        world.stack = st
        self.clock = FakeClock()
        self.saved_time = shttp.time
        self.channel = None
        self.sock = None

    def close(self):
        shttp.time = self.saved_time
        self.drop_channel()
        try:
            self.hs.close()
        except Exception:
            pass
        try:
            os.unlink(self.sockfile)
        except OSError:
            pass

    def drop_channel(self):
        if self.channel is not None:
            try:
                self.channel.del_channel()
            except Exception:
                pass
        self.channel = None
        self.sock = None

    def post(self, method, params, version='1.1', connection=None, k=1 << 30, reuse=False, max_passes=4000):
        """One POST /RPC2 on a (new or kept-alive) channel.  Returns a dict:
        answer, status, declared, received, closed, passes, error."""
        shttp.time = self.clock
        try:
            return self._post(method, params, version, connection, k, reuse, max_passes)
        finally:
            shttp.time = self.saved_time

    def _post(self, method, params, version, connection, k, reuse, max_passes):
        body = xmlrpclib.dumps(tuple(params), method).encode('utf-8')
        head = 'POST /RPC2 HTTP/%s\r\nHost: localhost\r\nContent-Type: text/xml\r\n' % version
        if connection:
            head += 'Connection: %s\r\n' % connection
        head += 'Content-Length: %d\r\n\r\n' % len(body)
        if not (reuse and self.channel is not None and not self.sock.closed):
            self.drop_channel()
            self.sock = Sock()
            self.channel = shttp.deferring_http_channel(self.hs, self.sock, ('127.0.0.1', 54321))
        ch, sock = self.channel, self.sock
        start = len(sock.sent)
        sock.inbox = head.encode('ascii') + body
        sock.next_k = k
        error = None
        passes = 0
        try:
            while sock.inbox:
                ch.handle_read_event()
            quiet = 0
            while quiet < 2:
                passes += 1
                if passes > max_passes:
                    error = 'channel never went idle'
                    break
                if sock.closed or ch.socket is None:
                    break
                self.world.tick()                  # one pass of the daemon's main loop per select() round
                self.clock.advance(0.25)
                before = sock.send_calls
                if ch.writable():
                    sock.next_k = k
                    ch.handle_write_event()
                idle = (sock.send_calls == before and not ch.ac_out_buffer and len(ch.producer_fifo) == 0
                        and not ch.delay)
                quiet = quiet + 1 if idle else 0
        except Exception as e:                      # asyncore would call handle_error(): channel closed
            error = '%s: %s' % (type(e).__name__, e)
        wire = b''.join(sock.sent[start:])
        out = {'wire_len': len(wire), 'closed': bool(sock.closed or ch.socket is None), 'passes': passes, 'error': error,
               'status': None, 'declared': None, 'received': None}
        out['answer'] = self._parse(wire, out) if error is None else ('channel-error', error)
        return out

    @staticmethod
    def _parse(wire, out):
        if not wire:
            return ('no-response', None)
        sep = wire.find(b'\r\n\r\n')
        if sep < 0:
            return ('truncated-header', len(wire))
        lines = wire[:sep].decode('latin-1').split('\r\n')
        body = wire[sep + 4:]
        try:
            status = int(lines[0].split()[1])
        except Exception:
            return ('bad-status-line', lines[0][:80])
        headers = {}
        for ln in lines[1:]:
            if ':' in ln:
                a, b = ln.split(':', 1)
                headers[a.strip().lower()] = b.strip()
        out['status'] = status
        out['headers'] = headers
        out['received'] = len(body)
        if 'content-length' in headers:
            out['declared'] = int(headers['content-length'])
            if out['declared'] != len(body):
                return ('short-body' if len(body) < out['declared'] else 'long-body', (out['declared'], len(body)))
        elif status == 200:
            return ('no-content-length', None)
        if status != 200:
            return ('http', status)
        try:
            v, _ = xmlrpclib.loads(body)
            return ('value', v[0])
        except xmlrpclib.Fault as f:
            return ('fault', f.faultCode)
        except Exception as e:
            return ('malformed-xml', type(e).__name__)
