"""C07 harness: real Subprocess / ProcessConfig / ProcessGroup / Supervisor /
POutputDispatcher objects on a fake kernel seam.

The seam replaces, for supervisor.options only, the `os` and `fcntl` modules by
proxies that delegate everything to the real modules except the calls that
touch process descriptors: pipe, close, read, fork, waitpid (and fcntl on fake
descriptors).  So the real make_pipes / close_parent_pipes / close_child_pipes /
close_fd / readfd / fork / waitpid methods of ServerOptions run unmodified on a
kernel that allocates the lowest free descriptor, can be scripted to fail
pipe() (EMFILE) or fork() (EAGAIN), keeps one byte queue per pipe and lets the
harness decide how many bytes a read(2) returns.  Log files are real files.

History operations (mirroring coq/C07/World.v:wop):
  ('spawn', p, outcome)   outcome = 'ok' | 'forkfail' | ('pipefail', k)
  ('write', p, chan, bytes)   the child of p writes on 'stdout'/'stderr'
  ('writegen', p, chan, n, seed)  the same with gen_data(n, seed) (large bursts; <= 64 KiB unread per pipe)
  ('read', p, chan, n)        p's pipe is reported readable; read(2) returns <= n bytes;
                              routed through the real Supervisor.get_process_map()
  ('exit', p)                 the child exits
  ('reap', p)                 real Supervisor.reap(once=True) with waitpid -> (pid, 0)
  ('reapfault', p, chan, 'EIO'|'EBADF')  the same, but read(2) on p's `chan` pipe fails during the drain
  ('reopen',)                 SIGUSR2 handling: group.reopenlogs() for every group
  ('clear', p)                clearProcessLogs: Subprocess.removelogs()
  ('moveaway', p)             an external logrotate renames p's log files (the open handlers keep writing
                              to the renamed files until the next reopen)
  ('lbusy', p)                harness only: put the event listener p into BUSY with an event in flight, as the
                              pool does after sending it one (so that a RESULT line is parsed)
  ('open',) / ('close', fd)   unrelated descriptors

A process configuration is (redirect_stderr, stdout_capture_maxbytes, stderr_capture_maxbytes,
stdout_events_enabled, stderr_events_enabled[, no log files[, (logfile_maxbytes, logfile_backups)[, logfiles AUTO[, event listener]]]]).
"""
import errno
import os
import fcntl as real_fcntl

import vlib

vlib.ensure_impl_path()


PIPE_CAPACITY = 65536      # Linux default pipe capacity: a child cannot have more unread bytes in a pipe


def gen_data(n, seed):
    """Mirror of World.gen_bytes."""
    return bytes(((i * 7 + seed) % 251) for i in range(n))


class Kernel(object):
    def __init__(self, nopen):
        self.fds = dict((i, ('other', None)) for i in range(nopen))
        self.pipes = {}
        self.npipes = 0
        self.pipe_calls = 0
        self.pipe_fail_at = None
        self.fork_fail = False
        self.next_pid = 1000
        self.read_limit = None
        self.wait_queue = []
        self.last_created = []
        self.spawning = None
        self.read_fault = {}      # descriptor -> errno raised by read(2)
        self.child = None         # descriptor table of a forked child (a copy), while the harness plays the child
        self.nother = 0
        self.written_to = {}      # pipe id -> bytes written by the parent (a listener's stdin)

    def lowest(self):
        n = 0
        while n in self.fds:
            n += 1
        return n

    def pipe(self):
        if self.pipe_fail_at is not None and self.pipe_calls == self.pipe_fail_at:
            raise OSError(errno.EMFILE, 'Too many open files')
        self.pipe_calls += 1
        pid = self.npipes
        self.npipes += 1
        self.pipes[pid] = {'buf': bytearray(), 'writer_alive': True, 'owner': self.spawning}
        r = self.lowest()
        self.fds[r] = ('r', pid)
        w = self.lowest()
        self.fds[w] = ('w', pid)
        self.last_created.append(pid)
        return r, w

    def open_other(self):
        fd = self.lowest()
        self.nother += 1
        self.fds[fd] = ('other', None)
        return fd

    def close(self, fd):
        tab = self.fds if self.child is None else self.child
        if fd not in tab:
            raise OSError(errno.EBADF, 'Bad file descriptor')
        del tab[fd]

    def dup2(self, frm, to):
        tab = self.fds if self.child is None else self.child
        if frm not in tab:
            raise OSError(errno.EBADF, 'Bad file descriptor')
        tab[to] = tab[frm]
        return to

    def write(self, fd, data):
        ent = self.fds.get(fd)
        if ent is None or ent[0] != 'w':
            raise OSError(errno.EBADF, 'Bad file descriptor')
        self.written_to[ent[1]] = self.written_to.get(ent[1], b'') + bytes(data)
        return len(data)

    def read(self, fd, n):
        ent = self.fds.get(fd)
        if ent is None or ent[0] != 'r':
            raise OSError(errno.EBADF, 'Bad file descriptor')
        if fd in self.read_fault:
            e = self.read_fault[fd]
            raise OSError(e, os.strerror(e))
        p = self.pipes[ent[1]]
        if not p['buf']:
            if p['writer_alive']:
                raise OSError(errno.EAGAIN, 'Resource temporarily unavailable')
            return b''
        k = min(n, len(p['buf']))
        if self.read_limit is not None:
            k = min(k, self.read_limit)
        data = bytes(p['buf'][:k])
        del p['buf'][:k]
        return data

    def fork(self):
        if self.fork_fail:
            raise OSError(errno.EAGAIN, 'Resource temporarily unavailable')
        pid = self.next_pid
        self.next_pid += 1
        return pid

    def waitpid(self):
        if self.wait_queue:
            return self.wait_queue.pop(0)
        raise OSError(errno.ECHILD, 'No child processes')


class OsProxy(object):
    def __init__(self, real, holder):
        self.__dict__['_real'] = real
        self.__dict__['_h'] = holder

    def __getattr__(self, name):
        return getattr(self._real, name)

    def pipe(self):
        return self._h.kernel.pipe()

    def close(self, fd):
        if getattr(self._h, 'passthrough', False):
            return self._real.close(fd)      # a real descriptor (mkstemp while naming AUTO logs)
        return self._h.kernel.close(fd)

    def read(self, fd, n):
        return self._h.kernel.read(fd, n)

    def fork(self):
        return self._h.kernel.fork()

    def dup2(self, frm, to):
        return self._h.kernel.dup2(frm, to)

    def write(self, fd, data):
        return self._h.kernel.write(fd, data)

    def waitpid(self, pid, flags):
        return self._h.kernel.waitpid()


class FcntlProxy(object):
    def __init__(self, real):
        self.__dict__['_real'] = real

    def __getattr__(self, name):
        return getattr(self._real, name)

    def fcntl(self, fd, cmd, arg=0):
        return 0


class _NullLogger(object):
    def __getattr__(self, name):
        return lambda *a, **k: None


class HarnessFailure(Exception):
    pass


CH_CODE = {'stdin': 0, 'stdout': 1, 'stderr': 2}


class Seam(object):
    """One installed seam per process (worker).  `start(cfgs, strip, nopen)`
    builds a fresh world: real options, groups, processes."""

    def __init__(self, workdir):
        import supervisor.options as so
        self.so = so
        self.kernel = None
        self.workdir = workdir
        self._real_os = so.os
        self._real_fcntl = so.fcntl
        so.os = OsProxy(so.os, self)
        so.fcntl = FcntlProxy(so.fcntl)
        import c08_disp
        from supervisor import loggers
        self.syslog = c08_disp._FakeSyslog()
        loggers.syslog = self.syslog
        self.count = 0
        self.options = so.ServerOptions()

    def uninstall(self):
        self.so.os = self._real_os
        self.so.fcntl = self._real_fcntl

    _autofiles = []

    def start(self, cfgs, strip, nopen, loglevel='INFO', program_sections=None):
        """program_sections: optional list of [program:x] option dicts; the ProcessConfig objects are then
        produced by the real ServerOptions.processes_from_section from configuration text, and `cfgs`
        says what that text configures (used by the judge)"""
        del self.syslog.lines[:]
        for f in self._autofiles:
            if isinstance(f, str) and os.path.exists(f):
                os.unlink(f)
        self._autofiles = []
        from supervisor import options as so, supervisord, events, loggers
        from supervisor.options import ServerOptions, ProcessConfig, ProcessGroupConfig, EventListenerConfig, EventListenerPoolConfig
        from supervisor.dispatchers import default_handler
        self.kernel = Kernel(nopen)
        self.count += 1
        opts = self.options
        opts.pidhistory = {}
        opts.logger = _NullLogger()
        opts.strip_ansi = strip
        # [supervisord] loglevel: child logs and capture logs must not depend on it
        opts.loglevel = getattr(loggers.LevelsByName, loglevel)
        opts.minfds = 64
        self.options = opts
        self.cfgs = cfgs
        self.strip = strip
        self.paths = []
        pconfigs = []
        self.nolog = []
        self.rot = []
        autos = []
        listeners = []
        self.moved = [[[], []] for _ in cfgs]          # renamed log files, oldest first
        self.reopen_mark = [[None, None] for _ in cfgs]  # log length at the last reopen after a move-away
        opts.childlogdir = self.workdir
        opts.identifier = 'supervisor'
        self.cleared = [False] * len(cfgs)
        self.dropped = [[0, 0] for _ in cfgs]    # bytes logged before the last clearProcessLogs
        self.header_errors = []
        for i, cfg in enumerate(cfgs):
            redirect, cap_out, cap_err, ev_out, ev_err = cfg[:5]
            nolog = bool(cfg[5]) if len(cfg) > 5 else False
            rot = cfg[6] if len(cfg) > 6 and cfg[6] else (0, 0)
            auto = bool(cfg[7]) if len(cfg) > 7 else False
            listeners.append(bool(cfg[8]) if len(cfg) > 8 else False)
            self.nolog.append((nolog, nolog))
            self.rot.append(rot)
            out = os.path.join(self.workdir, 'p%d.out' % i)
            err = os.path.join(self.workdir, 'p%d.err' % i)
            for f in (out, err):
                for suffix in [''] + ['.%d' % k for k in range(1, 12)]:
                    if os.path.exists(f + suffix):
                        os.unlink(f + suffix)
            self.paths.append((out, err))
            if nolog and program_sections is None:
                out = err = None
            if auto:
                # stdout_logfile=AUTO / stderr_logfile=AUTO: named by the real create_autochildlogs()
                from supervisor.datatypes import Automatic
                out = err = Automatic
                autos.append(i)
            if program_sections is not None:
                pc, per_chan_nolog = self._parse_program(i, program_sections[i], out, err)
                pconfigs.append(pc)
                self.nolog[-1] = per_chan_nolog
                continue
            pconfigs.append((EventListenerConfig if listeners[-1] else ProcessConfig)(
                opts, name='proc%d' % i, uid=None, command='/bin/sh', directory=None, umask=None,
                priority=999, autostart=False, autorestart=False, startsecs=0, startretries=3,
                stdout_logfile=out, stdout_capture_maxbytes=cap_out, stdout_events_enabled=ev_out,
                stdout_syslog=False, stdout_logfile_backups=rot[1], stdout_logfile_maxbytes=rot[0],
                stderr_logfile=(None if redirect else err), stderr_capture_maxbytes=cap_err,
                stderr_logfile_backups=rot[1], stderr_logfile_maxbytes=rot[0], stderr_events_enabled=ev_err,
                stderr_syslog=False, stopsignal=15, stopwaitsecs=10, stopasgroup=False, killasgroup=False,
                exitcodes=[0], redirect_stderr=redirect, environment=None, serverurl=None))
        # two groups, insertion order = process index order
        self.listeners = listeners
        if any(listeners):
            # one group per process, in index order; a listener lives in a real EventListenerPool (its
            # event subscriptions are dropped below by events.clear(): the pool never dispatches)
            gconfigs = [(EventListenerPoolConfig(opts, 'g%d' % i, 999, [pc], 10, [], default_handler) if listeners[i]
                         else ProcessGroupConfig(opts, 'g%d' % i, 999, [pc])) for i, pc in enumerate(pconfigs)]
        else:
            gconfigs = [ProcessGroupConfig(opts, 'g0', 999, pconfigs[:2]), ProcessGroupConfig(opts, 'g1', 999, pconfigs[2:])]
        self.passthrough = True
        try:
            for gc in gconfigs:
                gc.after_setuid()         # real: ProcessConfig.create_autochildlogs()
        finally:
            self.passthrough = False
        for i in autos:
            pc = pconfigs[i]
            if not (isinstance(pc.stdout_logfile, str) and os.path.dirname(pc.stdout_logfile) == self.workdir):
                raise HarnessFailure('AUTO stdout log not created in childlogdir: %r' % (pc.stdout_logfile,))
            self._autofiles.extend([pc.stdout_logfile, pc.stderr_logfile])
            self.paths[i] = (pc.stdout_logfile, pc.stderr_logfile if not cfgs[i][0] else self.paths[i][1])
        self.sup = supervisord.Supervisor(opts)
        self.procs = []
        for gc in gconfigs:
            if not gc.process_configs:
                continue
            g = gc.make_group()
            self.sup.process_groups[gc.name] = g
            for pc in gc.process_configs:
                self.procs.append(g.processes[pc.name])
        self.child = [None] * len(cfgs)      # per process: {'stdout': pipe id, 'stderr': pipe id, 'alive': bool}
        self.events = []
        events.clear()
        self._plog_type = events.ProcessLogEvent
        events.subscribe(events.ProcessLogEvent, self._on_plog)
        events.subscribe(events.ProcessCommunicationEvent, self._on_comm)
        self.written = [[] for _ in cfgs]    # per process: list of incarnations {'stdout': bytes, 'stderr': bytes}

    def _parse_program(self, i, opt, out, err):
        """[program:proc<i>] text -> ProcessConfig through the real parser; every per-channel field of the
        result is compared with what the text says (an independent reading of the same values)"""
        from supervisor.options import UnhosedConfigParser
        units = {'': 1, 'KB': 1024, 'MB': 1024 * 1024}
        lines = ['[program:proc%d]' % i, 'command=/bin/sh', 'autostart=false', 'startsecs=0',
                 'redirect_stderr=%s' % ('true' if opt['redirect'] else 'false')]
        want = {'redirect_stderr': opt['redirect']}
        for chan, path in (('stdout', out), ('stderr', err)):
            o = opt[chan]
            lines.append('%s_logfile=%s' % (chan, 'NONE' if o['nolog'] else path))
            lines.append('%s_events_enabled=%s' % (chan, 'true' if o['events'] else 'false'))
            lines.append('%s_capture_maxbytes=%s' % (chan, o['capture']))
            lines.append('%s_logfile_maxbytes=%s' % (chan, o['maxbytes']))
            lines.append('%s_logfile_backups=%d' % (chan, o['backups']))
            lines.append('%s_syslog=%s' % (chan, 'true' if o['syslog'] else 'false'))
            num, unit = o['maxbytes'].rstrip('KMB'), o['maxbytes'][len(o['maxbytes'].rstrip('KMB')):]
            cnum, cunit = o['capture'].rstrip('KMB'), o['capture'][len(o['capture'].rstrip('KMB')):]
            want.update({chan + '_logfile': None if o['nolog'] or (chan == 'stderr' and opt['redirect']) else path,
                         chan + '_events_enabled': o['events'], chan + '_capture_maxbytes': int(cnum) * units[cunit],
                         chan + '_logfile_maxbytes': int(num) * units[unit], chan + '_logfile_backups': o['backups'],
                         chan + '_syslog': o['syslog']})
        parser = UnhosedConfigParser()
        parser.read_string('\n'.join(lines) + '\n')
        self.options.parse_warnings = []
        pcs = self.options.processes_from_section(parser, 'program:proc%d' % i, 'proc%d' % i)
        if len(pcs) != 1:
            raise HarnessFailure('one [program:x] section gave %d process configs' % len(pcs))
        pc = pcs[0]
        for k in sorted(want):
            if getattr(pc, k) != want[k]:
                raise HarnessFailure('configuration text says %s = %r but ProcessConfig.%s is %r  (section: %s)'
                                     % (k, want[k], k, getattr(pc, k), ' | '.join(lines[4:])))
        return pc, (opt['stdout']['nolog'], opt['stderr']['nolog'] or opt['redirect'])

    def _index(self, process):
        for i, p in enumerate(self.procs):
            if p is process:
                return i
        raise HarnessFailure('event for an unknown process object')

    def _check_header(self, e):
        # the event names the writer: its process object, the pid of the child that wrote the bytes
        # (still set while finish() flushes), and the channel of the dispatcher
        if not e.pid or e.pid != e.process.pid or e.process.config.name != 'proc%d' % self._index(e.process):
            self.header_errors.append('event with pid %r for %s whose current pid is %r'
                                      % (e.pid, e.process.config.name, e.process.pid))
        payload = e.payload()
        if isinstance(e, self._plog_type):
            want = 'processname:%s groupname:%s pid:%s channel:%s\n' % (
                e.process.config.name, e.process.group.config.name, e.pid, e.channel)
        else:
            # PROCESS_COMMUNICATION: the channel is in the event type name only (docs/events.rst)
            want = 'processname:%s groupname:%s pid:%s\n' % (e.process.config.name, e.process.group.config.name, e.pid)
        if not payload.startswith(want):
            self.header_errors.append('event payload header %r, expected %r' % (payload[:80], want))

    def _on_plog(self, e):
        self._check_header(e)
        self.events.append((0, self._index(e.process), e.pid, CH_CODE[e.channel], bytes(e.data)))

    def _on_comm(self, e):
        self._check_header(e)
        self.events.append((1, self._index(e.process), e.pid, CH_CODE[e.channel], bytes(e.data)))

    # ------------------------------------------------------------ operations
    def _disp_fd(self, proc, chan):
        for fd, d in proc.dispatchers.items():
            if getattr(d, 'channel', None) == chan:
                return fd, d
        return None, None

    def op(self, o):
        k = self.kernel
        kind = o[0]
        if kind == 'spawn':
            p, outcome = o[1], o[2]
            proc = self.procs[p]
            if proc.pid:
                return
            k.pipe_calls = 0
            k.pipe_fail_at = outcome[1] if isinstance(outcome, tuple) else None
            k.fork_fail = (outcome == 'forkfail')
            k.last_created = []
            k.spawning = p
            proc.spawn()
            k.spawning = None
            k.pipe_fail_at = None
            k.fork_fail = False
            if proc.pid:
                made = k.last_created
                redirect = self.cfgs[p][0]
                self.child[p] = {'stdout': made[1], 'stderr': made[1] if redirect else made[2], 'alive': True}
                self.written[p].append({'stdout': b'', 'stderr': b''})
        elif kind in ('write', 'writegen'):
            p, chan = o[1], o[2]
            data = o[3] if kind == 'write' else gen_data(o[3], o[4])
            proc = self.procs[p]
            ch = self.child[p]
            if proc.pid and ch and ch['alive'] and chan in ('stdout', 'stderr'):
                if len(k.pipes[ch[chan]]['buf']) + len(data) > PIPE_CAPACITY:
                    raise ValueError('history exceeds the pipe capacity (generator error)')
                k.pipes[ch[chan]]['buf'] += data
                eff = 'stdout' if self.cfgs[p][0] else chan
                self.written[p][-1][eff] += data
        elif kind == 'read':
            p, chan, n = o[1], o[2], o[3]
            proc = self.procs[p]
            fd, own = self._disp_fd(proc, chan)
            if fd is None or chan == 'stdin' or not own.readable():
                return
            ent = k.fds.get(fd)
            if ent is None or ent[0] != 'r':
                # the descriptor of a registered dispatcher is not an open pipe end
                raise HarnessFailure('dispatcher of proc%d registered on descriptor %r which is %r' % (p, fd, ent))
            pipe = k.pipes[ent[1]]
            if not pipe['buf'] and pipe['writer_alive']:
                return
            # the main loop: combined_map.update(self.get_process_map()); dispatcher = combined_map[fd]
            cm = self.sup.get_process_map()
            d = cm.get(fd)
            if d is None or not d.readable():
                return
            k.read_limit = max(1, n)
            try:
                d.handle_read_event()
            finally:
                k.read_limit = None
        elif kind == 'exit':
            p = o[1]
            proc = self.procs[p]
            ch = self.child[p]
            if proc.pid and ch and ch['alive']:
                ch['alive'] = False
                for c in ('stdout', 'stderr'):
                    k.pipes[ch[c]]['writer_alive'] = False
        elif kind in ('reap', 'reapfault'):
            p = o[1]
            proc = self.procs[p]
            ch = self.child[p]
            if proc.pid and ch and not ch['alive']:
                if kind == 'reapfault':
                    fd, d = self._disp_fd(proc, o[2])
                    if fd is not None and d.readable():
                        k.read_fault = {fd: getattr(errno, o[3])}
                        # what that pipe still holds can legitimately not be logged
                        ent = k.fds.get(fd)
                        lost = len(k.pipes[ent[1]]['buf']) if ent and ent[0] == 'r' else 0
                        eff = 'stdout' if self.cfgs[p][0] else o[2]
                        if lost:
                            self.written[p][-1][eff] = self.written[p][-1][eff][:-lost]
                            k.pipes[ent[1]]['buf'] = bytearray()
                k.wait_queue = [(proc.pid, 0)]
                try:
                    self.sup.reap(once=True)
                finally:
                    k.read_fault = {}
                self.child[p] = None
        elif kind == 'moveaway':
            p = o[1]
            for ci in range(2):
                f = self.paths[p][ci]
                if os.path.exists(f):
                    dst = '%s.moved%d' % (f, len(self.moved[p][ci]))
                    os.rename(f, dst)
                    self.moved[p][ci].append(dst)
                    self.reopen_mark[p][ci] = 'pending'
        elif kind == 'lbusy':
            p = o[1]
            proc = self.procs[p]
            if self.listeners[p] and proc.pid:
                from supervisor.states import EventListenerStates
                from supervisor import events as ev
                if proc.listener_state == EventListenerStates.READY:
                    proc.listener_state = EventListenerStates.BUSY
                    proc.event = ev.Tick5Event(0, self.sup)
        elif kind == 'reopen':
            # supervisord.handle_signal(SIGUSR2): for group in self.process_groups.values(): group.reopenlogs()
            for g in self.sup.process_groups.values():
                g.reopenlogs()
            whole = self.logs()
            for p in range(len(self.procs)):
                for ci, chan in enumerate(('stdout', 'stderr')):
                    if self.reopen_mark[p][ci] == 'pending' and self._disp_fd(self.procs[p], chan)[1] is not None:
                        self.reopen_mark[p][ci] = len(whole[p][ci])
        elif kind == 'clear':
            p = o[1]
            if self.procs[p].dispatchers:
                whole = self.logs()
                for ci, chan in enumerate(('stdout', 'stderr')):
                    if self._disp_fd(self.procs[p], chan)[1] is not None:
                        self.dropped[p][ci] += len(whole[p][ci])
                self.cleared[p] = True
                self.reopen_mark[p] = [None, None]
                # the renamed copies are not part of the log any more either
                for ci in range(2):
                    for f in self.moved[p][ci]:
                        if os.path.exists(f):
                            os.unlink(f)
                    self.moved[p][ci] = []
            self.procs[p].removelogs()
        elif kind == 'open':
            k.open_other()
        elif kind == 'close':
            fd = o[1]
            if k.fds.get(fd, (None,))[0] == 'other':
                k.close(fd)
        else:
            raise ValueError(o)

    # --------------------------------------------------------- observation
    def _logsize(self, path):
        try:
            return os.stat(path).st_size
        except OSError:
            return 0

    def check_ownership(self):
        """The C07 ownership invariant judged on the implementation itself: every key
        of p.dispatchers is an open pipe end created for p (hence key sets are disjoint)."""
        k = self.kernel
        for i, proc in enumerate(self.procs):
            for fd in proc.dispatchers:
                ent = k.fds.get(fd)
                if ent is None or ent[0] not in ('r', 'w') or k.pipes[ent[1]]['owner'] != i:
                    raise HarnessFailure('ownership violated: proc%d.dispatchers has descriptor %d which is %r%s'
                                         % (i, fd, ent, '' if ent is None or ent[1] is None else
                                            ' created for proc%r' % k.pipes[ent[1]]['owner']))
            if not proc.pid and proc.dispatchers:
                raise HarnessFailure('proc%d has no child but %d dispatchers' % (i, len(proc.dispatchers)))

    def step_ser(self):
        k = self.kernel
        self.check_ownership()
        out = [sum(1 << fd for fd in k.fds), len(self.events)]
        for i, proc in enumerate(self.procs):
            out += [proc.pid, len(proc.dispatchers)]
            for fd, d in proc.dispatchers.items():
                out.append(fd * 4 + CH_CODE[d.channel])
            for ci, chan in enumerate(('stdout', 'stderr')):
                out.append(sum(self._logsize(f) for f in self.moved[i][ci] + [self.paths[i][ci]]))
                fd, d = self._disp_fd(proc, chan)
                if d is None:
                    out += [0, 0, 0]
                else:
                    # a PEventListenerDispatcher holds nothing back for the log and has no capture mode
                    out += [len(getattr(d, 'output_buffer', b'')), int(bool(getattr(d, 'capturemode', False))), int(bool(d.closed))]
        return out

    def logs(self):
        """the log as a whole: files renamed away by ('moveaway', p), oldest first, then the configured path"""
        res = []
        for i in range(len(self.procs)):
            row = []
            for ci in range(2):
                data = b''
                for f in self.moved[i][ci] + [self.paths[i][ci]]:
                    try:
                        with open(f, 'rb') as fh:
                            data += fh.read()
                    except IOError:
                        pass
                row.append(data)
            res.append(row)
        return res

    def current_files(self):
        res = []
        for i in range(len(self.procs)):
            row = []
            for ci in range(2):
                try:
                    with open(self.paths[i][ci], 'rb') as fh:
                        row.append(fh.read())
                except IOError:
                    row.append(None)
            res.append(row)
        return res

    def full_logs(self):
        """backups (oldest first) + current file, per process and channel"""
        res = []
        for i in range(len(self.procs)):
            row = []
            for ci in range(2):
                data = b''
                for k in range(11, 0, -1):
                    f = self.paths[i][ci] + '.%d' % k
                    if os.path.exists(f):
                        if k > self.rot[i][1]:
                            raise HarnessFailure('backup %s beyond the configured number of backups' % f)
                        with open(f, 'rb') as fh:
                            data += fh.read()
                if os.path.exists(self.paths[i][ci]):
                    with open(self.paths[i][ci], 'rb') as fh:
                        data += fh.read()
                if self.moved[i][ci]:
                    data = self.logs()[i][ci]
                row.append(data)
            res.append(row)
        return res

    def final_ser(self):
        out = []
        for row in self.logs():
            for b in row:
                out += [len(b)] + list(b)
        out.append(len(self.events))
        for kind, p, pid, ch, data in self.events:
            out += [kind, p, pid, ch, len(data)] + list(data)
        return out

    def run(self, cfgs, strip, nopen, ops, loglevel='INFO', program_sections=None):
        """-> (trace, info)"""
        self.start(cfgs, strip, nopen, loglevel, program_sections)
        trace = []
        for o in ops:
            self.op(o)
            if o[0] != 'lbusy':
                trace += self.step_ser()
        trace += self.final_ser()
        if self.header_errors:
            raise HarnessFailure(self.header_errors[0])
        info = {'logs': self.logs(), 'events': list(self.events), 'written': self.written,
                'running': [bool(p.pid) for p in self.procs], 'cleared': list(self.cleared),
                'full_logs': self.full_logs(), 'nolog': list(self.nolog), 'rot': list(self.rot),
                'reopen_mark': [list(r) for r in self.reopen_mark], 'current': self.current_files(),
                'dropped': [list(r) for r in self.dropped], 'syslog': list(self.syslog.lines)}
        for i in range(len(self.procs)):
            for ci in range(2):
                for f in self.moved[i][ci]:
                    if os.path.exists(f):
                        os.unlink(f)
        # drop the process objects so that their log files are closed
        for p in self.procs:
            p.dispatchers = {}
        return trace, info


# ----------------------------------------------------------------- judging

def strip_ref(s):
    """Reference for stripEscapes on a whole stream (independent restatement:
    remove ESC [ ... up to and including the first terminator byte)."""
    terms = b'HfABCDRsuJKhlpm'
    out = bytearray()
    i = 0
    n = len(s)
    while i < n:
        if s[i:i + 2] == b'\x1b[':
            j = i + 1
            while j < n and s[j] not in terms:
                j += 1
            i = j + 1
        else:
            out.append(s[i])
            i += 1
    return bytes(out)


def judge(cfgs, strip, info, begin, end):
    """C07 on a finished history in which every child has been reaped: each log (rotation backups
    included, oldest first) is the concatenation over incarnations of the stream minus capture
    sections (through stripEscapes of the whole when strip_ansi); after clearProcessLogs or when
    rotation has legitimately dropped old backups, a trailing part of it.  -> list of (p, chan, kind)
    where kind = 'ansi-split' (inside the known finding's signature) or a description of what is wrong."""
    import c08_disp
    bad = []
    for p, cfg in enumerate(cfgs):
        redirect, cap_out, cap_err, ev_out, ev_err = cfg[:5]
        if info['running'][p]:
            continue
        maxbytes, backups = info['rot'][p]
        for ci, (chan, cap, ev) in enumerate((('stdout', cap_out, ev_out), ('stderr', cap_err, ev_err))):
            want = b''
            want_nostrip = b''
            for inc in info['written'][p]:
                logged, secs, _open = c08_disp.split_ref(inc[chan], begin, end, cap)
                want_nostrip += logged
                want += strip_ref(logged) if strip else logged
            got = info['full_logs'][p][ci]
            nolog = info['nolog'][p][ci]
            if (redirect and chan == 'stderr') or nolog:
                if got:
                    bad.append((p, chan, 'bytes in a log file that is not configured'))
                want = got = b''
            ok = got == want
            if info['cleared'][p] and not nolog:
                # clearProcessLogs emptied the file when `dropped` bytes had been logged: the file at the
                # configured path holds exactly what was logged afterwards
                ok = got == want[info['dropped'][p][ci]:]
                if not ok and not (strip and b'\x1b' in want_nostrip):
                    bad.append((p, chan, 'wrong: after clearProcessLogs the log file does not hold exactly what was '
                                         'logged since (%d bytes, expected %d)' % (len(got), len(want) - info['dropped'][p][ci])))
                    ok = True
            if not ok and want.endswith(got):
                if maxbytes and len(want) >= (backups + 1) * maxbytes and len(got) >= backups * maxbytes:
                    ok = True      # rotation dropped the oldest backups, as configured
            if not ok:
                if strip and b'\x1b' in want_nostrip and not maxbytes:
                    bad.append((p, chan, 'ansi-split'))
                elif want.endswith(got):
                    bad.append((p, chan, 'wrong: the beginning of the output is missing from the log'))
                else:
                    bad.append((p, chan, 'wrong: log (backups + current file) is not the output in order'))
            mark = info['reopen_mark'][p][ci]
            if isinstance(mark, int) and not info['cleared'][p] and not nolog:
                # the log file was renamed away and a reopen was requested while this channel had a dispatcher:
                # from then on the output belongs in a new file at the configured path
                cur = info['current'][p][ci]
                if cur is None:
                    if got[mark:]:
                        bad.append((p, chan, 'wrong: after the log file was moved away and a reopen requested, the '
                                             'configured path was never created; later output went to the renamed file'))
                elif cur != got[mark:]:
                    bad.append((p, chan, 'wrong: the file at the configured path does not hold exactly what was logged '
                                         'after the reopen'))
            plog_n = len([1 for (k, pp, pid, ch, d) in info['events'] if k == 0 and pp == p and ch == CH_CODE[chan]])
            if not ev and plog_n:
                bad.append((p, chan, 'wrong: %d PROCESS_LOG events although %s_events_enabled is false' % (plog_n, chan)))
            if ev and want_nostrip and not plog_n and not (redirect and chan == 'stderr'):
                bad.append((p, chan, 'wrong: no PROCESS_LOG event although %s_events_enabled is true' % chan))
            ncomm = len([1 for (k, pp, pid, ch, d) in info['events'] if k == 1 and pp == p and ch == CH_CODE[chan]])
            nsec = sum(len(c08_disp.split_ref(inc[chan], begin, end, cap)[1]) for inc in info['written'][p])
            if ncomm != nsec:
                bad.append((p, chan, 'wrong: %d PROCESS_COMMUNICATION events for %d capture sections' % (ncomm, nsec)))
            if ev and not cap and not info['cleared'][p] and not nolog and not maxbytes:
                # PROCESS_LOG events of this channel carry the same bytes, with the writer's identity
                data = b''.join(d for (k, pp, pid, ch, d) in info['events'] if k == 0 and pp == p and ch == CH_CODE[chan])
                if data != got:
                    bad.append((p, chan, 'plog-differs'))
            if ev and not cap and nolog and not (redirect and chan == 'stderr'):
                data = b''.join(d for (k, pp, pid, ch, d) in info['events'] if k == 0 and pp == p and ch == CH_CODE[chan])
                if data != (strip_ref(want_nostrip) if strip else want_nostrip) and not (strip and b'\x1b' in want_nostrip):
                    bad.append((p, chan, 'plog-differs'))
    return bad


_SEAM = None


def worker_init(workdir):
    global _SEAM, _TOK
    import c08_disp
    sub = os.path.join(workdir, 'w%d' % os.getpid())
    os.makedirs(sub, exist_ok=True)
    _SEAM = Seam(sub)
    _TOK = c08_disp.tokens()


def history_job(job):
    """job = (cfgs, strip, nopen, ops[, {'loglevel': name, 'sections': [program options]}])
    -> (trace or None, failure text or None, judge list)"""
    cfgs, strip, nopen, ops = job[:4]
    extra = job[4] if len(job) > 4 and job[4] else {}
    try:
        trace, info = _SEAM.run(cfgs, strip, nopen, ops, extra.get('loglevel', 'INFO'), extra.get('sections'))
    except HarnessFailure as e:
        return None, str(e), []
    except Exception as e:      # the implementation raised out of spawn/read/reap
        import traceback
        return None, 'exception: ' + traceback.format_exc()[-1500:], []
    verdicts = judge(cfgs, strip, info, _TOK[0], _TOK[1])
    if extra.get('sections'):
        # <channel>_syslog: the configured log can be syslog.  SyslogHandler sends every logged chunk line by
        # line, each prefixed with the program name: the recorded messages of a channel, prefix removed and
        # concatenated in order, must be the text that channel logged (newlines aside), unaltered; a channel
        # without syslog must not appear.  (The recorder stands in for the syslog module: nothing is sent out.)
        import c08_disp
        for i, sec in enumerate(extra['sections']):
            prefix = 'proc%d ' % i
            lines = info['syslog']
            for l in lines:
                if not isinstance(l, str) or not l.startswith(prefix):
                    verdicts.append((i, 'stdout', 'wrong: syslog message %r does not start with the program name' % (l,)))
                    break
            inc = info['written'][i][-1] if info['written'][i] else {'stdout': b'', 'stderr': b''}
            caps = {'stdout': cfgs[i][1], 'stderr': cfgs[i][2]}
            for chan, mark in (('stdout', 'OUT'), ('stderr', 'ERR')):
                if sec['redirect'] and chan == 'stderr':
                    continue
                on = sec[chan]['syslog']
                mine = [l for l in lines if (True if sec['redirect'] else mark in l)]
                got = ''.join(l[len(prefix):] for l in mine)
                logged = c08_disp.split_ref(inc[chan], _TOK[0], _TOK[1], caps[chan])[0]
                want = logged.replace(b'\n', b'').decode('utf-8') if on else ''
                if got != want:
                    verdicts.append((i, chan, 'wrong: %s_syslog=%s: syslog received %r for this channel, expected the logged text %r'
                                     % (chan, 'true' if on else 'false', got, want)))
    return trace, None, verdicts


def finish_job(job):
    """C08 through the real Subprocess.finish(): job = (stream, cut, capmax, no log file).  The child writes
    stream[:cut], the main loop reads it; then it writes stream[cut:] and exits; the rest is
    still in the pipe when the child is reaped (drain + final flush inside finish()).
    -> (log bytes, [PROCESS_COMMUNICATION data], failure text or None)"""
    s, cut, cap, nolog = job
    cfgs = [(False, cap, 0, False, False, nolog)]
    ops = [('spawn', 0, 'ok')]
    if cut > 0:
        ops += [('write', 0, 'stdout', s[:cut]), ('read', 0, 'stdout', 3000)]
    if cut < len(s):
        ops.append(('write', 0, 'stdout', s[cut:]))
    ops += [('exit', 0), ('reap', 0)]
    try:
        trace, info = _SEAM.run(cfgs, False, 3, ops)
    except HarnessFailure as e:
        return None, None, str(e)
    except Exception:
        import traceback
        return None, None, 'exception: ' + traceback.format_exc()[-1500:]
    comm = [d for (k, p, pid, ch, d) in info['events'] if k == 1]
    for (k, p, pid, ch, d) in info['events']:
        if k == 1 and (p != 0 or pid != 1000 or ch != CH_CODE['stdout']):
            return None, None, 'PROCESS_COMMUNICATION event with wrong process/pid/channel'
    return info['logs'][0][0], comm, None


# ----------------------------------------------------------------- the child's descriptors

def childfds_job(job):
    """What the forked child makes of its descriptors: real (FastCGI)Subprocess._prepare_child_fds() on a
    copy of the fake kernel's descriptor table (fork semantics), after the real make_dispatchers().
    job = (fastcgi, redirect_stderr, descriptors open at start, unrelated descriptors opened first)
    -> failure text or None.  Descriptor 1 is the stdout pipe, 2 the stdout pipe when redirect_stderr else
    the stderr pipe, 0 the stdin pipe (the FastCGI socket for an fcgi-program), nothing else stays open."""
    fastcgi, redirect, nopen, nextra = job
    from supervisor.options import ProcessConfig, FastCGIProcessConfig
    from supervisor.process import Subprocess, FastCGISubprocess
    seam = _SEAM
    k = seam.kernel = Kernel(nopen)
    opts = seam.options
    opts.logger = _NullLogger()
    opts.minfds = 40
    from supervisor import loggers
    opts.loglevel = loggers.LevelsByName.INFO
    opts.strip_ansi = False
    try:
        for _ in range(nextra):
            k.open_other()
        klass = FastCGIProcessConfig if fastcgi else ProcessConfig
        out = os.path.join(seam.workdir, 'cf.out')
        err = os.path.join(seam.workdir, 'cf.err')
        pc = klass(opts, name='fc', uid=None, command='/bin/sh', directory=None, umask=None, priority=999, autostart=False,
                   autorestart=False, startsecs=0, startretries=3, stdout_logfile=out, stdout_capture_maxbytes=0,
                   stdout_events_enabled=False, stdout_syslog=False, stdout_logfile_backups=0, stdout_logfile_maxbytes=0,
                   stderr_logfile=(None if redirect else err), stderr_capture_maxbytes=0, stderr_logfile_backups=0,
                   stderr_logfile_maxbytes=0, stderr_events_enabled=False, stderr_syslog=False, stopsignal=15,
                   stopwaitsecs=10, stopasgroup=False, killasgroup=False, exitcodes=[0], redirect_stderr=redirect,
                   environment=None, serverurl=None)
        proc = (FastCGISubprocess if fastcgi else Subprocess)(pc)
        sock = None
        if fastcgi:
            sock = k.open_other()
            k.fds[sock] = ('socket', 'fcgi')

            class Sock(object):
                def fileno(self):
                    return sock
            proc.fcgi_sock = Sock()
        k.last_created = []
        k.spawning = 0
        proc.dispatchers, proc.pipes = pc.make_dispatchers(proc)
        stdin_pipe, stdout_pipe = k.last_created[0], k.last_created[1]
        stderr_pipe = None if redirect else k.last_created[2]
        k.child = dict(k.fds)          # fork
        try:
            proc._prepare_child_fds()
            child = k.child
        finally:
            k.child = None
        want = {0: ('socket', 'fcgi') if fastcgi else ('r', stdin_pipe), 1: ('w', stdout_pipe),
                2: ('w', stdout_pipe) if redirect else ('w', stderr_pipe)}
        names = {0: 'stdin', 1: 'stdout', 2: 'stderr'}
        for fd in (0, 1, 2):
            if child.get(fd) != want[fd]:
                return ('after _prepare_child_fds() the child\'s descriptor %d (%s) is %r, expected %r  [%s, redirect_stderr=%s]'
                        % (fd, names[fd], child.get(fd), want[fd], type(proc).__name__, redirect))
        extra = sorted(set(child) - set((0, 1, 2)))
        if extra:
            return 'the child keeps descriptors %r open' % extra
        proc.dispatchers = {}
        return None
    except Exception:
        import traceback
        return 'exception: ' + traceback.format_exc()[-1200:]


# ----------------------------------------------------------------- PROCESS_LOG events as a listener sees them

def poolorder_job(job):
    """A real EventListenerPool with one real listener process, subscribed (real _subscribe()) to the event
    types `sel` (names); a second process with stdout/stderr events enabled writes five chunks, each read at
    once (five PROCESS_LOG events).  Every emitted event covered by `sel` must be buffered exactly once, in
    emission order; the pool then dispatches them one at a time to its single listener (which acknowledges
    each): what remains buffered stays in order and the payloads reach the listener's stdin in the order of
    the log.  -> failure text or None"""
    sel, strip = job
    from supervisor import events as ev
    from supervisor.states import EventListenerStates, ProcessStates
    seam = _SEAM
    try:
        cfgs = [(False, 0, 0, False, False, False, None, False, True), (False, 0, 0, True, True)]
        seam.start(cfgs, strip, 3)
        pool = seam.sup.process_groups['g0']
        types = [getattr(ev, n) for n in sel]
        pool.config.pool_events = types
        pool._subscribe()
        lis = seam.procs[0]
        for o in [('spawn', 0, 'ok'), ('write', 0, 'stdout', b'READY\n'), ('read', 0, 'stdout', 3000), ('spawn', 1, 'ok')]:
            seam.op(o)
        lis.laststart -= 5
        lis.transition()
        if lis.state != ProcessStates.RUNNING or lis.listener_state != EventListenerStates.READY:
            return 'harness: the listener did not become RUNNING/READY (%r, %r)' % (lis.state, lis.listener_state)
        chunks = [('stdout', b'c1 out\n'), ('stderr', b'c2 err\n'), ('stdout', b'c3 out\n'), ('stderr', b'c4 err\n'),
                  ('stdout', b'c5 out\n')]
        for chan, data in chunks:
            seam.op(('write', 1, chan, data))
            seam.op(('read', 1, chan, 3000))
        emitted = [(k, p, pid, ch, d) for (k, p, pid, ch, d) in seam.events if k == 0 and p == 1]
        if [d for (_k, _p, _pid, _ch, d) in emitted] != [d for _c, d in chunks]:
            return 'the five reads did not give five PROCESS_LOG events in order: %r' % ([e[4] for e in emitted],)
        cls = {1: ev.ProcessLogStdoutEvent, 2: ev.ProcessLogStderrEvent}
        want = [d for (_k, _p, _pid, ch, d) in emitted if any(issubclass(cls[ch], t) for t in types)]
        got = [e.data for e in pool.event_buffer if isinstance(e, ev.ProcessLogEvent)]
        if got != want:
            return ('a pool with events=%s buffered the PROCESS_LOG events %r, expected each covered event once, in order: %r'
                    % (','.join(sel), got, want))
        stdin_pipe = seam.kernel.fds[seam._disp_fd(lis, 'stdin')[0]][1]
        for i in range(len(want)):
            pool.dispatch()
            rest = [e.data for e in pool.event_buffer if isinstance(e, ev.ProcessLogEvent)]
            if rest != want[i + 1:]:
                return ('after dispatching %d of %d buffered PROCESS_LOG events to the only listener, the buffer holds %r, '
                        'expected %r (events=%s)' % (i + 1, len(want), rest, want[i + 1:], ','.join(sel)))
            seam.op(('write', 0, 'stdout', b'RESULT 2\nOKREADY\n'))
            seam.op(('read', 0, 'stdout', 3000))
            if lis.listener_state != EventListenerStates.READY:
                return 'harness: the listener did not return to READY'
        sent = seam.kernel.written_to.get(stdin_pipe, b'')
        pos = [sent.find(d) for d in want]
        if -1 in pos or pos != sorted(pos):
            return 'the listener received the PROCESS_LOG payloads out of the order of the log (offsets %r)' % (pos,)
        if seam.header_errors:
            return seam.header_errors[0]
        for p in seam.procs:
            p.dispatchers = {}
        return None
    except HarnessFailure as e:
        return str(e)
    except Exception:
        import traceback
        return 'exception: ' + traceback.format_exc()[-1500:]
