"""Extra supervisorctl plugins for the C20 harness ([ctlplugin:x] sections of a temporary
client configuration; supervisor.ctl_factory = c20_plugins:make_x / make_y)."""
from supervisor.supervisorctl import ControllerPluginBase


class XPlugin(ControllerPluginBase):
    name = 'x'

    def do_xcmd(self, arg):
        self.ctl.output('x:xcmd %s' % arg)

    def do_shared(self, arg):
        self.ctl.output('x:shared %s' % arg)


class YPlugin(ControllerPluginBase):
    name = 'y'

    def do_ycmd(self, arg):
        self.ctl.output('y:ycmd %s' % arg)
        self.ctl.exitstatus = 3

    def do_shared(self, arg):
        self.ctl.output('y:shared %s' % arg)

    def do_status(self, arg):      # a later plugin must not shadow the default plugin's action
        self.ctl.output('y:status %s' % arg)


def make_x(controller, **config):
    return XPlugin(controller)


def make_y(controller, **config):
    return YPlugin(controller)
