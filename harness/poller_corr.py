"""Drive the REAL supervisor.poller.PollPoller / SelectPoller over a scripted `select` module and print each
history as a Coq term of type SV.Life.Poller.pcase (operations, what the class answered, final sets).

The scripted module answers poll()/select() with what the script says (an errno, event pairs, ready lists); its poll
object has the registry semantics of select.poll (register overwrites the mask, unregister of an unknown descriptor
raises KeyError)."""
import itertools

EINTR, EBADF = 4, 9
POLLIN, POLLPRI, POLLOUT, POLLERR, POLLHUP, POLLNVAL = 1, 2, 4, 8, 16, 32


class ScriptSelect(object):
    POLLIN, POLLPRI, POLLOUT, POLLERR, POLLHUP, POLLNVAL = POLLIN, POLLPRI, POLLOUT, POLLERR, POLLHUP, POLLNVAL
    error = OSError

    def __init__(self):
        self.answers = []
        self.obj = None

    def poll(self):
        self.obj = ScriptPoll(self)
        return self.obj

    def select(self, r, w, x, timeout=None):
        a = self.answers.pop(0)
        if a[0] == 'err':
            raise OSError(a[1], 'scripted')
        return list(a[1]), list(a[2]), []


class ScriptPoll(object):
    def __init__(self, mod):
        self.m = mod
        self.reg = {}

    def register(self, fd, mask=7):
        self.reg[fd] = mask

    def unregister(self, fd):
        del self.reg[fd]

    def poll(self, timeout=None):
        a = self.m.answers.pop(0)
        if a[0] == 'err':
            raise OSError(a[1], 'scripted')
        return list(a[1])


class _Log(object):
    def blather(self, *a, **k): pass
    debug = info = warn = error = critical = trace = blather


class _Opts(object):
    logger = _Log()


def run_history(select_kind, ops):
    """ops: ('rr',fd) ('rw',fd) ('ur',fd) ('uw',fd) ('poll', answer);  answer = ('err',e) | ('events',[(fd,m)..]) |
    ('sel', r, w).  Returns (outs, readables, writables, registry)."""
    import supervisor.poller as sp
    saved = sp.select
    fake = ScriptSelect()
    sp.select = fake
    try:
        p = (sp.SelectPoller if select_kind else sp.PollPoller)(_Opts())
        outs = []
        for o in ops:
            try:
                if o[0] == 'rr':
                    p.register_readable(o[1]); outs.append(('done',))
                elif o[0] == 'rw':
                    p.register_writable(o[1]); outs.append(('done',))
                elif o[0] == 'ur':
                    p.unregister_readable(o[1]); outs.append(('done',))
                elif o[0] == 'uw':
                    p.unregister_writable(o[1]); outs.append(('done',))
                else:
                    fake.answers = [o[1]]
                    r, w = p.poll(1)
                    outs.append(('ready', list(r), list(w)))
            except KeyError:
                outs.append(('keyerror',))
            except OSError as e:
                outs.append(('raise', e.args[0]))
            except Exception as e:       # anything else is reported as an error code no model output matches
                outs.append(('raise', -1))
        reg = sorted(fake.obj.reg.items()) if fake.obj is not None else []
        return outs, sorted(p.readables), sorted(p.writables), reg
    finally:
        sp.select = saved


def zl(l):
    return '[' + '; '.join(str(int(x)) for x in l) + ']'


def pairs(l):
    return '[' + '; '.join('(%d, %d)' % (a, b) for a, b in l) + ']'


def op_term(o):
    if o[0] in ('rr', 'rw', 'ur', 'uw'):
        return '%s %d' % ({'rr': 'RegR', 'rw': 'RegW', 'ur': 'UnregR', 'uw': 'UnregW'}[o[0]], o[1])
    a = o[1]
    if a[0] == 'err':
        return 'Poll (KErr %d)' % a[1]
    if a[0] == 'events':
        return 'Poll (KEvents %s)' % pairs(a[1])
    return 'Poll (KSel %s %s)' % (zl(a[1]), zl(a[2]))


def out_term(o):
    if o[0] == 'done':
        return 'ODone'
    if o[0] == 'keyerror':
        return 'OKeyError'
    if o[0] == 'raise':
        return 'ORaise (%d)' % o[1]
    return 'OReady %s %s' % (zl(o[1]), zl(o[2]))


def case_term(select_kind, ops, res):
    outs, rs, ws, reg = res
    return 'mkPC %s [%s] [%s] %s %s %s' % (
        'true' if select_kind else 'false', '; '.join(op_term(o) for o in ops), '; '.join(out_term(o) for o in outs),
        zl(rs), zl(ws), pairs(reg))


MASKS = [POLLIN, POLLOUT, POLLHUP, POLLIN | POLLHUP, POLLNVAL, POLLERR, POLLPRI, POLLIN | POLLOUT, POLLERR | POLLOUT,
         POLLNVAL | POLLIN, 0]


def alphabet(select_kind):
    al = []
    for fd in (3, 4):
        al += [('rr', fd), ('rw', fd), ('ur', fd), ('uw', fd)]
    for e in (EINTR, EBADF, 12):
        al.append(('poll', ('err', e)))
    if select_kind:
        al += [('poll', ('sel', [3], [])), ('poll', ('sel', [3, 4], [4]))]
    else:
        al += [('poll', ('events', [(3, POLLIN), (4, POLLOUT)])), ('poll', ('events', [(3, POLLNVAL)])),
               ('poll', ('events', [(4, POLLHUP), (3, POLLNVAL | POLLIN)]))]
    return al


def exhaustive(select_kind, depth):
    al = alphabet(select_kind)
    for n in range(1, depth + 1):
        for w in itertools.product(al, repeat=n):
            yield list(w)


def random_history(rng, select_kind):
    ops = []
    fds = [3, 4, 5, 6, 7, 11]
    reg = {}
    for _ in range(rng.randrange(1, 25)):
        r = rng.random()
        fd = rng.choice(fds)
        if r < 0.2:
            ops.append(('rr', fd)); reg[fd] = 1
        elif r < 0.4:
            ops.append(('rw', fd)); reg[fd] = 1
        elif r < 0.5:
            ops.append(('ur', fd))
        elif r < 0.6:
            ops.append(('uw', fd))
        elif r < 0.7:
            ops.append(('poll', ('err', rng.choice([EINTR, EINTR, EBADF, 12, 22, 14]))))
        elif select_kind:
            ops.append(('poll', ('sel', sorted(rng.sample(fds, rng.randrange(0, 4))), sorted(rng.sample(fds, rng.randrange(0, 3))))))
        else:
            ev = []
            for f in sorted(rng.sample(fds, rng.randrange(0, 5))):
                ev.append((f, rng.choice(MASKS)))
            ops.append(('poll', ('events', ev)))
    return ops


# ---------------------------------------------------------------------------------------------------- KQueuePoller
KQ_READ, KQ_WRITE, KQ_EV_ADD, KQ_EV_DELETE = -1, -2, 1, 2
ENOENT = 2


class _KEvent(object):
    def __init__(self, ident, filter=KQ_READ, flags=KQ_EV_ADD):
        self.ident, self.filter, self.flags = ident, filter, flags


class ScriptKQueue(object):
    """select.kqueue with the registry semantics of the kernel: EV_ADD adds (ident, filter), EV_DELETE of an unknown
    pair fails with ENOENT; a scripted errno makes the next control() call fail instead."""

    def __init__(self, mod):
        self.m = mod
        self.reg = set()
        self.closed = False

    def control(self, changelist, max_events, timeout=None):
        if changelist is None:
            a = self.m.answers.pop(0)
            if a[0] == 'err':
                raise OSError(a[1], 'scripted')
            return [_KEvent(i, f, 0) for (i, f) in a[1]]
        e = self.m.next_errno
        self.m.next_errno = 0
        if e:
            raise OSError(e, 'scripted')
        for ev in changelist:
            key = (ev.ident, ev.filter)
            if ev.flags & KQ_EV_ADD:
                self.reg.add(key)
            elif ev.flags & KQ_EV_DELETE:
                if key not in self.reg:
                    raise OSError(ENOENT, 'no such event')
                self.reg.discard(key)
        return []

    def close(self):
        self.closed = True


class ScriptSelectKQ(object):
    KQ_FILTER_READ, KQ_FILTER_WRITE, KQ_EV_ADD, KQ_EV_DELETE = KQ_READ, KQ_WRITE, KQ_EV_ADD, KQ_EV_DELETE
    error = OSError
    kevent = _KEvent

    def __init__(self):
        self.answers = []
        self.next_errno = 0
        self.obj = None

    def kqueue(self):
        self.obj = ScriptKQueue(self)
        return self.obj


def run_kq_history(ops):
    """ops: ('rr',fd,e) ('rw',fd,e) ('ur',fd,e) ('uw',fd,e) ('poll', answer) ('daemonize',)"""
    import supervisor.poller as sp
    saved = sp.select
    fake = ScriptSelectKQ()
    sp.select = fake
    try:
        p = sp.KQueuePoller(_Opts())
        outs = []
        for o in ops:
            try:
                if o[0] in ('rr', 'rw', 'ur', 'uw'):
                    fake.next_errno = o[2]
                    {'rr': p.register_readable, 'rw': p.register_writable, 'ur': p.unregister_readable,
                     'uw': p.unregister_writable}[o[0]](o[1])
                    outs.append(('done',))
                elif o[0] == 'daemonize':
                    p.before_daemonize()
                    p.after_daemonize()
                    outs.append(('done',))
                else:
                    fake.answers = [o[1]]
                    r, w = p.poll(1)
                    outs.append(('ready', list(r), list(w)))
            except OSError as e:
                outs.append(('raise', e.args[0]))
            except Exception:
                outs.append(('raise', -1))
            fake.next_errno = 0
        return outs, sorted(p.readables), sorted(p.writables), sorted(fake.obj.reg)
    finally:
        sp.select = saved


def kq_op_term(o):
    if o[0] in ('rr', 'rw', 'ur', 'uw'):
        return '%s %d %d' % ({'rr': 'KRegR', 'rw': 'KRegW', 'ur': 'KUnregR', 'uw': 'KUnregW'}[o[0]], o[1], o[2])
    if o[0] == 'daemonize':
        return 'KDaemonize'
    a = o[1]
    if a[0] == 'err':
        return 'KPoll (KErr %d)' % a[1]
    return 'KPoll (KEvents %s)' % pairs_z(a[1])


def pairs_z(l):
    return '[' + '; '.join('(%d, (%d))' % (a, b) for a, b in l) + ']'


def kq_case_term(ops, res):
    outs, rs, ws, reg = res
    return 'mkKC [%s] [%s] %s %s %s' % ('; '.join(kq_op_term(o) for o in ops), '; '.join(out_term(o) for o in outs),
                                       zl(rs), zl(ws), pairs_z(reg))


def kq_alphabet():
    al = []
    for fd in (3, 4):
        al += [('rr', fd, 0), ('rw', fd, 0), ('ur', fd, 0), ('uw', fd, 0)]
    al += [('rr', 3, EBADF), ('ur', 3, EBADF), ('rw', 4, 12), ('daemonize',),
           ('poll', ('err', EINTR)), ('poll', ('err', EBADF)),
           ('poll', ('events', [(3, KQ_READ), (4, KQ_WRITE), (4, KQ_READ)]))]
    return al


def kq_exhaustive(depth):
    al = kq_alphabet()
    for n in range(1, depth + 1):
        for w in itertools.product(al, repeat=n):
            yield list(w)


def kq_random_history(rng):
    ops = []
    fds = [3, 4, 5, 6, 9]
    for _ in range(rng.randrange(1, 25)):
        r = rng.random()
        fd = rng.choice(fds)
        e = rng.choice([0, 0, 0, 0, 0, EBADF, EINTR, 12, 22])
        if r < 0.25:
            ops.append(('rr', fd, e))
        elif r < 0.45:
            ops.append(('rw', fd, e))
        elif r < 0.55:
            ops.append(('ur', fd, e))
        elif r < 0.65:
            ops.append(('uw', fd, e))
        elif r < 0.72:
            ops.append(('daemonize',))
        elif r < 0.82:
            ops.append(('poll', ('err', rng.choice([EINTR, EINTR, EBADF, 12, 22]))))
        else:
            ev = [(rng.choice(fds), rng.choice([KQ_READ, KQ_WRITE, -3])) for _ in range(rng.randrange(0, 5))]
            ops.append(('poll', ('events', ev)))
    return ops
