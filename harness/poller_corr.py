"""Drive the REAL supervisor.poller.PollPoller / SelectPoller over a scripted `select` module and print each
history as a Coq term of type SV.Life.Poller.pcase (operations, what the class answered, final sets).

The scripted module answers poll()/select() with what the script says (an errno, event pairs, ready lists); its poll
object has the registry semantics of select.poll (register overwrites the mask, unregister of an unknown descriptor
raises KeyError)."""
import itertools

EINTR, EBADF = 4, 9
POLLIN, POLLPRI, POLLOUT, POLLERR, POLLHUP, POLLNVAL = 1, 2, 4, 8, 16, 32


class ScriptSelect(object):
    POLLIN, POLLPRI, POLLOUT, POLLERR, POLLHUP, POLLNVAL = POLLIN, POLLPRI, POLLOUT, POLLERR, POLLHUP, POLLNVAL
    error = OSError

    def __init__(self):
        self.answers = []
        self.obj = None

    def poll(self):
        self.obj = ScriptPoll(self)
        return self.obj

    def select(self, r, w, x, timeout=None):
        a = self.answers.pop(0)
        if a[0] == 'err':
            raise OSError(a[1], 'scripted')
        return list(a[1]), list(a[2]), []


class ScriptPoll(object):
    def __init__(self, mod):
        self.m = mod
        self.reg = {}

    def register(self, fd, mask=7):
        self.reg[fd] = mask

    def unregister(self, fd):
        del self.reg[fd]

    def poll(self, timeout=None):
        a = self.m.answers.pop(0)
        if a[0] == 'err':
            raise OSError(a[1], 'scripted')
        return list(a[1])


class _Log(object):
    def blather(self, *a, **k): pass
    debug = info = warn = error = critical = trace = blather


class _Opts(object):
    logger = _Log()


def run_history(select_kind, ops):
    """ops: ('rr',fd) ('rw',fd) ('ur',fd) ('uw',fd) ('poll', answer);  answer = ('err',e) | ('events',[(fd,m)..]) |
    ('sel', r, w).  Returns (outs, readables, writables, registry)."""
    import supervisor.poller as sp
    saved = sp.select
    fake = ScriptSelect()
    sp.select = fake
    try:
        p = (sp.SelectPoller if select_kind else sp.PollPoller)(_Opts())
        outs = []
        for o in ops:
            try:
                if o[0] == 'rr':
                    p.register_readable(o[1]); outs.append(('done',))
                elif o[0] == 'rw':
                    p.register_writable(o[1]); outs.append(('done',))
                elif o[0] == 'ur':
                    p.unregister_readable(o[1]); outs.append(('done',))
                elif o[0] == 'uw':
                    p.unregister_writable(o[1]); outs.append(('done',))
                else:
                    fake.answers = [o[1]]
                    r, w = p.poll(1)
                    outs.append(('ready', list(r), list(w)))
            except KeyError:
                outs.append(('keyerror',))
            except OSError as e:
                outs.append(('raise', e.args[0]))
            except Exception as e:       # anything else is reported as an error code no model output matches
                outs.append(('raise', -1))
        reg = sorted(fake.obj.reg.items()) if fake.obj is not None else []
        return outs, sorted(p.readables), sorted(p.writables), reg
    finally:
        sp.select = saved


def zl(l):
    return '[' + '; '.join(str(int(x)) for x in l) + ']'


def pairs(l):
    return '[' + '; '.join('(%d, %d)' % (a, b) for a, b in l) + ']'


def op_term(o):
    if o[0] in ('rr', 'rw', 'ur', 'uw'):
        return '%s %d' % ({'rr': 'RegR', 'rw': 'RegW', 'ur': 'UnregR', 'uw': 'UnregW'}[o[0]], o[1])
    a = o[1]
    if a[0] == 'err':
        return 'Poll (KErr %d)' % a[1]
    if a[0] == 'events':
        return 'Poll (KEvents %s)' % pairs(a[1])
    return 'Poll (KSel %s %s)' % (zl(a[1]), zl(a[2]))


def out_term(o):
    if o[0] == 'done':
        return 'ODone'
    if o[0] == 'keyerror':
        return 'OKeyError'
    if o[0] == 'raise':
        return 'ORaise (%d)' % o[1]
    return 'OReady %s %s' % (zl(o[1]), zl(o[2]))


def case_term(select_kind, ops, res):
    outs, rs, ws, reg = res
    return 'mkPC %s [%s] [%s] %s %s %s' % (
        'true' if select_kind else 'false', '; '.join(op_term(o) for o in ops), '; '.join(out_term(o) for o in outs),
        zl(rs), zl(ws), pairs(reg))


MASKS = [POLLIN, POLLOUT, POLLHUP, POLLIN | POLLHUP, POLLNVAL, POLLERR, POLLPRI, POLLIN | POLLOUT, POLLERR | POLLOUT,
         POLLNVAL | POLLIN, 0]


def alphabet(select_kind):
    al = []
    for fd in (3, 4):
        al += [('rr', fd), ('rw', fd), ('ur', fd), ('uw', fd)]
    for e in (EINTR, EBADF, 12):
        al.append(('poll', ('err', e)))
    if select_kind:
        al += [('poll', ('sel', [3], [])), ('poll', ('sel', [3, 4], [4]))]
    else:
        al += [('poll', ('events', [(3, POLLIN), (4, POLLOUT)])), ('poll', ('events', [(3, POLLNVAL)])),
               ('poll', ('events', [(4, POLLHUP), (3, POLLNVAL | POLLIN)]))]
    return al


def exhaustive(select_kind, depth):
    al = alphabet(select_kind)
    for n in range(1, depth + 1):
        for w in itertools.product(al, repeat=n):
            yield list(w)


def random_history(rng, select_kind):
    ops = []
    fds = [3, 4, 5, 6, 7, 11]
    reg = {}
    for _ in range(rng.randrange(1, 25)):
        r = rng.random()
        fd = rng.choice(fds)
        if r < 0.2:
            ops.append(('rr', fd)); reg[fd] = 1
        elif r < 0.4:
            ops.append(('rw', fd)); reg[fd] = 1
        elif r < 0.5:
            ops.append(('ur', fd))
        elif r < 0.6:
            ops.append(('uw', fd))
        elif r < 0.7:
            ops.append(('poll', ('err', rng.choice([EINTR, EINTR, EBADF, 12, 22, 14]))))
        elif select_kind:
            ops.append(('poll', ('sel', sorted(rng.sample(fds, rng.randrange(0, 4))), sorted(rng.sample(fds, rng.randrange(0, 3))))))
        else:
            ev = []
            for f in sorted(rng.sample(fds, rng.randrange(0, 5))):
                ev.append((f, rng.choice(MASKS)))
            ops.append(('poll', ('events', ev)))
    return ops
