"""Shared machinery for the /verif checks.

Every check follows the same pipeline (DESIGN.md section 1.2):
  gen  -> translators write coq/**/Gen_*.v from /repo's current working tree
  make -> full .vo build of the property's Coq files (coq_makefile, no -vos)
  audit-> Print Assumptions of every property theorem + forbidden-word gate
  corr -> correspondence: the real implementation and the Coq model (evaluated
          with vm_compute inside coqc) run on the same cases; Coq itself does
          the comparison and prints only the indices of disagreeing cases
  evidence / VIOLATION / KNOWN-FINDING reporting
"""
import fcntl
import hashlib
import json
import os
import random
import re
import shutil
import subprocess
import sys
import time

VERIF = os.path.dirname(os.path.dirname(os.path.abspath(__file__)))
REPO = os.environ.get('VERIF_REPO', '/repo')
# seeded-change trials build in a private copy of the Coq tree (VERIF_COQ_DIR) so that facts generated from a changed
# source never meet the unchanged tree's build
COQ = os.environ.get('VERIF_COQ_DIR') or os.path.join(VERIF, 'coq')
PY = '/venv/bin/python'
NCPU = min(16, os.cpu_count() or 4)

# Axioms of Coq's own standard library that a theorem may depend on (each is
# named in the evidence's trusted base whenever Print Assumptions reports it).
ALLOWED_AXIOMS = {
    'functional_extensionality_dep', 'FunctionalExtensionality.functional_extensionality_dep',
    'Eqdep.Eq_rect_eq.eq_rect_eq', 'eq_rect_eq', 'JMeq_eq', 'JMeq.JMeq_eq',
    'proof_irrelevance', 'ProofIrrelevance.proof_irrelevance',
    'classic', 'Classical_Prop.classic', 'propositional_extensionality',
}

FORBIDDEN = re.compile(
    r'\b(Admitted|admit|Axiom|Axioms|Parameter|Parameters|Conjecture|Conjectures|'
    r'Abort All|bypass_check|native_compute)\b|Unset\s+Guard|Unset\s+Positivity|'
    r'Unset\s+Universe\s+Checking|type-in-type|impredicative-set|Admit\s+Obligations')


def impl_env():
    """Environment for running the implementation from /repo's working tree."""
    e = dict(os.environ)
    e['PYTHONPATH'] = REPO + os.pathsep + os.path.join(VERIF, 'lib') + os.pathsep + os.path.join(VERIF, 'harness')
    e['PYTHONHASHSEED'] = '0'
    e['PYTHONDONTWRITEBYTECODE'] = '1'
    e['SUPERVISOR_VERIF'] = '1'
    e['VERIF_REPO'] = REPO
    return e


def ensure_impl_path():
    """Make `import supervisor` resolve to /repo's working tree in this process."""
    sys.dont_write_bytecode = True
    for p in (os.path.join(VERIF, 'harness'), os.path.join(VERIF, 'lib'), REPO):
        if p in sys.path:
            sys.path.remove(p)
        sys.path.insert(0, p)


class WorkDir(object):
    def __init__(self, tag):
        self.path = os.path.join(VERIF, '_work', '%s-%d' % (tag, os.getpid()))

    def __enter__(self):
        shutil.rmtree(self.path, ignore_errors=True)
        os.makedirs(self.path)
        return self.path

    def __exit__(self, *a):
        if not os.environ.get('VERIF_KEEP'):
            shutil.rmtree(self.path, ignore_errors=True)


# ---------------------------------------------------------------- Coq build

class _Lock(object):
    def __init__(self):
        self.f = None

    def __enter__(self):
        self.f = open(os.path.join(COQ if os.environ.get('VERIF_COQ_DIR') else VERIF, '.build.lock'), 'w')
        fcntl.flock(self.f, fcntl.LOCK_EX)

    def __exit__(self, *a):
        fcntl.flock(self.f, fcntl.LOCK_UN)
        self.f.close()


def coq_sources():
    out = []
    for root, dirs, files in os.walk(COQ):
        dirs.sort()
        for f in sorted(files):
            if f.endswith('.v') and not f.startswith('.'):
                out.append(os.path.relpath(os.path.join(root, f), COQ))
    return sorted(out)


def write_if_changed(path, text):
    try:
        with open(path) as f:
            if f.read() == text:
                return False
    except IOError:
        pass
    d = os.path.dirname(path)
    if not os.path.isdir(d):
        os.makedirs(d)
    with open(path, 'w') as f:
        f.write(text)
    return True


def _prepare_makefile():
    srcs = coq_sources()
    proj = '-Q . SV\n-arg -w -arg -notation-overridden,-deprecated,-ambiguous-paths\n' + '\n'.join(srcs) + '\n'
    changed = write_if_changed(os.path.join(COQ, '_CoqProject'), proj)
    if changed or not os.path.exists(os.path.join(COQ, 'Makefile')):
        # the file list changed: have coqdep recompute every dependency (a stale .Makefile.d let a
        # property file be compiled before a newly added file it requires)
        try:
            os.unlink(os.path.join(COQ, '.Makefile.d'))
        except OSError:
            pass
        subprocess.check_call(['coq_makefile', '-f', '_CoqProject', '-o', 'Makefile'],
                              cwd=COQ, stdout=subprocess.DEVNULL)


def coq_make(targets=None, timeout=1500):
    """Full .vo build (never -vos/-vok) of the given targets, or of everything.

    Returns (ok, log_text)."""
    with _Lock():
        _prepare_makefile()
        cmd = ['timeout', str(timeout), 'make', '-j%d' % NCPU, '-k', 'COQC=' + os.path.join(VERIF, 'tools', 'coqc_limited')]
        if targets:
            cmd += targets
        p = subprocess.run(cmd, cwd=COQ, stdout=subprocess.PIPE, stderr=subprocess.STDOUT)
        return p.returncode == 0, p.stdout.decode('utf-8', 'replace')


def forbidden_scan(files):
    """Grep gate: no Admitted/admit/Axiom/Parameter/... in the listed .v files
    (comments are stripped first)."""
    hits = []
    for rel in files:
        with open(os.path.join(COQ, rel)) as f:
            text = f.read()
        text = strip_coq_comments(text)
        for i, line in enumerate(text.split('\n')):
            m = FORBIDDEN.search(line)
            if m:
                hits.append('%s:%d: %s' % (rel, i + 1, m.group(0)))
    return hits


def strip_coq_comments(text):
    out = []
    depth = 0
    i = 0
    n = len(text)
    instr = False
    while i < n:
        c = text[i]
        if depth == 0 and c == '"':
            instr = not instr
            out.append(c)
            i += 1
            continue
        if not instr and text.startswith('(*', i):
            depth += 1
            i += 2
            continue
        if not instr and depth > 0 and text.startswith('*)', i):
            depth -= 1
            i += 2
            continue
        if depth == 0:
            out.append(c)
        elif c == '\n':
            out.append(c)
        i += 1
    return ''.join(out)


def coq_deps(rel):
    """Transitive SV.* dependencies of a .v file (relative to coq/), itself included."""
    seen = []

    def visit(r):
        if r in seen:
            return
        path = os.path.join(COQ, r)
        if not os.path.exists(path):
            return
        with open(path) as f:
            text = strip_coq_comments(f.read())
        for m in re.finditer(r'(?:From\s+(SV[\w.]*)\s+)?Require\s+(?:Import\s+|Export\s+)?(.*?)\.(?=\s|$)', text, re.S):
            pre = m.group(1)
            for name in m.group(2).split():
                full = (pre + '.' + name) if pre else name
                if full.startswith('SV.'):
                    visit(full[3:].replace('.', '/') + '.v')
        seen.append(r)

    visit(rel)
    return seen


def audit_props(prop_rel, timeout=600):
    """Compile coq/props/CXX.v by itself (its dependencies are already built) and
    parse what each `Print Assumptions` printed.

    Returns dict(ok, theorems=[(name, 'closed' | [axioms])], log, errors)."""
    src = os.path.join(COQ, prop_rel)
    with open(src) as f:
        text = strip_coq_comments(f.read())
    names = re.findall(r'Print\s+Assumptions\s+([\w.\']+)\s*\.', text)
    stated = re.findall(r'\b(?:Theorem|Lemma|Corollary)\s+([\w\']+)', text)
    errors = []
    for t in stated:
        if t not in names:
            errors.append('theorem %s has no Print Assumptions' % t)
    with _Lock():
        p = subprocess.run(['timeout', str(timeout), 'coqc', '-Q', '.', 'SV', '-w',
                            '-notation-overridden,-deprecated,-ambiguous-paths', prop_rel],
                           cwd=COQ, stdout=subprocess.PIPE, stderr=subprocess.STDOUT)
    out = p.stdout.decode('utf-8', 'replace')
    if p.returncode != 0:
        errors.append('coqc %s failed' % prop_rel)
    # split the output into one block per Print Assumptions, in order
    blocks = re.findall(r'(Closed under the global context|Axioms:\n(?:.+\n?)*?(?=\nClosed under|\nAxioms:|\Z))', out)
    results = []
    for i, name in enumerate(names):
        if i >= len(blocks):
            errors.append('no Print Assumptions output for %s' % name)
            continue
        b = blocks[i]
        if b.startswith('Closed'):
            results.append((name, 'closed'))
        else:
            axs = re.findall(r'^([\w.\']+)\s*:', b, re.M)
            results.append((name, axs))
            for a in axs:
                if a not in ALLOWED_AXIOMS and a.split('.')[-1] not in ALLOWED_AXIOMS:
                    errors.append('theorem %s depends on non-library axiom %s' % (name, a))
    return {'ok': not errors, 'theorems': results, 'log': out, 'errors': errors,
            'stated': stated}


# ------------------------------------------------- running the model in Coq

def zlit(n):
    return '(%d)%%Z' % n if n < 0 else '%d%%Z' % n


def zlist(xs):
    """A `list Z` literal; parsed in Z scope as a whole (cheap for Coq to read)."""
    return '[' + '; '.join(('(%d)' % x) if x < 0 else str(x) for x in xs) + ']%Z'


def bytes_lit(b):
    """Bytes as list Z (the models use `list Z` for byte strings)."""
    return zlist(list(b))


def blit(b):
    return 'true' if b else 'false'


def coq_list(items):
    return '[' + '; '.join(items) + ']'


def coq_opt(x):
    return 'None' if x is None else '(Some %s)' % x


def _run_case_file(args):
    path, cwd = args
    p = subprocess.run(['timeout', '900', 'coqc', '-Q', COQ, 'SV', '-w',
                        '-notation-overridden,-deprecated,-ambiguous-paths', path],
                       cwd=cwd, stdout=subprocess.PIPE, stderr=subprocess.STDOUT)
    return p.returncode, p.stdout.decode('utf-8', 'replace')


def coq_compare(imports, case_type, check_fn, cases, workdir, shard=400, tag='cases', preamble=''):
    """Correspondence step, decided inside Coq.

    `cases` is a list of Coq terms of type `case_type`, each pairing an input with
    what the implementation produced; `check_fn : case_type -> bool` (a model
    definition) recomputes the model's answer and compares.  Coq evaluates
    `bad_indices check_fn cases` with vm_compute and prints the indices of the
    cases on which model and implementation differ (normally `[]`).

    Returns (sorted list of failing case indices, list of error strings)."""
    from concurrent.futures import ThreadPoolExecutor
    files = []
    for k in range(0, len(cases), shard):
        chunk = cases[k:k + shard]
        name = '%s_%d' % (tag, k // shard)
        path = os.path.join(workdir, name + '.v')
        with open(path, 'w') as f:
            f.write('From Coq Require Import ZArith List Bool String.\nImport ListNotations.\n')
            f.write('Require Import SV.Common.\n')
            for imp in imports:
                f.write('Require Import %s.\n' % imp)
            f.write(preamble + '\n')
            f.write('Definition the_cases : list (%s) :=\n  [ ' % case_type)
            f.write('\n  ; '.join(chunk))
            f.write('\n  ].\n')
            f.write('Definition the_bad := Eval vm_compute in bad_indices (%s) the_cases.\n' % check_fn)
            f.write('Print the_bad.\n')
        files.append((path, k))
    bad = []
    errors = []
    with ThreadPoolExecutor(max_workers=NCPU) as ex:
        results = list(ex.map(_run_case_file, [(p, workdir) for p, _ in files]))
    for (path, base), (rc, out) in zip(files, results):
        if rc != 0:
            errors.append('coqc failed on %s: %s' % (os.path.basename(path), out[-2000:]))
            continue
        m = re.search(r'the_bad\s*=\s*(.*?)\s*:\s*list', out, re.S)
        if not m:
            errors.append('unparsable output for %s: %s' % (os.path.basename(path), out[-500:]))
            continue
        for tok in re.findall(r'\d+', m.group(1)):
            bad.append(base + int(tok))
    return sorted(bad), errors


def coq_eval(imports, term, workdir, tag='eval', preamble=''):
    """Evaluate one closed term with vm_compute and return Coq's printed value."""
    path = os.path.join(workdir, tag + '.v')
    with open(path, 'w') as f:
        f.write('From Coq Require Import ZArith List Bool String.\nImport ListNotations.\n')
        f.write('Require Import SV.Common.\n')
        for imp in imports:
            f.write('Require Import %s.\n' % imp)
        f.write(preamble + '\n')
        f.write('Definition the_val := Eval vm_compute in (%s).\nPrint the_val.\n' % term)
    rc, out = _run_case_file((path, workdir))
    if rc != 0:
        return None, out
    m = re.search(r'the_val\s*=\s*(.*)\n\s*:\s', out, re.S)
    return (re.sub(r'\s+', ' ', m.group(1)).strip() if m else None), out


# -------------------------------------------------------- reporting

class Check(object):
    """Bookkeeping of one check run: timing, evidence, violations, known findings."""

    def __init__(self, pid, tier, seed, level='proof'):
        self.pid = pid
        self.tier = tier
        self.seed = seed
        self.level = level
        self.t0 = time.time()
        self.violations = []       # (replay_path, nofail)
        self.known_printed = []
        self.coverage = {
            'obligations': 0, 'discharged': 0, 'checker_cmd': '', 'trusted_base': [],
            'evaluations': 0, 'distinct_nontrivial': 0, 'rule': '', 'samples': [],
            'traces_validated_against_impl': 0, 'disagreements_checked': 0,
            'exhaustive': False, 'theorems': [], 'input_distribution': {}, 'notes': [],
        }
        self.assumptions = []
        self.rng = random.Random(seed)
        self.known = load_known_findings().get(pid, [])

    # -- proof side
    def prove(self, prop_rel, gens=(), extra_targets=()):
        """gen -> make -> audit for the property file coq/props/CXX.v.

        Returns True when every stated theorem is compiled and closed (or only
        on allowed standard-library axioms)."""
        for g in gens:
            try:
                g()
            except Exception as e:  # fail closed
                self.note('generator %s failed: %r' % (getattr(g, '__name__', g), e))
                self.coverage['theorems'].append({'generator_failed': repr(e)})
                self.proof_failure = 'translator %s rejected the current source: %r' % (getattr(g, '__name__', g), e)
                return False
        target = prop_rel[:-2] + '.vo'
        ok, log = coq_make([target] + list(extra_targets))
        deps = coq_deps(prop_rel)
        hits = forbidden_scan([d for d in deps if os.path.exists(os.path.join(COQ, d))])
        self.coverage['checker_cmd'] = ('cd /verif/coq && coq_makefile -f _CoqProject -o Makefile && make %s '
                                        '&& coqc -Q . SV %s   # Print Assumptions under every theorem' % (target, prop_rel))
        if not ok:
            m = re.search(r'File "([^"]+)", line (\d+)[^\n]*\n(Error:.*?)(?:\n\n|\Z)', log, re.S)
            self.proof_failure = 'Coq build failed: ' + (('%s:%s %s' % (m.group(1), m.group(2), m.group(3)[:600])) if m else log[-800:])
            self.coverage['obligations'] = max(1, self.coverage['obligations'])
            return False
        if hits:
            self.proof_failure = 'forbidden constructs: ' + '; '.join(hits)
            return False
        a = audit_props(prop_rel)
        self.coverage['obligations'] = len(a['stated'])
        self.coverage['discharged'] = len([1 for _, r in a['theorems'] if r == 'closed' or isinstance(r, list)]) if a['ok'] else 0
        self.coverage['theorems'] = [{'name': n, 'assumptions': r} for n, r in a['theorems']]
        axs = sorted(set(x for _, r in a['theorems'] if isinstance(r, list) for x in r))
        self.coverage['axioms_used'] = axs
        self.coverage['model_files'] = deps
        if not a['ok']:
            self.proof_failure = '; '.join(a['errors'])
            return False
        self.proof_failure = None
        return True

    def note(self, s):
        self.coverage['notes'].append(s)

    def dist(self, key, n=1):
        d = self.coverage['input_distribution']
        d[key] = d.get(key, 0) + n

    # -- outcome
    def violation(self, replay_obj, nofail=False, name=None):
        rdir = os.environ.get('VERIF_REPLAY_DIR') or os.path.join(VERIF, 'replays')
        os.makedirs(rdir, exist_ok=True)
        blob = json.dumps(replay_obj, sort_keys=True, default=repr)
        h = hashlib.sha1(blob.encode()).hexdigest()[:10]
        path = os.path.join(rdir, '%s-%s.json' % (self.pid, name or h))
        with open(path, 'w') as f:
            json.dump(replay_obj, f, indent=1, sort_keys=True, default=repr)
        self.violations.append((path, nofail))
        return path

    def known_finding(self, fid, what):
        line = 'KNOWN-FINDING: property=%s %s' % (self.pid, what)
        if line not in self.known_printed:
            self.known_printed.append(line)

    def finish(self, extra_trusted=()):
        cov = self.coverage
        tb = [
            'Coq 8.16.1 kernel (coqc, full .vo build); vm_compute used in finite-domain lemmas/Examples and to run the model; no native_compute',
            'axioms per theorem as printed by Print Assumptions: %s' % (cov.get('axioms_used') or 'none (closed under the global context)'),
            'correspondence harness (/verif/harness, /verif/props): drives /repo\'s working-tree code and the Coq model on the same cases; comparison done by Coq (Common.bad_indices)',
            'no extraction is used by this check (model evaluated inside coqc)',
            'modelled, not verified: the Python code itself; CPython/stdlib semantics reached only through the correspondence runs',
        ] + list(extra_trusted)
        cov['trusted_base'] = tb
        if self.level == 'proof' and cov['obligations'] < 1:
            cov['obligations'] = 1
        ev = {
            'property_id': self.pid, 'tier': self.tier, 'seed': self.seed, 'level': self.level,
            'coverage': cov, 'assumptions': self.assumptions + tb,
            'wall_s': round(time.time() - self.t0, 2), 'violations': len(self.violations),
            'known_findings_reported': self.known_printed,
        }
        if cov['discharged'] < 1:
            cov['discharged'] = 0
        # seeded-change trials (tools/eval_mutation.py) must not overwrite the evidence of the unchanged tree
        evdir = os.environ.get('VERIF_EVIDENCE_DIR') or os.path.join(VERIF, 'evidence')
        os.makedirs(evdir, exist_ok=True)
        with open(os.path.join(evdir, '%s.json' % self.pid), 'w') as f:
            json.dump(ev, f, indent=1, sort_keys=True, default=repr)
        for line in self.known_printed:
            print(line)
        for path, nofail in self.violations[:20]:
            print('VIOLATION property=%s replay=%s%s' % (self.pid, path, ' no-failing-input-found' if nofail else ''))
        sys.stdout.flush()
        return 1 if self.violations else 0


def load_known_findings():
    path = os.path.join(VERIF, 'known_findings.json')
    out = {}
    try:
        with open(path) as f:
            data = json.load(f)
    except IOError:
        return out
    for ent in data.get('findings', []):
        out.setdefault(ent['property'], []).append(ent)
    return out


def sub_check(chk, modname):
    """Run the correspondence of another property's check (props/<modname>.py) under this check's property id: an
    alarm there is an alarm here.  Known findings of the other property are tolerated there and not repeated here."""
    import importlib
    mod = importlib.import_module(modname)
    sub = Check(chk.pid, chk.tier, chk.seed, level='proof')
    mod.run(sub)
    for path, nofail in sub.violations:
        chk.violations.append((path, nofail))
    cov, sc = chk.coverage, sub.coverage
    cov['evaluations'] += sc.get('evaluations', 0)
    cov['traces_validated_against_impl'] += sc.get('traces_validated_against_impl', 0)
    cov['distinct_nontrivial'] += sc.get('distinct_nontrivial', 0)
    cov.setdefault('sub_checks', {})[modname] = {'evaluations': sc.get('evaluations', 0), 'violations': len(sub.violations)}
    cov['obligations'] += sc.get('obligations', 0)
    cov['discharged'] += sc.get('discharged', 0)
